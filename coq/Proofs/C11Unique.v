(** C11: change ids stay unique among the visible commits that are not kept in place on purpose,
    unless two commits of the change without rewrite record were visible before. *)
From Verif Require Import Base.Prelude Base.DagV Model.Merge Model.RepoV Model.C11
  Proofs.C10 Proofs.C11 Proofs.C11Loop Proofs.C11Refs Proofs.C11View.
From Coq Require Import Lia Arith.

Lemma nd_keys_of_get pm k r : pm_get pm k = Some r -> not_divergent r = true -> In k (nd_keys pm).
Proof.
  intros G Nd. unfold nd_keys. apply in_map_iff. exists (k, r). split; [reflexivity|].
  apply filter_In. split; [now apply pm_get_In|exact Nd].
Qed.
Lemma div_keys_of_get pm k r : pm_get pm k = Some r -> is_divergent r = true -> In k (div_keys pm).
Proof.
  intros G Nd. unfold div_keys. apply in_map_iff. exists (k, r). split; [reflexivity|].
  apply filter_In. split; [now apply pm_get_In|exact Nd].
Qed.

Section Unique.
  Variable s0 : state.
  Variable o : rebase_opts.
  Hypothesis J0 : J s0.
  Let G0 := s_g s0.
  Let n0 := length G0.
  Let H0 := v_heads (s_v s0).
  Let pm0 := s_pm s0.
  Let T := find_descendants_for_rebase s0 (o_imm o).
  Hypothesis Dom : forall k r t, In (k, r) pm0 -> In t (new_parent_ids r) -> In t (scope s0 (o_imm o)).
  Hypothesis Root : pm_get pm0 0 = None.
  (** side conditions of the uniqueness clause (evaluated per case by the checker): the commits with
      a record and the immutable commits are visible, the heads are not empty, and a change id is
      at most the position of a commit carrying it *)
  Hypothesis VisK : forall k, In k (pm_keys pm0) -> covered (pg G0) H0 k.
  Hypothesis VisI : forall i, In i (o_imm o) -> covered (pg G0) H0 i.
  Hypothesis HeadsNE : H0 <> [].
  Hypothesis Chg : forall i, i < n0 -> (c_change (getc G0 i) <= N.of_nat i)%N.

  Variable order : list nat.
  Variable s1 : state.
  Hypothesis HLI : LI s0 o order s1.
  Hypothesis Tall : forall x, In x T -> In x order.
  Variable sB : state.
  Hypothesis PB : PI s0 o s1 sB.
  Let G := s_g sB.
  Let pm1 := s_pm s1.
  Let sh := ancs (pg G) (o_imm o ++ div_keys pm1).
  Let Hf := v_heads (s_v (update_heads sB)).

  Lemma scope_visible x : In x (scope s0 (o_imm o)) -> covered (pg G0) H0 x.
  Proof.
    unfold scope. intros H. apply ancs_spec in H; [|apply (j_wf _ J0)].
    destruct H as [h [Hh Ha]]. apply in_app_or in Hh. destruct Hh as [Hh|Hh].
    - exists h. auto.
    - assert (C : covered (pg G0) H0 h).
      { apply in_app_or in Hh. destruct Hh; [now apply VisK|now apply VisI]. }
      destruct C as [h' [Hh' Ha']]. exists h'. split; [assumption|]. eapply anc_trans; eassumption.
  Qed.

  Lemma root_visible : covered (pg G0) H0 0.
  Proof.
    destruct H0 as [|h t] eqn:E; [congruence|]. exists h. split; [now left|].
    apply root_anc; [apply (j_wf _ J0)|apply (j_np _ J0)|]. rewrite pg_length.
    apply (j_heads _ J0). fold H0. rewrite E. now left.
  Qed.

  (** Every commit visible at the end and in the old part of the graph was visible before. *)
  Lemma final_visible_old x : covered (pg G) Hf x -> x < n0 -> covered (pg G0) H0 x.
  Proof.
    intros [h [Hh Ha]] Lx.
    destruct (update_heads_heads s0 o J0 order s1 HLI Root sB h PB Hh) as [Lh [_ Sh]].
    assert (Gl : forall a y, anc (pg G) a y -> y < length G ->
                  (y < n0 -> y = 0 \/ In y (scope s0 (o_imm o))) -> a < n0 -> a = 0 \/ In a (scope s0 (o_imm o))).
    { intros a y Hxy. induction Hxy as [z|a p d Hp _ IH]; intros Ly Sy La; [auto|].
      unfold G in Hp. rewrite parents_pg in Hp.
      assert (p < d) by (apply (j_wf _ (pi_J _ _ _ _ PB)); now rewrite parents_pg).
      apply IH; [unfold G in *; lia| |assumption].
      intros Lp. right. eapply (parent_scope s0 o J0 order s1 HLI sB d p PB); eauto. }
    destruct (Gl x h Ha Lh Sh Lx) as [->|S]; [apply root_visible|now apply scope_visible].
  Qed.

  (** A commit that is visible at the end and not shielded has no rewrite record. *)
  Lemma final_visible_nokey x : covered (pg G) Hf x -> ~ In x sh -> pm_get pm1 x = None.
  Proof.
    intros Hc Hs. destruct (pm_get pm1 x) as [r|] eqn:Gx; [|reflexivity]. exfalso.
    assert (Lx : x < length (pg G)).
    { destruct Hc as [h [Hh Ha]].
      destruct (update_heads_heads s0 o J0 order s1 HLI Root sB h PB Hh) as [Lh _].
      pose proof (anc_le _ _ _ (j_wf _ (pi_J _ _ _ _ PB)) Ha). rewrite pg_length. unfold G. lia. }
    destruct (not_divergent r) eqn:Nd.
    - apply (view_clean s0 o J0 order s1 HLI Tall Root sB PB x Hc Hs).
      apply T_key; [eapply nd_keys_of_get; eassumption|exact Lx].
    - apply Hs. unfold sh. apply ancs_spec; [apply (j_wf _ (pi_J _ _ _ _ PB))|].
      exists x. split; [|constructor]. apply in_or_app. right.
      eapply div_keys_of_get; [eassumption|]. unfold not_divergent in Nd. now apply negb_false_iff in Nd.
  Qed.

  (** Where a finally visible, unshielded commit comes from. *)
  Inductive Origin (x : nat) : Prop :=
  | Or_old : x < n0 -> covered (pg G0) H0 x -> pm_get pm0 x = None -> pm_get pm1 x = None ->
             c_change (getc G x) = c_change (getc G0 x) -> Origin x
  | Or_copy a : n0 <= x -> c_preds (getc G x) = [a] -> a < n0 -> covered (pg G0) H0 a ->
                pm_get pm0 a = None -> pm_get pm1 a = Some (Rewritten x) ->
                c_change (getc G x) = c_change (getc G0 a) -> Origin x
  | Or_fresh : n0 <= x -> c_change (getc G x) = N.of_nat x -> Origin x.

  Lemma origin x : covered (pg G) Hf x -> ~ In x sh -> Origin x.
  Proof.
    intros Hc Hs.
    pose proof (final_visible_nokey x Hc Hs) as Nk.
    assert (Lx : x < length G).
    { destruct Hc as [h [Hh Ha]].
      destruct (update_heads_heads s0 o J0 order s1 HLI Root sB h PB Hh) as [Lh _].
      pose proof (anc_le _ _ _ (j_wf _ (pi_J _ _ _ _ PB)) Ha). unfold G. lia. }
    pose proof (li_len _ _ _ _ HLI) as L0. fold G0 n0 in L0. pose proof (pi_len _ _ _ _ PB) as L1.
    destruct (Nat.lt_ge_cases x n0) as [Lo|Lo].
    - apply Or_old; [assumption|now apply final_visible_old| |assumption|].
      + destruct (in_dec Nat.eq_dec x T) as [HT|HT].
        * apply (T_facts s0 o J0 x HT).
        * unfold pm0. rewrite <- (li_pm_other _ _ _ _ HLI x); [exact Nk|].
          intros Ho. apply HT. now apply (li_done_T _ _ _ _ HLI).
      + unfold G. rewrite (pi_old _ _ _ _ PB) by lia. now rewrite (li_old _ _ _ _ HLI).
    - destruct (Nat.lt_ge_cases x (length (s_g s1))) as [L1x|L1x].
      + destruct (li_ident _ _ _ _ HLI x (conj Lo L1x)) as [a [Pa [Ta [Ca _]]]].
        destruct (T_facts s0 o J0 a Ta) as [La [Sa [_ [Ga _]]]].
        destruct (li_pred _ _ _ _ HLI x a (conj Lo L1x) Pa) as [_ Gp].
        apply (Or_copy x a); auto.
        * unfold G. now rewrite (pi_old _ _ _ _ PB).
        * now apply scope_visible.
        * unfold G. now rewrite (pi_old _ _ _ _ PB).
      + apply Or_fresh; [assumption|]. apply (pi_ident _ _ _ _ PB x). unfold G in Lx. lia.
  Qed.

  Theorem change_unique_view x y :
    x <> y -> covered (pg G) Hf x -> covered (pg G) Hf y -> ~ In x sh -> ~ In y sh ->
    c_change (getc G x) = c_change (getc G y) ->
    exists a b, a <> b /\ a < n0 /\ b < n0 /\ covered (pg G0) H0 a /\ covered (pg G0) H0 b /\
      pm_get pm0 a = None /\ pm_get pm0 b = None /\
      c_change (getc G0 a) = c_change (getc G x) /\ c_change (getc G0 b) = c_change (getc G x).
  Proof.
    intros Nxy Cx Cy Sx Sy E.
    assert (Fresh : forall u v, n0 <= u -> c_change (getc G u) = N.of_nat u -> Origin v -> u <> v ->
               c_change (getc G u) <> c_change (getc G v)).
    { intros u v Lu Cu Ov Nuv Eq. rewrite Cu in Eq. destruct Ov as [Lv _ _ _ Cv|a Lv _ La _ _ _ Cv|Lv Cv].
      - rewrite Cv in Eq. pose proof (Chg v Lv). lia.
      - rewrite Cv in Eq. pose proof (Chg a La). lia.
      - rewrite Cv in Eq. apply Nuv. now apply Nat2N.inj. }
    destruct (origin x Cx Sx) as [Lx Vx Px P1x Chx|a Lx Pa La Va Pa0 Pa1 Chx|Lx Chx];
    destruct (origin y Cy Sy) as [Ly Vy Py P1y Chy|b Ly Pb Lb Vb Pb0 Pb1 Chy|Ly Chy].
    - exists x, y. repeat split; auto; congruence.
    - exists x, b. repeat split; auto; try congruence; try (intros ->; congruence).
    - exfalso. apply (Fresh y x Ly Chy); [now apply origin|congruence|congruence].
    - exists a, y. repeat split; auto; try congruence; try (intros ->; congruence).
    - exists a, b. repeat split; auto; try congruence;
        try (intros ->; rewrite Pa1 in Pb1; injection Pb1 as Exy; congruence).
    - exfalso. apply (Fresh y x Ly Chy); [now apply origin|congruence|congruence].
    - exfalso. apply (Fresh x y Lx Chx); [now apply origin|congruence|congruence].
    - exfalso. apply (Fresh x y Lx Chx); [now apply origin|congruence|congruence].
    - exfalso. apply (Fresh x y Lx Chx); [now apply origin|congruence|congruence].
  Qed.
End Unique.

Theorem change_id_unique_model s0 o ord s' :
  J s0 ->
  (forall k r t, In (k, r) (s_pm s0) -> In t (new_parent_ids r) -> In t (scope s0 (o_imm o))) ->
  (forall name t, In (name, t) (v_bms (s_v s0)) -> Nat.odd (length t) = true) ->
  pm_get (s_pm s0) 0 = None ->
  (forall k, In k (pm_keys (s_pm s0)) -> covered (pg (s_g s0)) (v_heads (s_v s0)) k) ->
  (forall i, In i (o_imm o) -> covered (pg (s_g s0)) (v_heads (s_v s0)) i) ->
  v_heads (s_v s0) <> [] ->
  (forall i, i < length (s_g s0) -> (c_change (getc (s_g s0) i) <= N.of_nat i)%N) ->
  (forall order, ord (s_g s0) (s_pm s0) (find_descendants_for_rebase s0 (o_imm o)) = Ok order ->
     valid_from s0 o [] order /\ forall x, In x (find_descendants_for_rebase s0 (o_imm o)) -> In x order) ->
  rebase_descendants_with ord s0 o = Ok s' ->
  exists s1, rebase_loop_with ord s0 o = Ok s1 /\
    let sh := ancs (pg (s_g s')) (o_imm o ++ div_keys (s_pm s1)) in
    forall x y, x <> y ->
      covered (pg (s_g s')) (v_heads (s_v s')) x -> covered (pg (s_g s')) (v_heads (s_v s')) y ->
      ~ In x sh -> ~ In y sh ->
      c_change (getc (s_g s') x) = c_change (getc (s_g s') y) ->
      exists a b, a <> b /\ a < length (s_g s0) /\ b < length (s_g s0) /\
        covered (pg (s_g s0)) (v_heads (s_v s0)) a /\ covered (pg (s_g s0)) (v_heads (s_v s0)) b /\
        pm_get (s_pm s0) a = None /\ pm_get (s_pm s0) b = None /\
        c_change (getc (s_g s0) a) = c_change (getc (s_g s') x) /\
        c_change (getc (s_g s0) b) = c_change (getc (s_g s') x).
Proof.
  intros J0 Dom Odd Root VK VI HNE Chg Hord H.
  unfold rebase_descendants_with in H.
  destruct (rebase_loop_with ord s0 o) as [s1| | |] eqn:EL; cbn [bind] in H; try discriminate.
  exists s1. split; [reflexivity|].
  unfold rebase_loop_with in EL.
  destruct (ord (s_g s0) (s_pm s0) (find_descendants_for_rebase s0 (o_imm o))) as [order| | |] eqn:EO;
    cbn [bind] in EL; try discriminate.
  destruct (Hord order eq_refl) as [V Tall].
  destruct (loop_clean s0 o J0 Dom order s1 V Tall EL) as [HLI _].
  destruct (update_rewritten_references s1 (o_delete_abandoned o)) as [s2| | |] eqn:EU; cbn [bind] in H; try discriminate.
  apply Ok_inj in H. subst s'. cbn [set_pm s_g s_v].
  unfold update_rewritten_references in EU.
  destruct (resolve_rewrite_mapping (s_pm s1) (fun _ => true)) as [mapping| | |] eqn:EM; cbn [bind] in EU; try discriminate.
  destruct (update_local_bookmarks s1 mapping (o_delete_abandoned o)) as [sA| | |] eqn:EA; cbn [bind] in EU; try discriminate.
  destruct (update_wc_commits sA mapping) as [sB| | |] eqn:EB; cbn [bind] in EU; try discriminate.
  apply Ok_inj in EU. subst s2.
  assert (P1 : PI s0 o s1 s1) by (eapply PI_init; eassumption).
  assert (PA : PI s0 o s1 sA) by (eapply PI_update_local_bookmarks; eassumption).
  assert (PB : PI s0 o s1 sB) by (eapply PI_update_wc_commits; eassumption).
  rewrite update_heads_graph.
  intros x y. eapply change_unique_view; eassumption.
Qed.

Lemma uniq_dom_ok_spec s o : wf_dag (pg (s_g s)) -> uniq_dom_ok s o = true ->
  (forall k, In k (pm_keys (s_pm s)) -> covered (pg (s_g s)) (v_heads (s_v s)) k) /\
  (forall i, In i (o_imm o) -> covered (pg (s_g s)) (v_heads (s_v s)) i) /\
  v_heads (s_v s) <> [] /\
  (forall i, i < length (s_g s) -> (c_change (getc (s_g s) i) <= N.of_nat i)%N).
Proof.
  intros W H. unfold uniq_dom_ok in H. rewrite !andb_true_iff, !forallb_forall in H.
  destruct H as [[[H1 H2] H3] H4]. split; [|split; [|split]].
  - intros k Hk. apply covered_ancs; [assumption|]. apply memn_In. now apply H1.
  - intros i Hi. apply covered_ancs; [assumption|]. apply memn_In. now apply H2.
  - intros E. rewrite E in H3. discriminate.
  - intros i Hi. apply N.leb_le. apply H4. apply in_seq. lia.
Qed.
