(** The TreeMerger of lib/src/tree_merge.rs:196-329 as a worklist machine, for the statement
    that the merged trees do not depend on the order in which work items complete.
    Definitions only.

    State. The source keeps [trees_to_resolve : BTreeMap<dir, MergedTreeInput>] (per
    directory: resolved entries, pending names, conflicts) and the in-flight work items
    ReadTrees / WrittenTrees / MergedFiles keyed by path. Here the same information is one
    term: the position of a task in the term is its path.
    - [ERead ts]: a ReadTrees item in flight (it will run process_tree on [ts]);
    - [EDir kids]: a MergedTreeInput waiting for its pending names; [kids] lists, by name,
      what each entry of the directory currently is;
    - [EWritten trees]: a WrittenTrees item in flight;
    - [EFile vs]: a MergedFiles item in flight;
    - [EDone c]: the entry went through mark_completed: [c] is [[r]] (resolved entry) or the
      terms of a conflict.
    A step completes one in-flight item, chosen by its path (FuturesUnordered yields items in
    any order; the unstarted_work queue only restricts which items are in flight). *)
From Verif Require Import Base.Prelude Model.Merge Model.TreeMerge.

Inductive etask : Type :=
| ERead (ts : list tree)
| EDir (kids : list (N * etask))
| EWritten (trees : list tree)
| EFile (vs : list oval)
| EDone (c : list oval).

Definition is_done (e : etask) : bool := match e with EDone _ => true | _ => false end.
Definition done_value (e : etask) : list oval := match e with EDone c => c | _ => [] end.

Section Merger.
  Context (accept : bool) (content_merge : list N -> option N).

  (** mark_completed (tree_merge.rs:113-128, 317-328): resolve_trivial once more. *)
  Definition collapse (c : list oval) : list oval :=
    match tm accept c with Some r => [r] | None => c end.

  (** into_backend_trees of a directory all of whose entries are completed. *)
  Definition written_of (kids : list (N * etask)) : etask :=
    EWritten (assemble (map (fun k => (fst k, done_value (snd k))) kids)).
  (** mark_completed's last lines: when nothing is pending any more, schedule the write. *)
  Definition settle (kids : list (N * etask)) : etask :=
    if forallb (fun k => is_done (snd k)) kids then written_of kids else EDir kids.

  (** process_tree (tree_merge.rs:247-285). *)
  Definition process_tree (ts : list tree) : etask :=
    settle (map (fun n =>
                   let vs := map (lookup n) ts in
                   (n, match tm accept vs with
                       | Some r => EDone [r]
                       | None => if is_tree vs then ERead (map to_tree vs) else EFile vs
                       end))
                (names ts)).

  (** Completion of the in-flight item at path [pick] (relative to this task). A pick that
      does not name an in-flight item leaves the state unchanged. *)
  Fixpoint step (pick : list N) (e : etask) {struct pick} : etask :=
    match pick with
    | [] =>
        match e with
        | ERead ts => process_tree ts
        | EWritten trees => EDone (collapse (map of_tree trees))
        | EFile vs => EDone (collapse (resolve_file_values accept content_merge vs))
        | _ => e
        end
    | n :: rest =>
        match e with
        | EDir kids =>
            settle (map (fun k => if N.eqb (fst k) n then (fst k, step rest (snd k)) else k) kids)
        | _ => e
        end
    end.

  (** The root: WrittenTrees for the root directory ends the merge (tree_merge.rs:216-221). *)
  Definition root_step (e : etask) (pick : list N) : etask :=
    match e with
    | EWritten _ => e
    | _ => step pick e
    end.
  Definition run (ts : list tree) (schedule : list (list N)) : etask :=
    fold_left root_step schedule (ERead ts).
End Merger.
