(** C43 — per-repo configuration cannot be injected by a copied repository.
    Model of lib/src/secure_config.rs: SecureConfig::maybe_load_config / load_config,
    handle_metadata_path, generate_config, maybe_migrate_legacy_config over an abstract file
    system. Definitions only.
    The file system is reduced to what the code looks at: which paths are directories and
    which directory *object* they denote (a symlinked or bind-mounted alias denotes the same
    object; a copy is a new object), per repo directory whether files can be created in it,
    the content of its config-id file and of its legacy config file, and under the user's
    config root one directory per id with metadata.binpb and config.toml. The random id
    source is an oracle stream of [CONFIG_ID_BYTES]-byte arrays. The per-instance cache of
    SecureConfig is not modelled (every call is on a fresh instance). *)
From Verif Require Export Base.Prelude Base.C16Lib.
From Verif Require Import Gen.Tables.
Local Open Scope N_scope.

Definition path := list bytes.                         (* components *)
Definition path_eqb : path -> path -> bool := list_eqb bytes_eqb.
Definition obj := N.                                   (* identity of a directory *)

Inductive id_file := IdMissing | IdContent (s : bytes) | IdUnreadable.
Record repo := mk_repo {
  r_writable : bool;               (* NamedTempFile::new_in(repo_dir) succeeds *)
  r_id_file : id_file;             (* <repo>/config-id *)
  r_legacy : option bytes }.       (* <repo>/config.toml (legacy), content if present *)

Inductive md_state :=
| MdMissing                        (* no metadata.binpb (or no directory) *)
| MdCorrupt                        (* present but undecodable *)
| MdOk (p : option path).          (* ConfigMetadata { path } *)
Record cfgdir := mk_cfg { cd_md : md_state; cd_toml : option bytes }.

Record world := mk_world {
  w_dirs : list (path * obj);      (* paths that are directories, and what they denote *)
  w_repos : list (obj * repo);
  w_cfg : list (bytes * cfgdir) }. (* <root>/<name>/ *)

Fixpoint assoc {K V} (eqb : K -> K -> bool) (k : K) (l : list (K * V)) : option V :=
  match l with
  | [] => None
  | (k', v) :: t => if eqb k k' then Some v else assoc eqb k t
  end.
Fixpoint assoc_set {K V} (eqb : K -> K -> bool) (k : K) (v : V) (l : list (K * V)) : list (K * V) :=
  match l with
  | [] => [(k, v)]
  | (k', v') :: t => if eqb k k' then (k, v) :: t else (k', v') :: assoc_set eqb k v t
  end.

Definition dir_obj (w : world) (p : path) : option obj := assoc path_eqb p (w_dirs w).
Definition repo_at (w : world) (p : path) : option (obj * repo) :=
  match dir_obj w p with
  | Some o => match assoc N.eqb o (w_repos w) with
              | Some r => Some (o, r)
              | None => Some (o, mk_repo true IdMissing None)     (* a plain directory *)
              end
  | None => None
  end.
Definition cfg_at (w : world) (id : bytes) : cfgdir :=
  match assoc bytes_eqb id (w_cfg w) with
  | Some c => c
  | None => mk_cfg MdMissing None
  end.
Definition set_cfg (w : world) (id : bytes) (c : cfgdir) : world :=
  mk_world (w_dirs w) (w_repos w) (assoc_set bytes_eqb id c (w_cfg w)).
Definition set_repo (w : world) (o : obj) (r : repo) : world :=
  mk_world (w_dirs w) (assoc_set N.eqb o r (w_repos w)) (w_cfg w).

(** * Ids *)
Definition config_id_len : nat := N.to_nat (2 * C43_CONFIG_ID_BYTES).
Definition is_hexdigit (b : N) : bool :=
  ((48 <=? b) && (b <=? 57)) || ((97 <=? b) && (b <=? 102)) || ((65 <=? b) && (b <=? 70)).
(** config_id.len() == CONFIG_ID_BYTES * 2 && all is_ascii_hexdigit (secure_config.rs:371) *)
Definition id_okb (s : bytes) : bool :=
  Nat.eqb (length s) config_id_len && forallb is_hexdigit s.

Definition hex_digit (d : N) : N := if d <? 10 then 48 + d else 87 + d.
Fixpoint encode_hex (l : bytes) : bytes :=
  match l with
  | [] => []
  | b :: t => hex_digit (b / 16) :: hex_digit (b mod 16) :: encode_hex t
  end.
(** generate_config_id: hex of the next CONFIG_ID_BYTES random bytes. *)
Definition rng := list bytes.
Definition next_id (g : rng) : bytes * rng :=
  match g with
  | [] => (encode_hex (repeat 0 (N.to_nat C43_CONFIG_ID_BYTES)), [])
  | b :: g' => (encode_hex b, g')
  end.

Definition config_file_name : bytes := C43_CONFIG_FILE.
Definition cfg_path (root : path) (id : bytes) : path := root ++ [id; config_file_name].

(** * Outcomes *)
Inductive lerr := EBadConfigId | EPath | EDecode.
Inductive warn := WNone | WNotFound | WCopied | WMigrated.
Record loaded := mk_loaded {
  l_file : option path;
  l_md : option path;              (* metadata.path *)
  l_warn : warn }.
Inductive lres := LOk (l : loaded) | LErr (e : lerr).

(** * generate_config (:175-197): create the directory, write metadata, write the config if
    any, then write the id file atomically into the repo — which fails if the repo directory
    cannot be written; the earlier effects stay. *)
Definition generate_config (w : world) (root : path) (o : option (obj * repo)) (id : bytes)
  (content : option bytes) (md : option path) : option path * world :=
  let old := cfg_at w id in
  let w1 := set_cfg w id (mk_cfg (MdOk md)
                                 (match content with Some c => Some c | None => cd_toml old end)) in
  match o with
  | Some (ob, r) =>
      if r_writable r
      then (Some (cfg_path root id),
            set_repo w1 ob (mk_repo (r_writable r) (IdContent id) (r_legacy r)))
      else (None, w1)
  | None => (None, w1)
  end.

(** * handle_metadata_path (:214-283) *)
Definition handle_metadata_path (w : world) (g : rng) (root repo_path : path)
  (o : obj * repo) (id : bytes) (md : option path) : lres * world * rng :=
  let keep w' mdp := (LOk (mk_loaded (Some (cfg_path root id)) mdp WNone), w', g) in
  if option_eqb path_eqb md (Some repo_path) then keep w md
  else
    let moved :=
      (* the old repo does not exist: assume it was moved; rewrite the metadata *)
      keep (set_cfg w id (mk_cfg (MdOk (Some repo_path)) (cd_toml (cfg_at w id)))) (Some repo_path) in
    match md with
    | None => moved
    | Some d =>
        match dir_obj w d with
        | None => moved
        | Some od =>
            (* the temp-file probe: created in the new repo, looked up in the old one *)
            if r_writable (snd o) && negb (od =? fst o)
            then
              let '(newid, g') := next_id g in
              match generate_config w root (Some o) newid (cd_toml (cfg_at w id)) (Some repo_path) with
              | (Some p, w') => (LOk (mk_loaded (Some p) (Some repo_path) WCopied), w', g')
              | (None, w') => (LErr EPath, w', g')
              end
            else keep w md
        end
    end.

(** * maybe_migrate_legacy_config (:325-355) *)
Definition maybe_migrate_legacy (w : world) (g : rng) (root repo_path : path)
  (o : option (obj * repo)) : lres * world * rng :=
  match o with
  | None => (LOk (mk_loaded None None WNone), w, g)
  | Some (ob, r) =>
      match r_legacy r with
      | None => (LOk (mk_loaded None None WNone), w, g)
      | Some content =>
          let '(newid, g') := next_id g in
          match generate_config w root o newid (Some content) (Some repo_path) with
          | (Some p, w') => (LOk (mk_loaded (Some p) (Some repo_path) WMigrated), w', g')
          | (None, w') => (LErr EPath, w', g')
          end
      end
  end.

(** * maybe_load_config (:359-404) *)
Definition maybe_load_config (w : world) (g : rng) (root repo_path : path)
  : lres * world * rng :=
  let o := repo_at w repo_path in
  match match o with Some (_, r) => r_id_file r | None => IdMissing end with
  | IdUnreadable => (LErr EPath, w, g)
  | IdMissing => maybe_migrate_legacy w g root repo_path o
  | IdContent s =>
      if negb (id_okb s) then (LErr EBadConfigId, w, g)
      else
        match cd_md (cfg_at w s) with
        | MdOk md =>
            match o with
            | Some ob => handle_metadata_path w g root repo_path ob s md
            | None => (LErr EPath, w, g)
            end
        | MdMissing =>
            (* generate_initial_config with the id found in the repo *)
            match generate_config w root o s None (Some repo_path) with
            | (Some p, w') => (LOk (mk_loaded (Some p) (Some repo_path) WNotFound), w', g)
            | (None, w') => (LErr EPath, w', g)
            end
        | MdCorrupt => (LErr EDecode, w, g)
        end
  end.

(** * load_config (:408-421): generate an empty config if there is none. *)
Definition load_config (w : world) (g : rng) (root repo_path : path) : lres * world * rng :=
  match maybe_load_config w g root repo_path with
  | (LOk l, w1, g1) =>
      match l_file l with
      | Some _ => (LOk l, w1, g1)
      | None =>
          let '(newid, g2) := next_id g1 in
          match generate_config w1 root (repo_at w1 repo_path) newid None (Some repo_path) with
          | (Some p, w2) => (LOk (mk_loaded (Some p) (Some repo_path) (l_warn l)), w2, g2)
          | (None, w2) => (LErr EPath, w2, g2)
          end
      end
  | r => r
  end.

(** * What "inside the per-repo config directory" means for the chosen component *)
Definition component_okb (s : bytes) : bool :=
  negb (match s with [] => true | _ => false end) && negb (existsb (N.eqb 47) s) && negb (existsb (N.eqb 0) s)
  && negb (bytes_eqb s [46]) && negb (bytes_eqb s [46; 46]).
Definition rng_okb (g : rng) : bool :=
  forallb (fun b => Nat.eqb (length b) (N.to_nat C43_CONFIG_ID_BYTES) && forallb byteb b) g.

(** * Definitions used in the statements of Props/C43.v *)
(** The returned file, if any, is <root>/<id>/config.toml for a well-formed id. *)
Definition confined (root : path) (r : lres) : Prop :=
  match r with
  | LOk l => match l_file l with
             | None => True
             | Some p => exists id, p = cfg_path root id /\ id_okb id = true
             end
  | LErr _ => True
  end.

(** * Correspondence cases: a history of file-system operations and loads *)
Inductive op :=
| OMkRepo (p : path)                               (* create an empty directory *)
| OWriteId (p : path) (c : id_file)                (* write / remove / garble <p>/config-id *)
| OWriteLegacy (p : path) (c : option bytes)       (* write / remove the legacy config file *)
| OCopy (p q : path)                               (* new directory q with copies of p's files *)
| OMove (p q : path)                               (* rename p to q *)
| ODelete (p : path)                               (* remove p recursively *)
| OAlias (p q : path)                              (* symlink q -> p *)
| OSetMd (id : bytes) (m : md_state)               (* overwrite / remove <root>/<id>/metadata.binpb *)
| OSetToml (id : bytes) (c : option bytes)         (* the user edits / removes config.toml *)
| OLoad (generate : bool) (p : path)               (* load_config / maybe_load_config on a fresh SecureConfig *)
        (fresh : list bytes)                       (* the random arrays the implementation drew *)
        (seen : id_file)                           (* what the harness read from <p>/config-id before *)
        (result : lres)                            (* what the implementation returned *)
        (unexpected : list path)                   (* everything the call created, changed or removed
                                                      other than <root>/<well-formed id>[/metadata.binpb
                                                      |/config.toml] and <p>/config-id, <p>/config.toml
                                                      (observed by diffing the whole case directory,
                                                      sentinel directory next to the root included) *)
| OUnexpected.                                     (* the harness itself hit an impossible state *)

Record case := mk_case {
  k_root : path;
  k_ops : list op;
  k_final_repos : list (path * id_file);           (* observed at the end: live repo dirs *)
  k_final_cfg : list (bytes * cfgdir) }.           (* observed at the end: <root>/*, any order *)

Definition remove_key {K V} (eqb : K -> K -> bool) (k : K) (l : list (K * V)) : list (K * V) :=
  filter (fun kv => negb (eqb k (fst kv))) l.

Definition fresh_obj (w : world) : obj :=
  1 + fold_left N.max (map snd (w_dirs w) ++ map fst (w_repos w)) 0.

Definition apply_fs_op (w : world) (o : op) : world :=
  match o with
  | OMkRepo p =>
      mk_world (assoc_set path_eqb p (fresh_obj w) (w_dirs w)) (w_repos w) (w_cfg w)
  | OWriteId p c =>
      match repo_at w p with
      | Some (ob, r) => set_repo w ob (mk_repo (r_writable r) c (r_legacy r))
      | None => w
      end
  | OWriteLegacy p c =>
      match repo_at w p with
      | Some (ob, r) => set_repo w ob (mk_repo (r_writable r) (r_id_file r) c)
      | None => w
      end
  | OCopy p q =>
      match repo_at w p with
      | Some (_, r) =>
          let n := fresh_obj w in
          mk_world (assoc_set path_eqb q n (w_dirs w)) (assoc_set N.eqb n r (w_repos w)) (w_cfg w)
      | None => w
      end
  | OMove p q =>
      match dir_obj w p with
      | Some ob => mk_world (assoc_set path_eqb q ob (remove_key path_eqb p (w_dirs w)))
                            (w_repos w) (w_cfg w)
      | None => w
      end
  | ODelete p => mk_world (remove_key path_eqb p (w_dirs w)) (w_repos w) (w_cfg w)
  | OAlias p q =>
      match dir_obj w p with
      | Some ob => mk_world (assoc_set path_eqb q ob (w_dirs w)) (w_repos w) (w_cfg w)
      | None => w
      end
  | OSetMd id m => set_cfg w id (mk_cfg m (cd_toml (cfg_at w id)))
  | OSetToml id c => set_cfg w id (mk_cfg (cd_md (cfg_at w id)) c)
  | OLoad _ _ _ _ _ _ => w
  | OUnexpected => w
  end.

Definition id_file_eqb (a b : id_file) : bool :=
  match a, b with
  | IdMissing, IdMissing | IdUnreadable, IdUnreadable => true
  | IdContent x, IdContent y => bytes_eqb x y
  | _, _ => false
  end.
Definition opath_eqb : option path -> option path -> bool := option_eqb path_eqb.
Definition md_eqb (a b : md_state) : bool :=
  match a, b with
  | MdMissing, MdMissing | MdCorrupt, MdCorrupt => true
  | MdOk x, MdOk y => opath_eqb x y
  | _, _ => false
  end.
Definition cfgdir_eqb (a b : cfgdir) : bool :=
  md_eqb (cd_md a) (cd_md b) && option_eqb bytes_eqb (cd_toml a) (cd_toml b).
Definition warn_eqb (a b : warn) : bool :=
  match a, b with
  | WNone, WNone | WNotFound, WNotFound | WCopied, WCopied | WMigrated, WMigrated => true
  | _, _ => false
  end.
Definition lerr_eqb (a b : lerr) : bool :=
  match a, b with
  | EBadConfigId, EBadConfigId | EPath, EPath | EDecode, EDecode => true
  | _, _ => false
  end.
Definition lres_eqb (a b : lres) : bool :=
  match a, b with
  | LOk x, LOk y => opath_eqb (l_file x) (l_file y) && opath_eqb (l_md x) (l_md y)
                    && warn_eqb (l_warn x) (l_warn y)
  | LErr x, LErr y => lerr_eqb x y
  | _, _ => false
  end.

(** Run the history through the model; every load must return what the implementation
    returned and must have seen the same id file. *)
Fixpoint run (root : path) (w : world) (ops : list op) : bool * world :=
  match ops with
  | [] => (true, w)
  | OLoad gen p fresh seen result _ :: rest =>
      let '(r, w', _) := (if gen then load_config else maybe_load_config) w fresh root p in
      let seen_m := match repo_at w p with Some (_, rp) => r_id_file rp | None => IdMissing end in
      let '(ok, wf) := run root w' rest in
      (lres_eqb r result && id_file_eqb seen_m seen && ok, wf)
  | o :: rest => run root (apply_fs_op w o) rest
  end.

Definition final_agrees (c : case) (w : world) : bool :=
  forallb (fun pr => match repo_at w (fst pr) with
                     | Some (_, r) => id_file_eqb (r_id_file r) (snd pr)
                     | None => false
                     end) (k_final_repos c)
  && forallb (fun ic => cfgdir_eqb (cfg_at w (fst ic)) (snd ic)) (k_final_cfg c)
  && forallb (fun ic => existsb (fun jc => bytes_eqb (fst ic) (fst jc)) (k_final_cfg c)
                        || cfgdir_eqb (snd ic) (mk_cfg MdMissing None)) (w_cfg w).

(** The property on the implementation's own outputs: every returned file is
    <root>/<one normal component>/config.toml, a malformed id file is rejected, and nothing
    outside the allowed files was created, changed or removed. *)
Definition load_okb (root : path) (o : op) : bool :=
  match o with
  | OUnexpected => false
  | OLoad _ _ _ seen result unexpected =>
      match unexpected with [] => true | _ => false end &&
      match result with
      | LOk l =>
          match l_file l with
          | Some f =>
              match rev f with
              | name :: id :: rroot =>
                  bytes_eqb name config_file_name && path_eqb (rev rroot) root && component_okb id
              | _ => false
              end
          | None => true
          end
          && match seen with IdContent s => id_okb s | _ => true end
      | LErr e =>
          match seen with
          | IdContent s => id_okb s || lerr_eqb e EBadConfigId
          | _ => true
          end
      end
  | _ => true
  end.
Definition okb (c : case) : bool := forallb (load_okb (k_root c)) (k_ops c).

Definition check_case (c : case) : N :=
  let '(ok, w) := run (k_root c) (mk_world [] [] []) (k_ops c) in
  verdict (ok && final_agrees c w) (okb c) false (if ok then 2 else 1).

(** What [okb] means. *)
Definition load_ok (root : path) (o : op) : Prop :=
  match o with
  | OUnexpected => False
  | OLoad _ _ _ seen result unexpected =>
      unexpected = [] /\
      match result with
      | LOk l =>
          (forall f, l_file l = Some f ->
                     exists id, f = cfg_path root id /\ component_okb id = true)
          /\ (forall s, seen = IdContent s -> id_okb s = true)
      | LErr e => forall s, seen = IdContent s -> id_okb s = false -> e = EBadConfigId
      end
  | _ => True
  end.

(** What a call may change: only configuration directories named by well-formed ids, and
    only the repo directory object the call was made on; never which paths are directories. *)
Definition frame (w w' : world) (p : path) : Prop :=
  w_dirs w' = w_dirs w
  /\ (forall id, id_okb id = false -> cfg_at w' id = cfg_at w id)
  /\ (forall q oq, dir_obj w q = Some oq -> dir_obj w p <> Some oq -> repo_at w' q = repo_at w q).
