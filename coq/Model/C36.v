(** C36 - expression parsers never crash (P-part): the alias expansion all three languages
    share, lib/src/dsl_util.rs:
      AliasesMap::get_symbol / get_pattern / get_function(_overloads) / find_by_arity  (641-715)
      AliasId and its equality                                                         (718-728)
      AliasExpander::expand_defn (the [states] stack recursion check)                  (826-848)
      fold_identifier / fold_pattern / fold_function_call                              (851-928)
      expand_aliases / expand_aliases_with_locals                                      (931-965)
    over a generic expression tree that abstracts the three ASTs
    (lib/src/revset_parser.rs:318-378, lib/src/fileset_parser.rs:214-259,
    cli/src/template_parser.rs:290-357: every node kind either is an identifier, a pattern, a
    function call, an already expanded alias, or folds its children left to right).
    Names are numbers (interned by the harness).  An alias definition is the parsed body, or
    [None] when the definition text does not parse (dsl_util re-parses the text on every
    expansion; parsing is deterministic).  Definitions only. *)
From Verif Require Import Base.Prelude.
Local Open Scope N_scope.

(** AliasId (dsl_util.rs:718-728); derived equality compares names and parameter lists. *)
Inductive aid :=
| ASymbol (n : N)
| APattern (n p : N)
| AFunction (n : N) (ps : list N)
| AParam (n : N).

Definition aid_eqb (a b : aid) : bool :=
  match a, b with
  | ASymbol x, ASymbol y => x =? y
  | APattern x p, APattern y q => (x =? y) && (p =? q)
  | AFunction x ps, AFunction y qs => (x =? y) && list_eqb N.eqb ps qs
  | AParam x, AParam y => x =? y
  | _, _ => false
  end.

Inductive expr :=
| EIdent (n : N)                                   (* Identifier(name) *)
| ELeaf                                            (* String, Integer, Boolean, RemoteSymbol, @, .. *)
| EOp (args : list expr)                           (* Unary, Binary, UnionAll, Concat, MethodCall, Lambda *)
| EPattern (n : N) (v : expr)                      (* Pattern(name, value) *)
| ECall (n : N) (args : list expr) (kw : list (N * expr))   (* FunctionCall *)
| EExpanded (id : aid) (e : expr).                 (* AliasExpanded(id, subst) *)

Definition defn := option expr.
Definition locals := list (N * expr).

(** AliasesMap (dsl_util.rs:568-578).  Function overloads are kept sorted by arity with at most
    one entry per arity (insert, 593-616); the harness passes them in that order. *)
Record aliases := mk_aliases {
  am_symbols : list (N * defn);
  am_patterns : list (N * (N * defn));
  am_functions : list (N * list (list N * defn));
}.

Fixpoint assoc {B} (n : N) (l : list (N * B)) : option B :=
  match l with
  | [] => None
  | (k, v) :: r => if k =? n then Some v else assoc n r
  end.

(** HashMap built by [zip(params, args).collect()]: a later duplicate key overwrites. *)
Definition lookup_local (n : N) (l : locals) : option expr := assoc n (rev l).

Fixpoint find_by_arity (ovs : list (list N * defn)) (k : nat) : option (list N * defn) :=
  match ovs with
  | [] => None
  | (ps, d) :: r => if Nat.eqb (length ps) k then Some (ps, d) else find_by_arity r k
  end.

Inductive err :=
| ErrRecursive (id : aid)      (* E::recursive_expansion *)
| ErrArgs                      (* E::invalid_arguments: arity mismatch or keyword arguments *)
| ErrSyntax.                   (* parse_definition failed *)

Inductive res (A : Type) :=
| Ok (a : A)
| Err (e : err)
| OutOfFuel.
Arguments Ok {A}. Arguments Err {A}. Arguments OutOfFuel {A}.

Definition bind {A B} (r : res A) (f : A -> res B) : res B :=
  match r with
  | Ok a => f a
  | Err e => Err e
  | OutOfFuel => OutOfFuel
  end.

(** [nodes.into_iter().map(fold).try_collect()]: left to right, stops at the first error. *)
Fixpoint map_res {A B} (f : A -> res B) (l : list A) : res (list B) :=
  match l with
  | [] => Ok []
  | x :: r => bind (f x) (fun y => bind (map_res f r) (fun ys => Ok (y :: ys)))
  end.

Definition stack := list (aid * locals).

(** current_locals (821-824): the innermost state's locals, or the outermost ones. *)
Definition current_locals (outer : locals) (st : stack) : locals :=
  match st with
  | [] => outer
  | (_, l) :: _ => l
  end.

Section Expand.
  Context (am : aliases) (outer : locals).

  (** expand_defn (826-848) given the folder for the body ([rec], run with the new state pushed). *)
  Definition expand_defn (rec : stack -> expr -> res expr) (st : stack)
             (id : aid) (d : defn) (l : locals) : res expr :=
    if existsb (fun s => aid_eqb (fst s) id) st then Err (ErrRecursive id)
    else
      match d with
      | None => Err ErrSyntax
      | Some body => bind (rec ((id, l) :: st) body) (fun b => Ok (EExpanded id b))
      end.

  (** fold_expression with the AliasExpander folder, one level ([rec] folds sub-expressions and
      alias bodies); [st] has the innermost state first. *)
  Definition expand_step (rec : stack -> expr -> res expr) (st : stack) (e : expr) : res expr :=
    match e with
    | EIdent n =>
      match lookup_local n (current_locals outer st) with
      | Some subst => Ok (EExpanded (AParam n) subst)
      | None =>
        match assoc n (am_symbols am) with
        | Some d => expand_defn rec st (ASymbol n) d []
        | None => Ok (EIdent n)
        end
      end
    | ELeaf => Ok ELeaf
    | EOp args => bind (map_res (rec st) args) (fun a => Ok (EOp a))
    | EPattern n v =>
      match assoc n (am_patterns am) with
      | Some (p, d) =>
        bind (rec st v) (fun arg => expand_defn rec st (APattern n p) d [(p, arg)])
      | None => bind (rec st v) (fun v' => Ok (EPattern n v'))
      end
    | ECall n args kw =>
      match assoc n (am_functions am) with
      | Some ovs =>
        match kw with
        | _ :: _ => Err ErrArgs
        | [] =>
          match find_by_arity ovs (length args) with
          | None => Err ErrArgs
          | Some (ps, d) =>
            bind (map_res (rec st) args)
                 (fun a => expand_defn rec st (AFunction n ps) d (combine ps a))
          end
        end
      | None =>
        bind (map_res (rec st) args) (fun a =>
        bind (map_res (fun p => bind (rec st (snd p)) (fun v => Ok (fst p, v))) kw) (fun k =>
        Ok (ECall n a k)))
      end
    | EExpanded id b => bind (rec st b) (fun b' => Ok (EExpanded id b'))
    end.

  (** The recursion of the Rust folder, with explicit fuel. *)
  Fixpoint expand (fuel : nat) : stack -> expr -> res expr :=
    match fuel with
    | O => fun _ _ => OutOfFuel
    | S f => expand_step (expand f)
    end.
End Expand.

(* ------------------------------------------------------------------ the fuel bound *)

Fixpoint list_max (l : list nat) : nat :=
  match l with [] => O | x :: r => Nat.max x (list_max r) end.

Fixpoint depth (e : expr) : nat :=
  match e with
  | EIdent _ | ELeaf => 1
  | EOp args => S (list_max (map depth args))
  | EPattern _ v => S (depth v)
  | ECall _ args kw => S (Nat.max (list_max (map depth args))
                                  (list_max (map (fun p => depth (snd p)) kw)))
  | EExpanded _ b => S (depth b)
  end.

Definition defn_depth (d : defn) : nat := match d with Some b => depth b | None => O end.

(** All alias ids of a map, and the deepest definition body. *)
Definition all_ids (am : aliases) : list aid :=
  map (fun p => ASymbol (fst p)) (am_symbols am)
  ++ map (fun p => APattern (fst p) (fst (snd p))) (am_patterns am)
  ++ flat_map (fun p => map (fun o => AFunction (fst p) (fst o)) (snd p)) (am_functions am).

Definition max_defn_depth (am : aliases) : nat :=
  list_max (map (fun p => defn_depth (snd p)) (am_symbols am)
            ++ map (fun p => defn_depth (snd (snd p))) (am_patterns am)
            ++ flat_map (fun p => map (fun o => defn_depth (snd o)) (snd p)) (am_functions am)).

(** Enough fuel for every map and expression: one body per alias id at most is open at a time,
    each at most [max_defn_depth] deep. *)
Definition fuel_bound (am : aliases) (e : expr) : nat :=
  (depth e + length (all_ids am) * S (max_defn_depth am))%nat.

Definition expand_aliases (am : aliases) (outer : locals) (e : expr) : res expr :=
  expand am outer (fuel_bound am e) [] e.

(** No alias reference is left: what 'expanded' means. *)
Fixpoint expanded_b (am : aliases) (e : expr) : bool :=
  match e with
  | EIdent n => match assoc n (am_symbols am) with Some _ => false | None => true end
  | ELeaf => true
  | EOp args => forallb (expanded_b am) args
  | EPattern n v => match assoc n (am_patterns am) with Some _ => false | None => expanded_b am v end
  | ECall n args kw =>
    match assoc n (am_functions am) with
    | Some _ => false
    | None => forallb (expanded_b am) args && forallb (fun p => expanded_b am (snd p)) kw
    end
  | EExpanded _ b => expanded_b am b
  end.

(* ------------------------------------------------------------------ correspondence cases *)

Fixpoint expr_eqb (a b : expr) {struct a} : bool :=
  let fix leq (xs ys : list expr) {struct xs} : bool :=
    match xs, ys with
    | [], [] => true
    | x :: xr, y :: yr => expr_eqb x y && leq xr yr
    | _, _ => false
    end in
  let fix keq (xs ys : list (N * expr)) {struct xs} : bool :=
    match xs, ys with
    | [], [] => true
    | (n, x) :: xr, (m, y) :: yr => (n =? m) && expr_eqb x y && keq xr yr
    | _, _ => false
    end in
  match a, b with
  | EIdent x, EIdent y => x =? y
  | ELeaf, ELeaf => true
  | EOp xs, EOp ys => leq xs ys
  | EPattern x v, EPattern y w => (x =? y) && expr_eqb v w
  | ECall x xs xk, ECall y ys yk => (x =? y) && leq xs ys && keq xk yk
  | EExpanded i v, EExpanded j w => aid_eqb i j && expr_eqb v w
  | _, _ => false
  end.

(** What the real expand_aliases returned. *)
Inductive ires :=
| IOk (e : expr)
| IRecursive (id : aid)     (* innermost error kind RecursiveAlias(id) *)
| IArgs                     (* innermost error kind InvalidArguments / InvalidFunctionArguments *)
| ISyntax                   (* innermost error kind SyntaxError (a definition did not parse) *)
| IOtherErr                 (* any other error kind *)
| IPanic.

Inductive case :=
(** language (0 revset, 1 fileset, 2 template), alias map, outermost locals, parsed input,
    result of the real expand_aliases(_with_locals). *)
| CAlias (lang : N) (am : aliases) (outer : locals) (e : expr) (r : ires)
(** fuzzing record for a batch of 16 inputs: language, total input length, worst outcome of the
    batch: 0 = no failure and at least one input accepted, 1 = all rejected with an error,
    2 = panic, 3 = crash (stack overflow / abort of the child process), 4 = watchdog timeout. *)
| CFuzz (lang len outcome : N)
(** deep-nesting record: language, the input as (repeated prefix, core, repeated suffix, depth),
    outcome 0 = Ok, 1 = Err, 2 = panic, 3 = other crash of the child process, 4 = watchdog
    timeout, 5 = stack overflow (Rust's handler printed 'has overflowed its stack' and the
    child was killed by SIGABRT / SIGSEGV). *)
| CDeep (lang : N) (pre core suf : list N) (depth : N) (outcome : N).

(** The text of a deep-nesting case: pre^depth ++ core ++ suf^depth. *)
Definition deep_text (pre core suf : list N) (depth : N) : list N :=
  N.iter depth (fun t => pre ++ t) (core ++ N.iter depth (fun t => suf ++ t) []).

(** Nesting measure of a byte string: the maximal depth of open parentheses plus the number of
    prefix / postfix / pattern operator characters [~ ! - + :].  For the forms the harness uses
    (parenthesis, call and method-call towers, operator chains, pattern chains) this is the depth
    of the syntax tree the parser has to build (twice the tower height for the '-(' form). *)
Definition is_nest_op (c : N) : bool :=
  (c =? 126) || (c =? 33) || (c =? 45) || (c =? 43) || (c =? 58).
Fixpoint nest_scan (l : list N) (cur best ops : N) : N :=
  match l with
  | [] => best + ops
  | c :: r =>
    if c =? 40 then nest_scan r (cur + 1) (N.max best (cur + 1)) ops
    else if c =? 41 then nest_scan r (cur - 1) best ops
    else if is_nest_op c then nest_scan r cur best (ops + 1)
    else nest_scan r cur best ops
  end.
Definition nest_depth (l : list N) : N := nest_scan l 0 0 0.

(** Known finding deep-nesting-stack-overflow: the parsers have no nesting limit.  Inputs nested
    at least [DEEP] levels may overflow the 8 MiB stack; below that they must be parsed. *)
Definition DEEP : N := 500.

Definition res_agrees (m : res expr) (r : ires) : bool :=
  match m, r with
  | Ok a, IOk b => expr_eqb a b
  | Err (ErrRecursive i), IRecursive j => aid_eqb i j
  | Err ErrArgs, IArgs => true
  | Err ErrSyntax, ISyntax => true
  | _, _ => false
  end.

Definition corr (c : case) : bool :=
  match c with
  | CAlias _ am outer e r => res_agrees (expand_aliases am outer e) r
  | CFuzz _ _ _ => true
  | CDeep _ _ _ _ _ _ => true
  end.

(** The property on the implementation's output alone: no panic, no crash; an Ok result of
    alias expansion contains no alias reference any more (given expanded outer locals). *)
Definition okb (c : case) : bool :=
  match c with
  | CAlias _ am outer _ r =>
    match r with
    | IPanic => false
    | IOk e' => negb (forallb (fun p => expanded_b am (snd p)) outer) || expanded_b am e'
    | _ => true
    end
  | CFuzz _ _ o => (o =? 0) || (o =? 1) || (o =? 4)
  | CDeep _ _ _ _ _ o => (o =? 0) || (o =? 1)
  end.

(** Only a stack overflow on an input nested at least DEEP levels is demoted to the known
    finding; a panic, another crash, a timeout, or an overflow on a shallower input is not. *)
Definition knownb (c : case) : bool :=
  match c with
  | CDeep _ pre core suf depth o =>
    (o =? 5) && (DEEP <=? nest_depth (deep_text pre core suf depth))
  | _ => false
  end.

Definition check_case (c : case) : N :=
  verdict (corr c) (okb c) (knownb c)
          (match c with CAlias _ _ _ _ _ => 1 | CFuzz _ _ _ => 2 | CDeep _ _ _ _ _ _ => 3 end).
