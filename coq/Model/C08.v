(** C08 correspondence case: a small commit graph with real trees, one commit rebased onto new
    parents with rewrite::rebase_commit (and back again), the intermediate results of
    find_recursive_merge_commits / merge_commit_trees, and the property checker. *)
From Verif Require Import Base.Prelude Model.Merge.
From Verif Require Export Model.TreeMerge Model.TreeCase Model.Rebase.

Record case := mk_case {
  c_accept : bool;
  c_tab : list ctree;
  c_commits : list (list N * list N);   (* by index position: (parent positions, tree numbers); 0 = root commit *)
  c_target : N;                         (* the commit that is rebased *)
  c_new_parents : list N;
  c_oracle : list (list N * option N);
  c_frmc_old : option (list N);         (* impl: find_recursive_merge_commits(old parents), as positions *)
  c_frmc_new : option (list N);
  c_old_base : option (list N);         (* impl: merge_commit_trees(old parents).tree_ids *)
  c_new_base : option (list N);
  c_unresolved : list N;                (* impl: merge_no_resolve [new_base; old_base; old_tree] *)
  c_rebased : option (list N);          (* impl: rebase_commit(target, new parents).tree_ids *)
  c_values : list (list N * list (option cval)); (* impl: path_value of the rebased tree *)
  c_back : option (list N);             (* impl: the rebased commit rebased onto the old parents again *)
}.

Definition nats (l : list N) : list nat := map N.to_nat l.
Definition parents_of (c : case) : list (list nat) := map (fun e => nats (fst e)) (c_commits c).
Definition tree_of (c : case) (i : nat) : list tree :=
  map (dec (c_tab c)) (snd (nth i (c_commits c) ([], []))).
Definition old_parents (c : case) : list nat := nth (N.to_nat (c_target c)) (parents_of c) [].
Definition dec_values (c : case) : list (list N * list oval) :=
  map (fun pv => (fst pv, map (dec_oval (c_tab c)) (snd pv))) (c_values c).
Definition same_parent_trees (c : case) : bool :=
  list_eqb (list_eqb tree_eqb) (map (tree_of c) (nats (c_new_parents c))) (map (tree_of c) (old_parents c)).

Section Checker.
  Context (accept : bool).

  Definition vals (p : list N) (ts : list tree) : list oval := map (value_at p) ts.

  (** C08_unchanged_paths and C08_agreeing_parents at one path. *)
  Definition law_ok (ts0 nb ob ot : list tree) (p : list N) (vs : list oval) : bool :=
    if clash_above accept ts0 p then true
    else
      (match tm accept (vals p nb) with
       | Some v => negb (den_eqb oval_eqb (vals p ot) (vals p ob)) || ovals_eqb vs [v]
       | None => true
       end)
      && (match tm accept (vals p ot) with
          | Some v => negb (den_eqb oval_eqb (vals p ob) (vals p nb)) || ovals_eqb vs [v]
          | None => true
          end).
  Definition laws_ok (ts0 nb ob ot : list tree) (values : list (list N * list oval)) : bool :=
    forallb (fun pv => match fst pv with [] => true | _ => law_ok ts0 nb ob ot (fst pv) (snd pv) end) values.

  (** Side condition of the there-and-back law for three resolved trees (Model/Rebase.v):
      well-formed trees whose changes touch disjoint entries. *)
  Definition back_applies (b b' t : tree) : bool :=
    wfb 64 b && wfb 64 t && disjb accept 64 b' b t.
End Checker.

(** The recursion that the doc comment of find_recursive_merge_commits (rewrite.rs:130-139)
    gives as its definition, with Index::common_ancestors read as the greatest common
    ancestors of the commit graph: for parent [pos] the merge base comes from ALL parents
    merged so far. *)
Definition merge_commits_spec (c : case) (ids : list nat) : option (list nat) :=
  find_recursive_merge_commits (graph_common_ancestors (parents_of c)) 0%nat
                               (S (length (c_commits c))) ids.
Definition opt_nats_eqb (a : option (list nat)) (b : option (list N)) : bool :=
  match a, b with
  | Some x, Some y => list_eqb Nat.eqb x (nats y)
  | _, _ => false
  end.
Definition merge_commits_ok (c : case) : bool :=
  opt_nats_eqb (merge_commits_spec c (old_parents c)) (c_frmc_old c)
  && opt_nats_eqb (merge_commits_spec c (nats (c_new_parents c))) (c_frmc_new c).

Definition okb (c : case) : bool :=
  merge_commits_ok c &&
  match c_old_base c, c_new_base c, c_rebased c, c_back c with
  | Some ob, Some nb, Some r, Some back =>
      let tab := c_tab c in
      let ot := tree_of c (N.to_nat (c_target c)) in
      let nbt := map (dec tab) nb in
      let obt := map (dec tab) ob in
      let rt := map (dec tab) r in
      if same_parent_trees c then trees_eqb rt ot && trees_eqb (map (dec tab) back) ot
      else
        laws_ok (c_accept c) (map (dec tab) (c_unresolved c)) nbt obt ot (dec_values c)
        && match nbt, obt, ot with
           | [b'], [b], [t] =>
               negb (back_applies (c_accept c) b b' t) || trees_eqb (map (dec tab) back) [t]
           | _, _, _ => true
           end
  | _, _, _, _ => false
  end.

(** The case lies in the domain of the theorems: parents have smaller positions (so
    graph_common_ancestors is the greatest-common-ancestor query and the merge-base recursion
    terminates), commit 0 is the root, target and parents are commits of the table. *)
Definition in_domain (c : case) : bool :=
  wf_parentsb (parents_of c)
  && Nat.ltb (N.to_nat (c_target c)) (length (c_commits c))
  && forallb (fun p => Nat.ltb p (length (c_commits c))) (nats (c_new_parents c))
  && match c_commits c with (ps, _) :: _ => match ps with [] => true | _ => false end | [] => false end.

(** Correspondence (detail = first differing stage): 10 the case is outside the theorems'
    domain; 1,2 find_recursive_merge_commits (old, new parents), 3,4 merge_commit_trees,
    5 merge_no_resolve of the rebase merge, 6 the rebased tree, 7 path_value, 8 the rebase
    back. *)
Definition check_case (c : case) : N :=
  let tab := c_tab c in
  let acc := c_accept c in
  let orc := oracle_of (c_oracle c) in
  let ca := graph_common_ancestors (parents_of c) in
  let fuel := S (length (c_commits c)) in
  let target := N.to_nat (c_target c) in
  let newp := nats (c_new_parents c) in
  let oldp := old_parents c in
  let ot := tree_of c target in
  let opt_trees_eqb (a : option (list tree)) (b : option (list N)) :=
      match a, b with
      | Some x, Some y => trees_eqb x (map (dec tab) y)
      | _, _ => false
      end in
  let s1 := opt_nats_eqb (find_recursive_merge_commits ca 0%nat fuel oldp) (c_frmc_old c) in
  let s2 := opt_nats_eqb (find_recursive_merge_commits ca 0%nat fuel newp) (c_frmc_new c) in
  let s3 := opt_trees_eqb (merge_commit_trees acc orc ca (tree_of c) 0%nat fuel oldp) (c_old_base c) in
  let s4 := opt_trees_eqb (merge_commit_trees acc orc ca (tree_of c) 0%nat fuel newp) (c_new_base c) in
  let s5 := match c_old_base c, c_new_base c with
            | Some ob, Some nb =>
                trees_eqb (merge_no_resolve [map (dec tab) nb; map (dec tab) ob; ot])
                          (map (dec tab) (c_unresolved c))
            | _, _ => false
            end in
  let s6 := opt_trees_eqb (rebase acc orc ca (tree_of c) 0%nat fuel oldp newp ot) (c_rebased c) in
  let s7 := match c_rebased c with
            | Some r =>
                let rt := map (dec tab) r in
                forallb (fun pv => ovals_eqb (path_value acc rt (fst pv)) (snd pv)) (dec_values c)
            | None => false
            end in
  let s8 := match c_rebased c with
            | Some r =>
                (* the rebased commit has parents [newp] and tree [r]; rebase it onto [oldp] *)
                opt_trees_eqb (rebase acc orc ca (tree_of c) 0%nat fuel newp oldp (map (dec tab) r)) (c_back c)
            | None => false
            end in
  let s0 := in_domain c in
  let detail := (if negb s0 then 10 else if negb s1 then 1 else if negb s2 then 2 else if negb s3 then 3
                 else if negb s4 then 4 else if negb s5 then 5 else if negb s6 then 6
                 else if negb s7 then 7 else if negb s8 then 8 else 9)%N in
  verdict (s0 && s1 && s2 && s3 && s4 && s5 && s6 && s7 && s8) (okb c) false detail.
