(** Model of lib/src/tree_merge.rs (merge_trees / TreeMerger / try_resolve_file_conflict),
    of MergedTree::{merge, merge_no_resolve, resolve, path_value} (lib/src/merged_tree.rs)
    and of Merge<Tree>::{value, sub_tree, sub_tree_recursive} (lib/src/tree.rs).
    Shared by C07, C08, C09. Definitions only.

    Content addressing: a tree id is modelled by the tree's content (structural equality),
    a TreeValue::Tree(id) by [Tree entries]. File, symlink, submodule and copy ids are
    numbers. The content merge of file conflicts (files::try_merge + write_file) is not
    owned by this model: it is the Section variable [content_merge] (an oracle; when
    running, the harness records the real outcomes in the case). *)
From Verif Require Import Base.Prelude Model.Merge.

(** backend::TreeValue (File / Symlink / Tree / GitSubmodule). *)
Inductive value : Type :=
| File (id : N) (exec : bool) (copy : N)
| Symlink (id : N)
| Submodule (id : N)
| Tree (entries : list (N * value)).

(** backend::Tree: entries sorted by name (names are numbers here). *)
Definition tree := list (N * value).
(** One term of a MergedTreeValue = Merge<Option<TreeValue>>. *)
Definition oval := option value.

Fixpoint value_eqb (a b : value) {struct a} : bool :=
  match a, b with
  | File i e c, File i' e' c' => N.eqb i i' && Bool.eqb e e' && N.eqb c c'
  | Symlink i, Symlink i' => N.eqb i i'
  | Submodule i, Submodule i' => N.eqb i i'
  | Tree es, Tree es' =>
      (fix go (l l' : list (N * value)) {struct l} : bool :=
         match l, l' with
         | [], [] => true
         | e :: t, e' :: t' => N.eqb (fst e) (fst e') && value_eqb (snd e) (snd e') && go t t'
         | _, _ => false
         end) es es'
  | _, _ => false
  end.
Definition tree_eqb (t t' : tree) : bool := value_eqb (Tree t) (Tree t').
Definition oval_eqb : oval -> oval -> bool := option_eqb value_eqb.

(** Nesting depth below a tree: 0 when it has no sub-directory. *)
Fixpoint depth (v : value) : nat :=
  match v with
  | Tree es => S ((fix go (l : list (N * value)) : nat :=
                     match l with [] => O | e :: t => Nat.max (depth (snd e)) (go t) end) es)
  | _ => O
  end.
Fixpoint tdepth (t : tree) : nat :=
  match t with [] => O | e :: r => Nat.max (depth (snd e)) (tdepth r) end.
Definition max_tdepth (ts : list tree) : nat := fold_right (fun t m => Nat.max (tdepth t) m) O ts.

(** Tree::value(basename). *)
Fixpoint lookup (n : N) (t : tree) : oval :=
  match t with
  | [] => None
  | e :: r => if N.eqb (fst e) n then Some (snd e) else lookup n r
  end.

(** Names occurring in any of the trees, ascending, each once. all_merged_tree_entries
    (merged_tree.rs:404-426) walks the sorted entry iterators of all terms in lock step and
    yields, for the least pending name, the per-term values; over sorted trees that is
    [map (fun n => (n, map (lookup n) ts)) (names ts)]. *)
Fixpoint ins (n : N) (l : list N) : list N :=
  match l with
  | [] => [n]
  | m :: t => if (n <? m)%N then n :: l else if (n =? m)%N then l else m :: ins n t
  end.
Definition names (ts : list tree) : list N := fold_right ins [] (flat_map (map fst) ts).

(** Merge<Option<T>>::is_absent / is_tree (backend.rs:441-449), to_tree_merge
    (tree.rs:243-270: absent terms read as the empty tree). *)
Definition is_absent (vs : list oval) : bool := match vs with [None] => true | _ => false end.
Definition is_tree_term (o : oval) : bool :=
  match o with None => true | Some (Tree _) => true | Some _ => false end.
Definition is_tree (vs : list oval) : bool := negb (is_absent vs) && forallb is_tree_term vs.
Definition to_tree (o : oval) : tree := match o with Some (Tree t) => t | _ => [] end.
(** tree_merge.rs:222-226: a written sub-tree that is empty propagates as an absent entry. *)
Definition of_tree (t : tree) : oval := match t with [] => None | _ => Some (Tree t) end.

Definition is_single {A} (l : list A) : bool := match l with [_] => true | _ => false end.

Fixpoint all_some {A} (l : list (option A)) : option (list A) :=
  match l with
  | [] => Some []
  | None :: _ => None
  | Some x :: t => match all_some t with Some r => Some (x :: r) | None => None end
  end.
Definition file_id (o : oval) : option N := match o with Some (File i _ _) => Some i | _ => None end.
Definition file_exec (o : oval) : option bool := match o with Some (File _ e _) => Some e | _ => None end.
Definition file_copy (o : oval) : option N := match o with Some (File _ _ c) => Some c | _ => None end.

Section TreeMerge.
  (** store.merge_options().same_change = SameChange::Accept? *)
  Context (accept : bool).
  (** files::try_merge on the contents of the (simplified) file-id conflict, followed by
      write_file: [Some id] of the merged content, [None] when the contents conflict. *)
  Context (content_merge : list N -> option N).

  Definition tm (vs : list oval) : option oval := trivial_merge oval_eqb accept vs.

  (** try_resolve_file_conflict (tree_merge.rs:409-504). *)
  Definition try_resolve_file_conflict (c : list oval) : option value :=
    match all_some (map file_id c), all_some (map file_exec c), all_some (map file_copy c) with
    | Some ids, Some execs, Some copies =>
        match trivial_merge Bool.eqb true execs with
        | None => None
        | Some e =>
            match trivial_merge N.eqb true copies with
            | None => None
            | Some cp =>
                match trivial_merge N.eqb accept ids with
                | Some i => Some (File i e cp)
                | None =>
                    match content_merge (simplify N.eqb ids) with
                    | Some i => Some (File i e cp)
                    | None => None
                    end
                end
            end
        end
    | _, _, _ => None
    end.

  (** resolve_file_values_owned / try_resolve_file_values (tree_merge.rs:359-403): simplify,
      try the file merge, otherwise hand back the values unmodified. *)
  Definition resolve_file_values (vs : list oval) : list oval :=
    match try_resolve_file_conflict (simplify oval_eqb vs) with
    | Some v => [Some v]
    | None => vs
    end.

  (** What happens to one entry name of a directory. process_tree (tree_merge.rs:247-285):
      trivial resolution first; otherwise a tree read (all terms trees or absent) or a file
      merge is scheduled. The completed value goes through mark_completed
      (tree_merge.rs:113-128), which tries resolve_trivial again: a resolved value joins
      the resolved entries, anything else the conflicts. The result here is [[r]] for a
      resolved entry ([r = None]: no entry) and the conflict's terms otherwise. [rec] is
      the merge of the sub-directory. *)
  Definition merge_vals (rec : list tree -> list tree) (vs : list oval) : list oval :=
    match tm vs with
    | Some r => [r]
    | None =>
        let completed :=
          if is_tree vs then map of_tree (rec (map to_tree vs)) else resolve_file_values vs in
        match tm completed with
        | Some r => [r]
        | None => completed
        end
    end.

  (** MergedTreeInput::into_backend_trees (tree_merge.rs:130-168). Side [i] holds every
      resolved entry and the [i]-th term of every conflict; without conflicts there is a
      single tree. The number of sides is taken from the first conflict, as in the source
      (the source asserts all conflicts have that many sides). *)
  Definition side_value (i : nat) (c : list oval) : oval :=
    match c with [r] => r | _ => nth i c None end.
  Definition side_tree (es : list (N * list oval)) (i : nat) : tree :=
    flat_map (fun e => match side_value i (snd e) with Some v => [(fst e, v)] | None => [] end) es.
  Definition assemble (es : list (N * list oval)) : list tree :=
    match filter (fun e => negb (is_single (snd e))) es with
    | [] => [side_tree es 0]
    | c :: _ => map (side_tree es) (seq 0 (length (snd c)))
    end.

  (** The directory merge the TreeMerger computes, as a recursive function. [fuel] bounds
      the directory nesting; [merge_dir (S f)] is exact for trees of nesting depth <= f
      (Proofs: fuel independence), and [merge_trees] supplies that much. *)
  Fixpoint merge_dir (fuel : nat) (ts : list tree) : list tree :=
    match fuel with
    | O => ts
    | S f => assemble (map (fun n => (n, merge_vals (merge_dir f) (map (lookup n) ts))) (names ts))
    end.

  Definition merge_dir_full (ts : list tree) : list tree := merge_dir (S (max_tdepth ts)) ts.

  (** merge_trees (tree_merge.rs:76-94): a resolved merge is returned as is. *)
  Definition merge_trees (ts : list tree) : list tree :=
    match ts with
    | [t] => [t]
    | _ => merge_dir_full ts
    end.

  (** MergedTree::merge_no_resolve (merged_tree.rs:342-362): flatten, simplify. Labels are
      carried along the same mapping and do not influence the tree ids. *)
  Definition merge_no_resolve (mm : list (list tree)) : list tree :=
    simplify tree_eqb (flatten mm).
  (** MergedTree::resolve (merged_tree.rs:167-201, after the repair 4915e33): merge; stop if
      resolved; simplify; stop if no side was cancelled; otherwise merge the simplified
      trees again. Every further round starts from fewer sides, so [length ts] rounds of
      fuel are never used up (Proofs: resolve_loop_fuel). *)
  Fixpoint resolve_loop (fuel : nat) (ts : list tree) : list tree :=
    let m := merge_trees ts in
    if is_single m then m
    else
      let s := simplify tree_eqb m in
      if Nat.eqb (length s) (length m) then s
      else match fuel with
           | O => s
           | S f => resolve_loop f s
           end.
  Definition resolve (ts : list tree) : list tree := resolve_loop (length ts) ts.
  (** The single-pass version before the repair: one merge, one final simplification. *)
  Definition resolve_old (ts : list tree) : list tree :=
    let m := merge_trees ts in
    if is_single m then m else simplify tree_eqb m.
  (** MergedTree::merge (merged_tree.rs:336-338). *)
  Definition merged_tree_merge (mm : list (list tree)) : list tree :=
    resolve (merge_no_resolve mm).

  (** Merge<Tree>::value (tree.rs:282-292). The source's fast path for a resolved merge
      returns the single tree's entry; [trivial_merge [x] = Some x] gives the same. *)
  Definition mvalue (ts : list tree) (n : N) : list oval :=
    let vs := map (lookup n) ts in
    match tm vs with Some r => [r] | None => vs end.
  (** Merge<Tree>::sub_tree (tree.rs:297-327). *)
  Definition sub_tree (ts : list tree) (n : N) : option (list tree) :=
    match mvalue ts n with
    | [Some (Tree s)] => Some [s]
    | [_] => None
    | vs => if is_tree vs then Some (map to_tree vs) else None
    end.
  (** MergedTree::path_value (merged_tree.rs:218-229) with sub_tree_recursive
      (tree.rs:330-343) on the directory part. *)
  Fixpoint path_value (ts : list tree) (p : list N) : list oval :=
    match p with
    | [] => map (fun t => Some (Tree t)) ts
    | n :: p' =>
        match p' with
        | [] => mvalue ts n
        | _ => match sub_tree ts n with
               | None => [None]
               | Some ts' => path_value ts' p'
               end
        end
    end.

  (** The per-path reading of one input tree, and the per-path merge the property speaks
      about: trivial resolution, then (for files) the file merge; a path at which all
      terms are directories carries the merge of those directories. *)
  Fixpoint descend (p : list N) (o : oval) : oval :=
    match p with
    | [] => o
    | n :: p' => match o with Some (Tree s) => descend p' (lookup n s) | _ => None end
    end.
  Definition value_at (p : list N) (t : tree) : oval := descend p (Some (Tree t)).
  Definition merge_path (vs : list oval) : list oval := merge_vals merge_dir_full vs.

  (** A file/directory clash: not trivially resolvable, not a pure directory merge, and a
      directory survives cancellation. *)
  Definition is_dir (o : oval) : bool := match o with Some (Tree _) => true | _ => false end.
  Definition clash (vs : list oval) : bool :=
    match tm vs with
    | Some _ => false
    | None => negb (is_tree vs) && existsb is_dir (simplify oval_eqb vs)
    end.
  (** Some proper, non-empty prefix of [p] is a clash among the inputs [ts]. *)
  Fixpoint prefixes {A} (p : list A) : list (list A) :=
    match p with
    | [] => []
    | x :: t => [] :: map (cons x) (prefixes t)
    end.
  Definition clash_above (ts : list tree) (p : list N) : bool :=
    existsb (fun q => match q with [] => false | _ => clash (map (value_at q) ts) end) (prefixes p).
End TreeMerge.
