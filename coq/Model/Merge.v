(** Model of lib/src/merge.rs: [Merge<T>] as the alternating term vector the Rust
    struct stores ([values[0]] is an add, [values[1]] a remove, ...; odd length),
    [trivial_merge], [get_simplified_mapping] (literal index-vector loop), [simplify],
    [update_from_simplified], [flatten]. Definitions only. *)
From Verif Require Import Base.Prelude.

Section Merge.
  Context {T : Type} (eqb : T -> T -> bool).

  (** Denotation: #occurrences as add (even index) - #occurrences as remove (odd). *)
  Fixpoint den_s (sgn : bool) (l : list T) (v : T) : Z :=
    match l with
    | [] => 0
    | x :: t => ((if eqb x v then (if sgn then 1 else -1) else 0) + den_s (negb sgn) t v)%Z
    end.
  Definition den (l : list T) (v : T) : Z := den_s true l v.

  Fixpoint evens (l : list T) : list T :=
    match l with [] => [] | x :: t => x :: odds t end
  with odds (l : list T) : list T :=
    match l with [] => [] | _ :: t => evens t end.
  Definition adds := evens.
  Definition removes := odds.

  (** [trivial_merge]: the 1- and 3-term fast paths in the source's arm order, then the
      counting path. [accept] = [SameChange::Accept]. *)
  Fixpoint bump (v : T) (n : Z) (c : list (T * Z)) : list (T * Z) :=
    match c with
    | [] => [(v, n)]
    | (w, k) :: t => if eqb w v then (w, (k + n)%Z) :: t else (w, k) :: bump v n t
    end.
  Fixpoint counts_s (sgn : bool) (l : list T) (c : list (T * Z)) : list (T * Z) :=
    match l with
    | [] => c
    | x :: t => counts_s (negb sgn) t (bump x (if sgn then 1 else -1)%Z c)
    end.
  Definition nonzero_counts (l : list T) : list (T * Z) :=
    filter (fun p => negb (Z.eqb (snd p) 0)) (counts_s true l []).

  Definition trivial_merge (accept : bool) (l : list T) : option T :=
    match l with
    | [a] => Some a
    | [a0; r; a1] =>
        if eqb a0 a1 && accept then Some a0
        else if eqb a0 r then Some a1
        else if eqb a1 r then Some a0
        else None
    | _ =>
        match nonzero_counts l with
        | [(v, _)] => Some v
        | [(v1, c1); (v2, _)] =>
            if accept then (if (0 <? c1)%Z then Some v1 else Some v2) else None
        | _ => None
        end
    end.

  (** [get_simplified_mapping], on a vector of (original index, value) pairs. One
      iteration: find the first remove (odd position) equal to the add under the cursor;
      [swap(remove_index + 1, add_index); drain(remove_index..remove_index + 2)]. The
      swap followed by the drain equals overwriting position [add_index] with the
      element at [remove_index + 1] and then deleting the two positions. *)
  Fixpoint find_remove (pos : nat) (is_remove : bool) (l : list (nat * T)) (a : T)
    : option nat :=
    match l with
    | [] => None
    | (_, x) :: t =>
        if is_remove && eqb x a then Some pos
        else find_remove (S pos) (negb is_remove) t a
    end.

  Definition remove2 {A} (r : nat) (l : list A) : list A := firstn r l ++ skipn (r + 2) l.

  Definition simp_step (l : list (nat * T)) (ai : nat) : list (nat * T) * nat :=
    match nth_error l ai with
    | None => (l, ai + 2)
    | Some (_, a) =>
        match find_remove 0 false l a with
        | Some r =>
            match nth_error l (S r) with
            | Some y => (remove2 r (set_nth ai y l), ai)
            | None => (l, ai + 2)
            end
        | None => (l, ai + 2)
        end
    end.

  Fixpoint simp_loop (fuel : nat) (l : list (nat * T)) (ai : nat) : list (nat * T) :=
    match fuel with
    | O => l
    | S f =>
        if Nat.ltb ai (length l) then
          let '(l', ai') := simp_step l ai in simp_loop f l' ai'
        else l
    end.

  Fixpoint enumerate_from {A} (i : nat) (l : list A) : list (nat * A) :=
    match l with [] => [] | x :: t => (i, x) :: enumerate_from (S i) t end.

  Definition simplified_pairs (m : list T) : list (nat * T) :=
    simp_loop (S (length m)) (enumerate_from 0 m) 0.
  Definition simplified_mapping (m : list T) : list nat := map fst (simplified_pairs m).
  Definition simplify (m : list T) : list T := map snd (simplified_pairs m).

  Definition update_from_simplified (m s : list T) : list T :=
    fold_left (fun acc p => set_nth (fst p) (snd p) acc) (combine (simplified_mapping m) s) m.

  (** [flatten] of a merge of merges. *)
  Definition rotate_left1 (l : list T) : list T :=
    match l with [] => [] | x :: t => t ++ [x] end.
  Fixpoint swap_pairs (l : list T) : list T :=
    match l with a :: b :: t => b :: a :: swap_pairs t | _ => l end.
  Definition neg_inner (r : list T) : list T := swap_pairs (rotate_left1 r).
  Fixpoint flatten_rest (l : list (list T)) : list T :=
    match l with
    | r :: a :: t => neg_inner r ++ a ++ flatten_rest t
    | _ => []
    end.
  Definition flatten (mm : list (list T)) : list T :=
    match mm with [] => [] | f :: t => f ++ flatten_rest t end.

  (** Denotation of a nested merge: outer adds count positively, outer removes negatively. *)
  Fixpoint den_nested_s (sgn : bool) (mm : list (list T)) (v : T) : Z :=
    match mm with
    | [] => 0
    | m :: t => ((if sgn then den m v else - den m v) + den_nested_s (negb sgn) t v)%Z
    end.
  Definition den_nested (mm : list (list T)) (v : T) : Z := den_nested_s true mm v.

  (** No value is both an add and a remove. *)
  Definition disjointb (l : list T) : bool :=
    forallb (fun a => negb (mem eqb a (odds l))) (evens l).

  (** [den l1 v = den l2 v] for every [v] occurring in either. *)
  Definition den_eqb (l1 l2 : list T) : bool :=
    forallb (fun v => Z.eqb (den l1 v) (den l2 v)) (l1 ++ l2).
End Merge.
