(** C16 — operations and views round-trip and are content-addressed.
    Model of lib/src/simple_op_store.rs (proto conversion of views and operations, with the
    legacy bookmark form and the legacy fields), lib/src/op_store.rs
    ([merge_join_ref_views], [flatten_remote_refs]) and the [ContentHash] byte encoding
    (lib/src/content_hash.rs + the derive in lib/proc-macros/src/content_hash.rs).
    Definitions only. The prost wire format and BLAKE2b are not modelled: the proto
    *message structure* is (records below mirror simple_op_store.proto), and the hash is an
    oracle applied to the encoding [enc_view] / [enc_operation]. *)
From Verif Require Export Base.Prelude Base.C16Lib.
From Verif Require Import Gen.Tables.
Local Open Scope N_scope.

(** * Values (lib/src/op_store.rs) *)
Notation id := bytes (only parsing).        (* CommitId / ViewId / OperationId: Vec<u8> *)
Definition target := list (option id).      (* RefTarget = Merge<Option<CommitId>>::values: odd length *)
Inductive rstate := RNew | RTracked.        (* RemoteRefState, in declaration order *)
Record remote_ref := mk_rr { rr_target : target; rr_state : rstate }.
Record remote_view := mk_rv {
  rv_bookmarks : list (bytes * remote_ref);   (* BTreeMap<RefNameBuf, RemoteRef> *)
  rv_tags : list (bytes * remote_ref) }.
(** [View]: [head_ids] is a HashSet, represented by its strictly ascending list; all others
    are BTreeMaps, represented by association lists in ascending key order. *)
Record view := mk_view {
  v_head_ids : list id;
  v_local_bookmarks : list (bytes * target);
  v_local_tags : list (bytes * target);
  v_remote_views : list (bytes * remote_view);
  v_git_refs : list (bytes * target);
  v_git_heads : list (bytes * target);
  v_wc_commit_ids : list (bytes * id) }.

Record timestamp := mk_ts { ts_millis : Z; ts_tz : Z }.   (* i64 millis, i32 minutes *)
Record op_metadata := mk_md {
  md_start : timestamp; md_end : timestamp;               (* TimestampRange *)
  md_description : bytes; md_hostname : bytes; md_username : bytes;
  md_is_snapshot : bool;
  md_workspace : option bytes;
  md_attributes : list (bytes * bytes) }.                 (* BTreeMap<String, String> *)
Record operation := mk_op {
  op_view_id : id;
  op_parents : list id;
  op_meta : op_metadata;
  op_predecessors : option (list (id * list id)) }.       (* Option<BTreeMap<CommitId, Vec<CommitId>>> *)

(** * Proto messages (lib/src/protos/simple_op_store.proto) *)
Inductive p_target_value :=
| PCommitId (b : bytes)                                  (* oneof value: commit_id = 1 (legacy) *)
| PConflictLegacy (removes adds : list bytes)            (* conflict_legacy = 2 *)
| PConflict (removes adds : list (option bytes)).        (* conflict = 3, Term { optional bytes } *)
(** A field of message type RefTarget: unset, or set with the oneof possibly unset. *)
Definition p_target := option (option p_target_value).
Record p_remote_bookmark := mk_prb { prb_remote : bytes; prb_target : p_target; prb_state : option Z }.
Record p_bookmark := mk_pb { pb_name : bytes; pb_local : p_target; pb_remotes : list p_remote_bookmark }.
Record p_git_ref := mk_pgr { pgr_name : bytes; pgr_commit_id : bytes; pgr_target : p_target }.
Record p_remote_ref := mk_prr { prr_name : bytes; prr_terms : list (option bytes); prr_state : Z }.
Record p_remote_view := mk_prv { prv_name : bytes; prv_bookmarks : list p_remote_ref; prv_tags : list p_remote_ref }.
(** Tag and GitHead are both (name, target). [pv_wc_commit_ids] is a proto map (a Rust
    HashMap: arbitrary iteration order, unique keys). *)
Record p_view := mk_pview {
  pv_head_ids : list bytes;
  pv_wc_commit_id : bytes;
  pv_wc_commit_ids : list (bytes * bytes);
  pv_bookmarks : list p_bookmark;
  pv_local_tags : list (bytes * p_target);
  pv_remote_views : list p_remote_view;
  pv_git_refs : list p_git_ref;
  pv_git_head_legacy : bytes;
  pv_git_head : p_target;
  pv_migrated : bool;
  pv_git_heads : list (bytes * p_target) }.

Record p_timestamp := mk_pts { pts_millis : Z; pts_tz : Z }.
Record p_metadata := mk_pmd {
  pm_start : option p_timestamp; pm_end : option p_timestamp;
  pm_description : bytes; pm_hostname : bytes; pm_username : bytes;
  pm_is_snapshot : bool; pm_workspace : option bytes;
  pm_attributes : list (bytes * bytes) }.                 (* proto map: HashMap *)
Record p_operation := mk_pop {
  po_view_id : bytes; po_parents : list bytes; po_metadata : option p_metadata;
  po_predecessors : list (bytes * list bytes); po_stores : bool }.

(** PostDecodeError, simple_op_store.rs:394 *)
Inductive perr :=
| EInvalidHashLength (expected actual : N)
| EInvalidState (n : Z)
| EEvenTerms (n : N).
Definition R := res perr.

(** * Merge helpers (lib/src/merge.rs) *)
Fixpoint evens {A} (l : list A) : list A :=
  match l with
  | [] => []
  | x :: t => x :: match t with [] => [] | _ :: t' => evens t' end
  end.
Definition odds {A} (l : list A) : list A := evens (tl l).
(** [Merge::adds] = values at even positions, [Merge::removes] = values at odd positions. *)

Definition absent : target := [None].
(** [Merge::is_absent]: resolved (one term) to None. *)
Definition is_absent (t : target) : bool :=
  match t with [None] => true | _ => false end.
Definition oddb {A} (l : list A) : bool := Nat.odd (length l).

(** [zip_longest] of removes with the remaining adds, both required ([expect]):
    Merge::from_removes_adds, merge.rs:213. *)
Fixpoint interleave {A} (rs ads : list A) : R (list A) :=
  match rs, ads with
  | [], [] => Ok []
  | r :: rs', a :: ads' => rbind (interleave rs' ads') (fun l => Ok (r :: a :: l))
  | _, _ => Panic
  end.
Definition from_removes_adds {A} (rs ads : list A) : R (list A) :=
  match ads with
  | [] => Panic
  | a :: ads' => rbind (interleave rs ads') (fun l => Ok (a :: l))
  end.

(** Merge::from_legacy_form, merge.rs:256: missing terms are padded with None. *)
Fixpoint pad_adds (ads : list id) : target :=
  match ads with [] => [] | a :: t => None :: Some a :: pad_adds t end.
Fixpoint zip_legacy (rs ads : list id) : target :=
  match rs with
  | [] => pad_adds ads
  | r :: rs' => match ads with
                | [] => Some r :: None :: zip_legacy rs' []
                | a :: ads' => Some r :: Some a :: zip_legacy rs' ads'
                end
  end.
Definition from_legacy_form (rs ads : list id) : target :=
  match ads with
  | [] => None :: zip_legacy rs []
  | a :: ads' => Some a :: zip_legacy rs ads'
  end.

(** * RefTarget <-> proto (simple_op_store.rs:846-951) *)
(** ref_target_to_proto always writes the [conflict] form, also for an absent target. *)
Definition ref_target_to_proto (t : target) : p_target :=
  Some (Some (PConflict (odds t) (evens t))).

Definition ref_target_from_proto (p : p_target) : R target :=
  match p with
  | None => Ok absent                                   (* legacy absent id *)
  | Some None => Panic                                  (* proto.value.unwrap() *)
  | Some (Some (PCommitId b)) => Ok [Some b]
  | Some (Some (PConflictLegacy rs ads)) => Ok (from_legacy_form rs ads)
  | Some (Some (PConflict rs ads)) => from_removes_adds rs ads
  end.

Definition ref_target_to_terms_proto (t : target) : list (option bytes) := t.
Definition ref_target_from_terms_proto (ts : list (option bytes)) : R target :=
  if Nat.even (length ts) then Err (EEvenTerms (N.of_nat (length ts))) else Ok ts.

Definition state_to_proto (s : rstate) : Z := match s with RNew => 0%Z | RTracked => 1%Z end.
Definition state_from_proto (n : Z) : R rstate :=
  if (n =? 0)%Z then Ok RNew else if (n =? 1)%Z then Ok RTracked else Err (EInvalidState n).

(** * Remote views, new form (simple_op_store.rs:786-844) *)
Definition remote_refs_to_proto (m : list (bytes * remote_ref)) : list p_remote_ref :=
  map (fun kv => mk_prr (fst kv) (ref_target_to_terms_proto (rr_target (snd kv)))
                        (state_to_proto (rr_state (snd kv)))) m.
Definition remote_views_to_proto (m : list (bytes * remote_view)) : list p_remote_view :=
  map (fun kv => mk_prv (fst kv) (remote_refs_to_proto (rv_bookmarks (snd kv)))
                        (remote_refs_to_proto (rv_tags (snd kv)))) m.

Definition remote_ref_from_proto (p : p_remote_ref) : R (bytes * remote_ref) :=
  rbind (ref_target_from_terms_proto (prr_terms p)) (fun t =>
  rbind (state_from_proto (prr_state p)) (fun s =>
  Ok (prr_name p, mk_rr t s))).
Definition remote_refs_from_proto (l : list p_remote_ref) : R (list (bytes * remote_ref)) :=
  rbind (rmapM remote_ref_from_proto l) (fun es => Ok (map_of_list es)).
Definition remote_view_from_proto (p : p_remote_view) : R (bytes * remote_view) :=
  rbind (remote_refs_from_proto (prv_bookmarks p)) (fun bs =>
  rbind (remote_refs_from_proto (prv_tags p)) (fun ts =>
  Ok (prv_name p, mk_rv bs ts))).
Definition remote_views_from_proto (l : list p_remote_view) : R (list (bytes * remote_view)) :=
  rbind (rmapM remote_view_from_proto l) (fun es => Ok (map_of_list es)).

(** * Legacy bookmark form (op_store.rs:289-336, simple_op_store.rs:717-784) *)
(** A remote bookmark with its symbol: (name, remote, ref); ordered by (name, remote)
    ([RemoteRefSymbol]'s derived Ord). *)
Definition flat_ref := (bytes * bytes * remote_ref)%type.
Definition fr_name (x : flat_ref) : bytes := fst (fst x).
Definition fr_remote (x : flat_ref) : bytes := snd (fst x).
Definition symbol_ltb (x y : flat_ref) : bool :=
  bytes_ltb (fr_name x) (fr_name y)
  || (bytes_eqb (fr_name x) (fr_name y) && bytes_ltb (fr_remote x) (fr_remote y)).

(** itertools' [kmerge_by] on two sorted streams (the k-way merge is folded from it; the
    heap inside itertools is not modelled). *)
Fixpoint merge2 (l1 : list flat_ref) : list flat_ref -> list flat_ref :=
  fix aux (l2 : list flat_ref) : list flat_ref :=
    match l1, l2 with
    | [], _ => l2
    | _, [] => l1
    | x :: t1, y :: t2 => if symbol_ltb y x then y :: aux t2 else x :: merge2 t1 l2
    end.

Definition flatten_remote_refs (get : remote_view -> list (bytes * remote_ref))
  (rvs : list (bytes * remote_view)) : list flat_ref :=
  fold_right merge2 []
    (map (fun kv => map (fun nr => (fst nr, fst kv, snd nr)) (get (snd kv))) rvs).

Fixpoint take_while {A} (f : A -> bool) (l : list A) : list A :=
  match l with [] => [] | x :: t => if f x then x :: take_while f t else [] end.
Fixpoint drop_while {A} (f : A -> bool) (l : list A) : list A :=
  match l with [] => [] | x :: t => if f x then drop_while f t else l end.

(** One entry of [merge_join_ref_views]: name, local target, [(remote, ref)]. *)
Definition joined := (bytes * target * list (bytes * remote_ref))%type.

(** The [iter::from_fn] loop of merge_join_ref_views; every round consumes a local entry or
    at least one remote entry, so [length locals + length flat] rounds suffice. *)
Fixpoint merge_join (fuel : nat) (locals : list (bytes * target)) (flat : list flat_ref)
  : list joined :=
  match fuel with
  | O => []
  | S fuel' =>
      let pick :=
        match flat with
        | x :: _ =>
            match locals with
            | (ln, lt) :: locals' =>
                (* next_if(local_name <= symbol.name) *)
                if negb (bytes_ltb (fr_name x) ln) then Some (ln, lt, locals')
                else Some (fr_name x, absent, locals)
            | [] => Some (fr_name x, absent, locals)
            end
        | [] =>
            match locals with
            | (ln, lt) :: locals' => Some (ln, lt, locals')
            | [] => None
            end
        end in
      match pick with
      | None => []
      | Some (name, lt, locals') =>
          let same := fun x => bytes_eqb (fr_name x) name in
          (name, lt, map (fun x => (fr_remote x, snd x)) (take_while same flat))
            :: merge_join fuel' locals' (drop_while same flat)
      end
  end.

Definition merge_join_ref_views (locals : list (bytes * target))
  (rvs : list (bytes * remote_view)) (get : remote_view -> list (bytes * remote_ref)) : list joined :=
  let flat := flatten_remote_refs get rvs in
  merge_join (length locals + length flat) locals flat.

Definition joined_to_proto (j : joined) : p_bookmark :=
  mk_pb (fst (fst j)) (ref_target_to_proto (snd (fst j)))
        (map (fun rr => mk_prb (fst rr) (ref_target_to_proto (rr_target (snd rr)))
                               (Some (state_to_proto (rr_state (snd rr))))) (snd j)).

Definition bookmark_views_to_proto_legacy (locals : list (bytes * target))
  (rvs : list (bytes * remote_view)) : list p_bookmark :=
  map joined_to_proto (merge_join_ref_views locals rvs rv_bookmarks).

Definition rv_empty : remote_view := mk_rv [] [].
(** remote_views.entry(remote).or_default().bookmarks.insert(name, ref) *)
Definition rvs_insert_bookmark (remote name : bytes) (rr : remote_ref)
  (rvs : list (bytes * remote_view)) : list (bytes * remote_view) :=
  let rv := match map_lookup remote rvs with Some rv => rv | None => rv_empty end in
  map_insert remote (mk_rv (map_insert name rr (rv_bookmarks rv)) (rv_tags rv)) rvs.

Fixpoint legacy_remotes (name : bytes) (rbs : list p_remote_bookmark)
  (rvs : list (bytes * remote_view)) : R (list (bytes * remote_view)) :=
  match rbs with
  | [] => Ok rvs
  | rb :: t =>
      rbind (match prb_state rb with
             | Some n => state_from_proto n
             | None => Ok RNew                      (* views saved by jj < 0.11 *)
             end) (fun st =>
      rbind (ref_target_from_proto (prb_target rb)) (fun tg =>
      legacy_remotes name t (rvs_insert_bookmark (prb_remote rb) name (mk_rr tg st) rvs)))
  end.

Fixpoint legacy_bookmarks (bs : list p_bookmark) (locals : list (bytes * target))
  (rvs : list (bytes * remote_view)) : R (list (bytes * target) * list (bytes * remote_view)) :=
  match bs with
  | [] => Ok (locals, rvs)
  | b :: t =>
      rbind (ref_target_from_proto (pb_local b)) (fun lt =>
      rbind (legacy_remotes (pb_name b) (pb_remotes b) rvs) (fun rvs' =>
      legacy_bookmarks t
        (if is_absent lt then locals else map_insert (pb_name b) lt locals) rvs'))
  end.

Definition bookmark_views_from_proto_legacy (bs : list p_bookmark) :=
  legacy_bookmarks bs [] [].

(** * View <-> proto (simple_op_store.rs:544-715) *)
Definition is_nil {A} (l : list A) : bool := match l with [] => true | _ => false end.

Definition named_target_to_proto (kv : bytes * target) : bytes * p_target :=
  (fst kv, ref_target_to_proto (snd kv)).
Definition named_target_from_proto (kv : bytes * p_target) : R (bytes * target) :=
  rbind (ref_target_from_proto (snd kv)) (fun t => Ok (fst kv, t)).

(** The model writes hash-ordered collections ([head_ids], [wc_commit_ids]) in canonical
    order; the theorems quantify over every permutation. *)
Definition view_to_proto (v : view) : p_view :=
  mk_pview
    (v_head_ids v)
    []
    (v_wc_commit_ids v)
    (bookmark_views_to_proto_legacy (v_local_bookmarks v) (v_remote_views v))
    (map named_target_to_proto (v_local_tags v))
    (remote_views_to_proto (v_remote_views v))
    (map (fun kv => mk_pgr (fst kv) [] (ref_target_to_proto (snd kv))) (v_git_refs v))
    []
    (match map_lookup C16_WORKSPACE_DEFAULT (v_git_heads v) with
     | Some t => ref_target_to_proto t
     | None => None
     end)
    true
    (map named_target_to_proto (v_git_heads v)).

Definition git_ref_from_proto (g : p_git_ref) : R (bytes * target) :=
  match pgr_target g with
  | Some _ => rbind (ref_target_from_proto (pgr_target g)) (fun t => Ok (pgr_name g, t))
  | None => Ok (pgr_name g, [Some (pgr_commit_id g)])     (* legacy format *)
  end.

Fixpoint strip_prefix (p s : bytes) : option bytes :=
  match p with
  | [] => Some s
  | x :: p' => match s with
               | y :: s' => if x =? y then strip_prefix p' s' else None
               | [] => None
               end
  end.

(** The "migrating Git-tracking tags" block, simple_op_store.rs:657-680 (feature "git"). *)
Fixpoint git_tags_of (grs : list (bytes * target)) : R (list (bytes * remote_ref)) :=
  match grs with
  | [] => Ok []
  | (full, t) :: rest =>
      match strip_prefix C16_GIT_TAGS_PREFIX full with
      | None => git_tags_of rest
      | Some [] => Panic                                  (* assert!(!name.is_empty()) *)
      | Some name => rbind (git_tags_of rest) (fun l => Ok ((name, mk_rr t RTracked) :: l))
      end
  end.
Definition migrate_git_tags (git_refs : list (bytes * target))
  (rvs : list (bytes * remote_view)) : R (list (bytes * remote_view)) :=
  rbind (git_tags_of git_refs) (fun tags =>
  if is_nil tags then Ok rvs
  else
    let rv := match map_lookup C16_REMOTE_NAME_FOR_LOCAL_GIT_REPO rvs with
              | Some rv => rv | None => rv_empty end in
    if is_nil (rv_tags rv)                                (* assert!(git_view.tags.is_empty()) *)
    then Ok (map_insert C16_REMOTE_NAME_FOR_LOCAL_GIT_REPO
                        (mk_rv (rv_bookmarks rv) (map_of_list tags)) rvs)
    else Panic).

Definition view_from_proto (p : p_view) : R view :=
  let wc0 := if is_nil (pv_wc_commit_id p) then []
             else [(C16_WORKSPACE_DEFAULT, pv_wc_commit_id p)] in
  let wc := fold_left (fun m kv => map_insert (fst kv) (snd kv) m) (pv_wc_commit_ids p) wc0 in
  let heads := set_of_list (pv_head_ids p) in
  rbind (bookmark_views_from_proto_legacy (pv_bookmarks p)) (fun lr =>
  rbind (rmapM named_target_from_proto (pv_local_tags p)) (fun tags =>
  rbind (rmapM git_ref_from_proto (pv_git_refs p)) (fun grs =>
  let git_refs := map_of_list grs in
  rbind (if is_nil (pv_remote_views p) then Ok (snd lr)
         else remote_views_from_proto (pv_remote_views p)) (fun rvs =>
  rbind (if pv_migrated p then Ok rvs else migrate_git_tags git_refs rvs) (fun rvs' =>
  rbind (rmapM named_target_from_proto (pv_git_heads p)) (fun ghs =>
  let git_heads := map_of_list ghs in
  rbind (if is_nil git_heads then
           rbind (match pv_git_head p with
                  | Some _ => ref_target_from_proto (pv_git_head p)
                  | None => if is_nil (pv_git_head_legacy p) then Ok absent
                            else Ok [Some (pv_git_head_legacy p)]
                  end) (fun gh =>
           Ok (if is_absent gh then git_heads else map_insert C16_WORKSPACE_DEFAULT gh git_heads))
         else Ok git_heads) (fun git_heads' =>
  Ok (mk_view heads (fst lr) (map_of_list tags) rvs' git_refs git_heads' wc)))))))).

(** * Operation <-> proto (simple_op_store.rs:404-542) and read_operation (:186-206) *)
Definition hash_id_from_proto (expected : N) (b : bytes) : R id :=
  if N.of_nat (length b) =? expected then Ok b
  else Err (EInvalidHashLength expected (N.of_nat (length b))).

Definition timestamp_to_proto (t : timestamp) : p_timestamp := mk_pts (ts_millis t) (ts_tz t).
Definition timestamp_from_proto (o : option p_timestamp) : timestamp :=
  match o with
  | Some p => mk_ts (pts_millis p) (pts_tz p)
  | None => mk_ts 0 0                                     (* unwrap_or_default *)
  end.

Definition metadata_to_proto (m : op_metadata) : p_metadata :=
  mk_pmd (Some (timestamp_to_proto (md_start m))) (Some (timestamp_to_proto (md_end m)))
         (md_description m) (md_hostname m) (md_username m) (md_is_snapshot m)
         (md_workspace m) (md_attributes m).
Definition metadata_default : p_metadata := mk_pmd None None [] [] [] false None [].
Definition metadata_from_proto (o : option p_metadata) : op_metadata :=
  let p := match o with Some p => p | None => metadata_default end in
  mk_md (timestamp_from_proto (pm_start p)) (timestamp_from_proto (pm_end p))
        (pm_description p) (pm_hostname p) (pm_username p) (pm_is_snapshot p)
        (pm_workspace p) (map_of_list (pm_attributes p)).

Definition operation_to_proto (o : operation) : p_operation :=
  mk_pop (op_view_id o) (op_parents o) (Some (metadata_to_proto (op_meta o)))
         (match op_predecessors o with Some m => m | None => [] end)
         (match op_predecessors o with Some _ => true | None => false end).

Definition operation_from_proto (p : p_operation) : R operation :=
  rbind (rmapM (hash_id_from_proto C16_OPERATION_ID_LENGTH) (po_parents p)) (fun parents =>
  rbind (hash_id_from_proto C16_VIEW_ID_LENGTH (po_view_id p)) (fun vid =>
  Ok (mk_op vid parents (metadata_from_proto (po_metadata p))
            (if po_stores p then Some (map_of_list (po_predecessors p)) else None)))).

Definition root_operation_id : id := repeat 0 (N.to_nat C16_OPERATION_ID_LENGTH).
(** SimpleOpStore::read_operation after decoding: a parentless operation gets the root. *)
Definition read_operation (p : p_operation) : R operation :=
  rbind (operation_from_proto p) (fun o =>
  Ok (if is_nil (op_parents o)
      then mk_op (op_view_id o) [root_operation_id] (op_meta o) (op_predecessors o)
      else o)).

(** * ContentHash encoding (content_hash.rs; field order = declaration order) *)
Definition c_id : codec id := c_bytes.
Definition c_target : codec target := c_list (c_option c_id).
Definition state_ord (s : rstate) : N := match s with RNew => 0 | RTracked => 1 end.
Definition state_of_ord (n : N) : rstate := if n =? 0 then RNew else RTracked.
Definition c_state : codec rstate := c_iso state_ord state_of_ord (c_unsigned 4).
Definition c_remote_ref : codec remote_ref :=
  c_iso (fun r => (rr_target r, rr_state r)) (fun p => mk_rr (fst p) (snd p))
        (c_pair c_target c_state).
Definition c_map {V} (cv : codec V) : codec (list (bytes * V)) := c_list (c_pair c_bytes cv).
Definition c_remote_view : codec remote_view :=
  c_iso (fun r => (rv_bookmarks r, rv_tags r)) (fun p => mk_rv (fst p) (snd p))
        (c_pair (c_map c_remote_ref) (c_map c_remote_ref)).

Definition view_tuple (v : view) :=
  (v_head_ids v, (v_local_bookmarks v, (v_local_tags v, (v_remote_views v,
   (v_git_refs v, (v_git_heads v, v_wc_commit_ids v)))))).
Definition view_of_tuple
  (t : list id * (list (bytes * target) * (list (bytes * target) *
       (list (bytes * remote_view) * (list (bytes * target) * (list (bytes * target) *
        list (bytes * id))))))) : view :=
  let '(a, (b, (c, (d, (e, (f, g)))))) := t in mk_view a b c d e f g.
Definition c_view : codec view :=
  c_iso view_tuple view_of_tuple
    (c_pair (c_list c_id) (c_pair (c_map c_target) (c_pair (c_map c_target)
    (c_pair (c_map c_remote_view) (c_pair (c_map c_target) (c_pair (c_map c_target)
    (c_map c_id))))))).
Definition enc_view : view -> bytes := enc c_view.

Definition c_timestamp : codec timestamp :=
  c_iso (fun t => (ts_millis t, ts_tz t)) (fun p => mk_ts (fst p) (snd p))
        (c_pair (c_signed 8) (c_signed 4)).
Definition md_tuple (m : op_metadata) :=
  ((md_start m, md_end m), (md_description m, (md_hostname m, (md_username m,
   (md_is_snapshot m, (md_workspace m, md_attributes m)))))).
Definition md_of_tuple
  (t : (timestamp * timestamp) * (bytes * (bytes * (bytes * (bool * (option bytes *
        list (bytes * bytes))))))) : op_metadata :=
  let '((a, b), (c, (d, (e, (f, (g, h)))))) := t in mk_md a b c d e f g h.
Definition c_metadata : codec op_metadata :=
  c_iso md_tuple md_of_tuple
    (c_pair (c_pair c_timestamp c_timestamp) (c_pair c_bytes (c_pair c_bytes (c_pair c_bytes
    (c_pair c_bool (c_pair (c_option c_bytes) (c_map c_bytes))))))).
Definition op_tuple (o : operation) :=
  (op_view_id o, (op_parents o, (op_meta o, op_predecessors o))).
Definition op_of_tuple
  (t : id * (list id * (op_metadata * option (list (id * list id))))) : operation :=
  let '(a, (b, (c, d))) := t in mk_op a b c d.
Definition c_operation : codec operation :=
  c_iso op_tuple op_of_tuple
    (c_pair c_id (c_pair (c_list c_id) (c_pair c_metadata (c_option (c_map (c_list c_id)))))).
Definition enc_operation : operation -> bytes := enc c_operation.

(** * Well-formedness *)
Definition targets_oddb {K} (m : list (K * target)) : bool := forallb (fun kv => oddb (snd kv)) m.
Definition refs_okb (m : list (bytes * remote_ref)) : bool :=
  keys_sortedb m && forallb (fun kv => oddb (rr_target (snd kv))) m.
(** The domain of the round-trip theorem: canonical containers, odd-arity targets, and no
    absent local bookmark target (O3). *)
Definition wf_viewb (v : view) : bool :=
  strict_sortedb (v_head_ids v)
  && keys_sortedb (v_local_bookmarks v) && targets_oddb (v_local_bookmarks v)
  && forallb (fun kv => negb (is_absent (snd kv))) (v_local_bookmarks v)
  && keys_sortedb (v_local_tags v) && targets_oddb (v_local_tags v)
  && keys_sortedb (v_remote_views v)
  && forallb (fun kv => refs_okb (rv_bookmarks (snd kv)) && refs_okb (rv_tags (snd kv)))
             (v_remote_views v)
  && keys_sortedb (v_git_refs v) && targets_oddb (v_git_refs v)
  && keys_sortedb (v_git_heads v) && targets_oddb (v_git_heads v)
  && keys_sortedb (v_wc_commit_ids v).
Definition wf_view (v : view) : Prop := wf_viewb v = true.

Definition len_is (n : N) (b : bytes) : bool := N.of_nat (length b) =? n.
Definition wf_opb (o : operation) : bool :=
  len_is C16_VIEW_ID_LENGTH (op_view_id o)
  && negb (is_nil (op_parents o))
  && forallb (len_is C16_OPERATION_ID_LENGTH) (op_parents o)
  && keys_sortedb (md_attributes (op_meta o))
  && match op_predecessors o with Some m => keys_sortedb m | None => true end.
Definition wf_op (o : operation) : Prop := wf_opb o = true.

(** * Boolean equalities (via the tuple views) *)
Definition target_eqb : target -> target -> bool := list_eqb (option_eqb bytes_eqb).
Definition rstate_eqb (a b : rstate) : bool := state_ord a =? state_ord b.
Definition remote_ref_eqb (a b : remote_ref) : bool :=
  target_eqb (rr_target a) (rr_target b) && rstate_eqb (rr_state a) (rr_state b).
Definition map_eqb {V} (e : V -> V -> bool) : list (bytes * V) -> list (bytes * V) -> bool :=
  list_eqb (pair_eqb bytes_eqb e).
Definition remote_view_eqb (a b : remote_view) : bool :=
  map_eqb remote_ref_eqb (rv_bookmarks a) (rv_bookmarks b)
  && map_eqb remote_ref_eqb (rv_tags a) (rv_tags b).
Definition view_eqb (a b : view) : bool :=
  list_eqb bytes_eqb (v_head_ids a) (v_head_ids b)
  && map_eqb target_eqb (v_local_bookmarks a) (v_local_bookmarks b)
  && map_eqb target_eqb (v_local_tags a) (v_local_tags b)
  && map_eqb remote_view_eqb (v_remote_views a) (v_remote_views b)
  && map_eqb target_eqb (v_git_refs a) (v_git_refs b)
  && map_eqb target_eqb (v_git_heads a) (v_git_heads b)
  && map_eqb bytes_eqb (v_wc_commit_ids a) (v_wc_commit_ids b).

Definition timestamp_eqb (a b : timestamp) : bool :=
  (ts_millis a =? ts_millis b)%Z && (ts_tz a =? ts_tz b)%Z.
Definition metadata_eqb (a b : op_metadata) : bool :=
  timestamp_eqb (md_start a) (md_start b) && timestamp_eqb (md_end a) (md_end b)
  && bytes_eqb (md_description a) (md_description b)
  && bytes_eqb (md_hostname a) (md_hostname b)
  && bytes_eqb (md_username a) (md_username b)
  && Bool.eqb (md_is_snapshot a) (md_is_snapshot b)
  && option_eqb bytes_eqb (md_workspace a) (md_workspace b)
  && map_eqb bytes_eqb (md_attributes a) (md_attributes b).
Definition operation_eqb (a b : operation) : bool :=
  bytes_eqb (op_view_id a) (op_view_id b)
  && list_eqb bytes_eqb (op_parents a) (op_parents b)
  && metadata_eqb (op_meta a) (op_meta b)
  && option_eqb (map_eqb (list_eqb bytes_eqb)) (op_predecessors a) (op_predecessors b).

Definition perr_eqb (a b : perr) : bool :=
  match a, b with
  | EInvalidHashLength e1 a1, EInvalidHashLength e2 a2 => (e1 =? e2) && (a1 =? a2)
  | EInvalidState n, EInvalidState m => (n =? m)%Z
  | EEvenTerms n, EEvenTerms m => n =? m
  | _, _ => false
  end.

(** Structural equality of protos, used only to compare the model's proto with the
    implementation's (correspondence). *)
Definition p_tv_eqb (a b : p_target_value) : bool :=
  match a, b with
  | PCommitId x, PCommitId y => bytes_eqb x y
  | PConflictLegacy r1 a1, PConflictLegacy r2 a2 =>
      list_eqb bytes_eqb r1 r2 && list_eqb bytes_eqb a1 a2
  | PConflict r1 a1, PConflict r2 a2 =>
      list_eqb (option_eqb bytes_eqb) r1 r2 && list_eqb (option_eqb bytes_eqb) a1 a2
  | _, _ => false
  end.
Definition p_target_eqb : p_target -> p_target -> bool := option_eqb (option_eqb p_tv_eqb).
Definition p_rb_eqb (a b : p_remote_bookmark) : bool :=
  bytes_eqb (prb_remote a) (prb_remote b) && p_target_eqb (prb_target a) (prb_target b)
  && option_eqb Z.eqb (prb_state a) (prb_state b).
Definition p_bookmark_eqb (a b : p_bookmark) : bool :=
  bytes_eqb (pb_name a) (pb_name b) && p_target_eqb (pb_local a) (pb_local b)
  && list_eqb p_rb_eqb (pb_remotes a) (pb_remotes b).
Definition p_git_ref_eqb (a b : p_git_ref) : bool :=
  bytes_eqb (pgr_name a) (pgr_name b) && bytes_eqb (pgr_commit_id a) (pgr_commit_id b)
  && p_target_eqb (pgr_target a) (pgr_target b).
Definition p_rr_eqb (a b : p_remote_ref) : bool :=
  bytes_eqb (prr_name a) (prr_name b)
  && list_eqb (option_eqb bytes_eqb) (prr_terms a) (prr_terms b)
  && (prr_state a =? prr_state b)%Z.
Definition p_rv_eqb (a b : p_remote_view) : bool :=
  bytes_eqb (prv_name a) (prv_name b) && list_eqb p_rr_eqb (prv_bookmarks a) (prv_bookmarks b)
  && list_eqb p_rr_eqb (prv_tags a) (prv_tags b).
Definition p_view_eqb (a b : p_view) : bool :=
  list_eqb bytes_eqb (pv_head_ids a) (pv_head_ids b)
  && bytes_eqb (pv_wc_commit_id a) (pv_wc_commit_id b)
  && map_eqb bytes_eqb (pv_wc_commit_ids a) (pv_wc_commit_ids b)
  && list_eqb p_bookmark_eqb (pv_bookmarks a) (pv_bookmarks b)
  && map_eqb p_target_eqb (pv_local_tags a) (pv_local_tags b)
  && list_eqb p_rv_eqb (pv_remote_views a) (pv_remote_views b)
  && list_eqb p_git_ref_eqb (pv_git_refs a) (pv_git_refs b)
  && bytes_eqb (pv_git_head_legacy a) (pv_git_head_legacy b)
  && p_target_eqb (pv_git_head a) (pv_git_head b)
  && Bool.eqb (pv_migrated a) (pv_migrated b)
  && map_eqb p_target_eqb (pv_git_heads a) (pv_git_heads b).
Definition p_ts_eqb (a b : p_timestamp) : bool :=
  (pts_millis a =? pts_millis b)%Z && (pts_tz a =? pts_tz b)%Z.
Definition p_md_eqb (a b : p_metadata) : bool :=
  option_eqb p_ts_eqb (pm_start a) (pm_start b) && option_eqb p_ts_eqb (pm_end a) (pm_end b)
  && bytes_eqb (pm_description a) (pm_description b) && bytes_eqb (pm_hostname a) (pm_hostname b)
  && bytes_eqb (pm_username a) (pm_username b) && Bool.eqb (pm_is_snapshot a) (pm_is_snapshot b)
  && option_eqb bytes_eqb (pm_workspace a) (pm_workspace b)
  && map_eqb bytes_eqb (pm_attributes a) (pm_attributes b).
Definition p_op_eqb (a b : p_operation) : bool :=
  bytes_eqb (po_view_id a) (po_view_id b) && list_eqb bytes_eqb (po_parents a) (po_parents b)
  && option_eqb p_md_eqb (po_metadata a) (po_metadata b)
  && map_eqb (list_eqb bytes_eqb) (po_predecessors a) (po_predecessors b)
  && Bool.eqb (po_stores a) (po_stores b).

(** * Correspondence cases *)
(** The harness writes hash-ordered proto collections sorted, so that the model's canonical
    proto can be compared structurally. *)
Inductive case :=
| CView (v w : view)              (* v is written and read back; w is a second view *)
        (via_mutators : bool)     (* v was built through jj_lib::view::View's mutators *)
        (stored : p_view)         (* decoded content of the stored file *)
        (read : R view)           (* read_view(id) in a fresh store on the same directory *)
        (hashed : bytes)          (* bytes fed to the hasher by ContentHash::hash(v) *)
        (vid vid2 wid : id)       (* id of v; id of an equal value rebuilt differently, in
                                     another store; id of w *)
        (id_is_hash : bool)       (* vid = BLAKE2b-512(hashed), computed by the harness *)
| CViewProto (p : p_view) (read : R view)          (* a hand-made (legacy) proto is read *)
| COp (o w : operation) (stored : p_operation) (read : R operation) (hashed : bytes)
      (oid oid2 wid : id) (id_is_hash : bool)
| COpProto (p : p_operation) (read : R operation).

Definition view_res_eqb : R view -> R view -> bool := res_eqb perr_eqb view_eqb.
Definition op_res_eqb : R operation -> R operation -> bool := res_eqb perr_eqb operation_eqb.

(** The property on the implementation's outputs. *)
Definition okb (c : case) : bool :=
  match c with
  | CView v w via _ read _ vid vid2 wid _ =>
      (negb via || wf_viewb v)
      && (negb (wf_viewb v) || view_res_eqb read (Ok v))
      && bytes_eqb vid vid2
      && Bool.eqb (bytes_eqb vid wid) (view_eqb v w)
  | CViewProto _ read =>
      match read with
      | Ok v => wf_viewb v           (* whatever is read is well-formed (C16_read_is_wf) *)
      | _ => true
      end
  | COp o w _ read _ oid oid2 wid _ =>
      (negb (wf_opb o) || op_res_eqb read (Ok o))
      && bytes_eqb oid oid2
      && Bool.eqb (bytes_eqb oid wid) (operation_eqb o w)
  | COpProto _ read =>
      match read with
      | Ok o => wf_opb o             (* C16_read_op_is_wf *)
      | _ => true
      end
  end.

Definition check_case (c : case) : N :=
  match c with
  | CView v w via stored read hashed vid vid2 wid id_is_hash =>
      let c1 := p_view_eqb (view_to_proto v) stored in
      let c2 := view_res_eqb (view_from_proto stored) read in
      let c3 := bytes_eqb (enc_view v) hashed in
      verdict (c1 && c2 && c3 && id_is_hash) (okb c) false
              (if negb c1 then 1 else if negb c2 then 2 else if negb c3 then 3 else 4)
  | CViewProto p read =>
      verdict (view_res_eqb (view_from_proto p) read) (okb c) false 5
  | COp o w stored read hashed oid oid2 wid id_is_hash =>
      let c1 := p_op_eqb (operation_to_proto o) stored in
      let c2 := op_res_eqb (read_operation stored) read in
      let c3 := bytes_eqb (enc_operation o) hashed in
      verdict (c1 && c2 && c3 && id_is_hash) (okb c) false
              (if negb c1 then 6 else if negb c2 then 7 else if negb c3 then 8 else 9)
  | COpProto p read =>
      verdict (op_res_eqb (read_operation p) read) (okb c) false 10
  end.

(** * Definitions used in the statements of Props/C16.v *)
(** The implementation's proto differs from [view_to_proto v] only in the iteration order of
    the two hash-ordered collections. *)
Definition with_hash_order (h : list bytes) (w : list (bytes * bytes)) (p : p_view) : p_view :=
  mk_pview h (pv_wc_commit_id p) w (pv_bookmarks p) (pv_local_tags p) (pv_remote_views p)
           (pv_git_refs p) (pv_git_head_legacy p) (pv_git_head p) (pv_migrated p) (pv_git_heads p).


Definition with_attr_order (a : list (bytes * bytes)) (p : p_operation) : p_operation :=
  mk_pop (po_view_id p) (po_parents p)
         (match po_metadata p with
          | Some m => Some (mk_pmd (pm_start m) (pm_end m) (pm_description m) (pm_hostname m)
                                   (pm_username m) (pm_is_snapshot m) (pm_workspace m) a)
          | None => None
          end)
         (po_predecessors p) (po_stores p).


(** The domain of the encoding theorems (every byte below 256, every length below 2^64,
    timestamps within i64 / i32), as a boolean. *)
Definition lenb {A} (l : list A) : bool := N.of_nat (length l) <? 2 ^ 64.
Definition bytes_wfb (b : bytes) : bool := forallb byteb b && lenb b.
Definition target_wfb (t : target) : bool :=
  forallb (fun o => match o with Some b => bytes_wfb b | None => true end) t && lenb t.
Definition map_wfb {V} (f : V -> bool) (m : list (bytes * V)) : bool :=
  forallb (fun kv => bytes_wfb (fst kv) && f (snd kv)) m && lenb m.
Definition remote_ref_wfb (r : remote_ref) : bool := target_wfb (rr_target r).
Definition remote_view_wfb (r : remote_view) : bool :=
  map_wfb remote_ref_wfb (rv_bookmarks r) && map_wfb remote_ref_wfb (rv_tags r).
Definition view_enc_wfb (v : view) : bool :=
  forallb bytes_wfb (v_head_ids v) && lenb (v_head_ids v)
  && map_wfb target_wfb (v_local_bookmarks v) && map_wfb target_wfb (v_local_tags v)
  && map_wfb remote_view_wfb (v_remote_views v)
  && map_wfb target_wfb (v_git_refs v) && map_wfb target_wfb (v_git_heads v)
  && map_wfb bytes_wfb (v_wc_commit_ids v).
Definition timestamp_wfb (t : timestamp) : bool :=
  ((- 2 ^ 63 <=? ts_millis t) && (ts_millis t <? 2 ^ 63)
   && (- 2 ^ 31 <=? ts_tz t) && (ts_tz t <? 2 ^ 31))%Z.
Definition op_enc_wfb (o : operation) : bool :=
  let m := op_meta o in
  bytes_wfb (op_view_id o) && forallb bytes_wfb (op_parents o) && lenb (op_parents o)
  && timestamp_wfb (md_start m) && timestamp_wfb (md_end m)
  && bytes_wfb (md_description m) && bytes_wfb (md_hostname m) && bytes_wfb (md_username m)
  && match md_workspace m with Some w => bytes_wfb w | None => true end
  && map_wfb bytes_wfb (md_attributes m)
  && match op_predecessors o with
     | Some p => map_wfb (fun l => forallb bytes_wfb l && lenb l) p
     | None => true
     end.


Definition case_ok (c : case) : Prop :=
  match c with
  | CView v w via _ read _ vid vid2 wid _ =>
      (via = true -> wf_view v) /\ (wf_view v -> read = Ok v) /\ vid = vid2
      /\ (vid = wid <-> v = w)
  | CViewProto _ read => forall v, read = Ok v -> wf_view v
  | COp o w _ read _ oid oid2 wid _ =>
      (wf_op o -> read = Ok o) /\ oid = oid2 /\ (oid = wid <-> o = w)
  | COpProto _ read => forall o, read = Ok o -> wf_op o
  end.

