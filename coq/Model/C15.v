(** C15 — crash at any durable-write point (definitions only; proofs in Proofs/C15.v).

    A command is the ORDERED list of durable effects it performs (observed on the real `jj`
    through the cfg hook `verif::point("durable" | "op_heads.add" | ...)`); a crash before
    the N-th effect leaves exactly the first N-1 applied (environment: rename/unlink/creat
    of one directory entry are atomic w.r.t. process death; data written by a dead process
    stays in the page cache — power loss is out of scope).

    Effects, as classified from the hook's path argument:
      EObj        any content-addressed object other than an operation (view, index segment,
                  table segment; lib/src/file_util.rs:242 persist_content_addressed_temp_file):
                  the complete content is written to a temp file and synced BEFORE the one
                  rename that binds the name
      EOp n       the operation object n  (lib/src/simple_op_store.rs write_operation)
      ELink n     index/op_links/n        (lib/src/default_index/store.rs:508)
      EHeadAdd / EHeadRemove               op_heads/heads (simple_op_heads_store.rs:78-99)
      ETabAdd / ETabRemove                 store/extra/heads (stacked_table.rs:471-482)
      EWcWrite p / EWcRemove p             working-copy file p (local_working_copy.rs)
      ETreeState, ECheckout                .jj/working_copy/{tree_state,checkout}
      EOther                               anything else persisted by temp file + rename.
    The op DAG, [anc], [Cov] are those of Model/C14.v. *)
From Verif Require Import Base.Prelude Base.SchedS Model.C14.
From Coq Require Import Arith.

Inductive effect :=
| EObj
| EOp (n : nat)
| ELink (n : nat)
| EHeadAdd (n : nat)
| EHeadRemove (n : nat)
| ETabAdd | ETabRemove
| EWcWrite (p : nat)
| EWcRemove (p : nat)
| ETreeState
| ECheckout
| EOther.

Record disk := mk_disk {
  d_ops : list nat;          (* operation objects whose name is bound *)
  d_heads : list nat;        (* op_heads/heads *)
  d_checkout : nat;          (* operation recorded in .jj/working_copy/checkout *)
  d_wc_dirty : list nat;     (* working-copy paths written/removed since tree_state was last saved *)
  d_nobj : nat;              (* content-addressed objects bound since the last operation object *)
  d_ts : nat                 (* operation whose working-copy tree the saved tree_state describes *)
}.

Definition newest (H : list nat) : nat := fold_right Nat.max 0 H.

(** [chg] = the operations whose working-copy commit has another tree than at the operation
    before (measured on the real repo). tree_state keeps describing the current operation's
    tree when a new head does not change that tree; LockedLocalWorkingCopy::finish
    (lib/src/local_working_copy.rs:2967-2993) saves tree_state (if dirty) and only then
    rebinds checkout to the new operation. *)
Definition apply_effect (chg : list nat) (d : disk) (e : effect) : disk :=
  match e with
  | EObj => mk_disk (d_ops d) (d_heads d) (d_checkout d) (d_wc_dirty d) (S (d_nobj d)) (d_ts d)
  | EOp n => mk_disk (n :: d_ops d) (d_heads d) (d_checkout d) (d_wc_dirty d) 0 (d_ts d)
  | EHeadAdd n =>
    mk_disk (d_ops d) (add_head n (d_heads d)) (d_checkout d) (d_wc_dirty d) (d_nobj d)
            (if (d_ts d =? newest (d_heads d)) && negb (memn n chg) then n else d_ts d)
  | EHeadRemove n =>
    mk_disk (d_ops d) (remove_id n (d_heads d)) (d_checkout d) (d_wc_dirty d) (d_nobj d) (d_ts d)
  | EWcWrite p | EWcRemove p =>
    mk_disk (d_ops d) (d_heads d) (d_checkout d) (p :: d_wc_dirty d) (d_nobj d) (d_ts d)
  | ETreeState => mk_disk (d_ops d) (d_heads d) (d_checkout d) [] (d_nobj d) (newest (d_heads d))
  | ECheckout =>
    mk_disk (d_ops d) (d_heads d) (newest (d_heads d)) (d_wc_dirty d) (d_nobj d) (d_ts d)
  | ELink _ | ETabAdd | ETabRemove | EOther => d
  end.

(** The discipline the theorems assume and the check verifies on every real trace:
    - an operation object is bound only after at least one content-addressed object (its
      view) was bound for it and when its parents are bound; a head is recorded only for a
      bound operation that descends from every current head;
    - a head is removed only when a strict descendant of it is already a head;
    - the index link is written only for a bound operation;
    - the working-copy checkout is pointed only at a published operation, and only when the
      saved tree_state describes that operation's tree and no working-copy file was touched
      since it was saved (tree_state BEFORE checkout). *)
Definition allowed (g : dag) (d : disk) (e : effect) : bool :=
  match e with
  | EOp n => (0 <? d_nobj d) && negb (memn n (d_ops d)) && forallb (fun p => memn p (d_ops d)) (parents g n)
  | ELink n => memn n (d_ops d)
  | EHeadAdd n => memn n (d_ops d) && forallb (fun h => ancb g h n) (d_heads d)
  | EHeadRemove x => existsb (fun h => sancb g x h) (d_heads d)
  | ECheckout =>
    negb (match d_heads d with [] => true | _ => false end)
    && (d_ts d =? newest (d_heads d))
    && match d_wc_dirty d with [] => true | _ => false end
  | _ => true
  end.

(** Trace acceptance: [None] as soon as an effect breaks the discipline. *)
Fixpoint accept (g : dag) (chg : list nat) (d : disk) (l : list effect) : option disk :=
  match l with
  | [] => Some d
  | e :: r => if allowed g d e then accept g chg (apply_effect chg d e) r else None
  end.

(** State left by a crash before the [k+1]-th effect. *)
Definition crash_state (chg : list nat) (d : disk) (l : list effect) (k : nat) : disk :=
  run (apply_effect chg) (firstn k l) d.

(** What `jj op log` finds: the operation resolve_op_heads returns when run alone
    (Props/C14.v C14_quiescent): with heads that are ancestors of one another it is the
    newest head, no merge operation is needed. *)
Definition current (d : disk) : nat := newest (d_heads d).

(** Every ancestor of every head is a bound operation object. *)
Definition loadable (g : dag) (d : disk) : Prop :=
  d_heads d <> [] /\ forall h x, In h (d_heads d) -> anc g x h -> In x (d_ops d).
Definition loadableb (g : dag) (d : disk) : bool :=
  negb (match d_heads d with [] => true | _ => false end)
  && forallb (fun h => forallb (fun x => negb (ancb g x h) || memn x (d_ops d)) (seq 0 (S h))) (d_heads d).

(** The working copy is in sync with the repo: it records the current operation and no
    file was touched since tree_state was saved. *)
Definition wc_synced (d : disk) : bool :=
  (d_checkout d =? current d) && match d_wc_dirty d with [] => true | _ => false end.

(** checkout's operation => tree_state is the tree checked out for that operation: either
    checkout still names an older operation (the stale path: check_stale compares trees,
    `workspace update-stale` recovers) or tree_state already describes the current one. *)
Definition wc_consistent (d : disk) : Prop :=
  d_checkout d <> current d \/ d_ts d = current d.

(* ------------------------------------------------------------------ correspondence case *)
(** Observation after killing the real jj before its [o_n]-th durable effect. *)
Record obs := mk_obs {
  o_n : nat;               (* 1-based crash point *)
  o_aborted : bool;        (* the process died at the point (no exit code) *)
  o_loads : bool;          (* `jj op log --ignore-working-copy` exits 0 *)
  o_ops_kept : bool;       (* every operation listed before the command is still listed *)
  o_current : nat;         (* operation at the top of `jj op log` (index) *)
  o_heads : list nat;      (* op_heads/heads right after the crash *)
  o_checkout : nat;        (* operation id stored in .jj/working_copy/checkout *)
  o_status_ok : bool;      (* `jj status` exits 0 right away *)
  o_recovered : bool;      (* `jj workspace update-stale` exits 0 and `jj status` exits 0 afterwards *)
  o_files_kept : bool;     (* every file on disk after the crash is still there or stored in a commit some operation shows *)
  o_tree : nat;            (* after recovery the working-copy commit has the tree it has at this operation of the uncrashed run (999 = at none) *)
  o_state : nat            (* described commits + bookmarks after recovery: 0 = all of the state before the command present, 1 = all of the state after it, 3 = both (recovery kept a divergent copy), 2 = neither *)
}.

Record case := mk_case {
  c_nbefore : nat;              (* operations before the command: ids 0 .. nbefore-1 *)
  c_dag : dag;                  (* parents of every operation incl. the new ones *)
  c_head_before : nat;
  c_checkout_before : nat;      (* operation recorded in the working copy before the command *)
  c_effects : list effect;      (* the uncrashed run's durable effects, in order *)
  c_obs : list obs;
  c_tables_ok : bool;           (* after every crash all content-addressed files hash to their names *)
  c_colocated : bool;           (* the workspace shares its working copy with a Git repo (.git next to .jj) *)
  c_sig_changed : bool;         (* the command changes the described commits / bookmarks at all *)
  c_wc_changed : list nat       (* new operations whose working-copy tree differs from the operation before *)
}.

Definition disk_before (c : case) : disk :=
  mk_disk (seq 0 (c_nbefore c)) [c_head_before c] (c_checkout_before c) [] 0 (c_checkout_before c).

(** The state before the command is a normal one: one head, the working copy records an
    operation that is the head or one of its ancestors (a stale working copy). *)
Definition init_okb (c : case) : bool :=
  wf_dagb (c_dag c) && (c_head_before c <? c_nbefore c) && (c_checkout_before c <? c_nbefore c)
  && ancb (c_dag c) (c_checkout_before c) (c_head_before c).

Definition pred_ok (c : case) (o : obs) : bool :=
  let d := crash_state (c_wc_changed c) (disk_before c) (c_effects c) (o_n o - 1) in
  (o_current o =? current d)
  && eqn_list (o_heads o) (d_heads d)
  && (o_checkout o =? d_checkout d)
  && (negb (wc_synced d) || o_status_ok o)
  && (c_colocated c    (* Git's own refs are not part of the model: no prediction there *)
      || (o_state o =? 3)
      || (o_state o =? (if c_sig_changed c && (current d =? length (c_dag c) - 1) then 1 else 0))).

Definition corr (c : case) : bool :=
  init_okb c &&
  match accept (c_dag c) (c_wc_changed c) (disk_before c) (c_effects c) with
  | None => false
  | Some _ => forallb (pred_ok c) (c_obs c)
  end
  && (length (c_obs c) =? length (c_effects c)).

(** The property on the real observations alone: the process died where asked; the repo
    loads; no earlier operation is lost; the current operation is the one before the command
    or one the command published; the working copy is usable at once or after the
    documented recovery, and no file was lost. *)
Definition obs_okb (c : case) (o : obs) : bool :=
  o_aborted o && o_loads o && o_ops_kept o
  && ((o_current o =? c_head_before c) || (c_nbefore c <=? o_current o))
  && ancb (c_dag c) (c_head_before c) (o_current o)
  && (o_status_ok o || o_recovered o)
  && o_files_kept o
  && negb (o_state o =? 2)
  && negb (o_tree o =? 999).

Definition okb (c : case) : bool :=
  wf_dagb (c_dag c) && forallb (obs_okb c) (c_obs c) && c_tables_ok c.

(** Known-finding class F7 (see Props/C15.v): in a colocated workspace the command exports
    its refs and resets Git HEAD BEFORE its operation exists (cli/src/cli_util.rs
    finish_transaction); a crash in between makes the next command import its own export as
    if it were an outside change. Only observations taken before the operation was
    published, where everything but the recovery/file/state part holds, fall in the class. *)
Fixpoint first_op_pos (l : list effect) : nat :=
  match l with
  | [] => 0
  | EHeadAdd _ :: _ => 1
  | _ :: r => S (first_op_pos r)
  end.

Definition repo_part_ok (c : case) (o : obs) : bool :=
  o_aborted o && o_loads o && o_ops_kept o
  && ((o_current o =? c_head_before c) || (c_nbefore c <=? o_current o))
  && ancb (c_dag c) (c_head_before c) (o_current o).

Definition known_class (c : case) : bool :=
  c_colocated c && wf_dagb (c_dag c) && c_tables_ok c
  && forallb (fun o => obs_okb c o
                       || (repo_part_ok c o && (o_n o <=? first_op_pos (c_effects c)))) (c_obs c).

Definition check_case (c : case) : N :=
  let prop := okb c in
  verdict (corr c) prop (negb prop && corr c && known_class c) 1.
