(** C07 correspondence case: a Merge<MergedTree> over real trees, what
    MergedTree::merge_no_resolve, tree_merge::merge_trees, MergedTree::merge and
    MergedTree::path_value returned, and the property checker applied to those outputs. *)
From Verif Require Import Base.Prelude Model.Merge.
From Verif Require Export Model.TreeMerge Model.TreeCase.

Record case := mk_case {
  c_accept : bool;                              (* merge.same-change = accept? *)
  c_tab : list ctree;                           (* every tree involved, flat, by number *)
  c_inputs : list (list N);                     (* Merge<MergedTree>: outer terms, each a merge of tree numbers *)
  c_oracle : list (list N * option N);          (* content-merge outcomes *)
  c_unresolved : list N;                        (* impl: merge_no_resolve(inputs).tree_ids *)
  c_merged : option (list N);                   (* impl: tree_merge::merge_trees(unresolved); None = panic / error *)
  c_result : option (list N);                   (* impl: MergedTree::merge(inputs).tree_ids *)
  c_values : list (list N * list (option cval)); (* impl: path_value of MergedTree(merged) at every path of inputs and result *)
  c_backends_agree : bool;                      (* the concurrency-1 backend produced the same trees and values *)
}.

Section Checker.
  Context (accept : bool) (content_merge : list N -> option N).

  (** What C07_pathwise / C07_clash say the value at [p] must be, given the input trees. *)
  Definition expected_value (ts : list tree) (p : list N) : list oval :=
    let ivs := map (value_at p) ts in
    if clash_above accept ts p then [None]
    else if clash accept ivs then ivs
    else merge_path accept content_merge ivs.

  Definition values_ok (ts : list tree) (vals : list (list N * list oval)) : bool :=
    forallb (fun pv => match fst pv with
                       | [] => true
                       | _ => ovals_eqb (snd pv) (expected_value ts (fst pv))
                       end) vals.
  (** Resolved exactly when no listed path is conflicted. *)
  Definition flag_ok (merged : list tree) (vals : list (list N * list oval)) : bool :=
    Bool.eqb (is_single merged) (forallb (fun pv => is_single (snd pv)) vals).
  (** MergedTree::resolve: a resolved merge is returned as it is; otherwise the result is
      a fixpoint of both steps of the loop (nothing left to cancel, nothing left to merge)
      and has no more sides than the merge. *)
  Definition final_ok (merged result : list tree) : bool :=
    if is_single merged then trees_eqb result merged
    else (length result <=? length merged)%nat && Nat.odd (length result)
         && (is_single result
             || (trees_eqb (simplify tree_eqb result) result
                 && trees_eqb (merge_trees accept content_merge result) result)).
  (** merge [A; B; B] = A and merge [B; B; A] = A, as trees. *)
  Definition identity_ok (inputs : list (list tree)) (result : list tree) : bool :=
    match inputs with
    | [[a]; [b]; [c]] =>
        (negb (tree_eqb b c) || trees_eqb result [a]) && (negb (tree_eqb a b) || trees_eqb result [c])
    | _ => true
    end.
End Checker.

Definition dec_values (c : case) : list (list N * list oval) :=
  map (fun pv => (fst pv, map (dec_oval (c_tab c)) (snd pv))) (c_values c).
Definition dec_inputs (c : case) : list (list tree) := map (map (dec (c_tab c))) (c_inputs c).

Definition okb (c : case) : bool :=
  match c_merged c, c_result c with
  | Some m, Some r =>
      let ts := map (dec (c_tab c)) (c_unresolved c) in
      let merged := map (dec (c_tab c)) m in
      let result := map (dec (c_tab c)) r in
      values_ok (c_accept c) (oracle_of (c_oracle c)) ts (dec_values c)
      && flag_ok merged (dec_values c)
      && final_ok (c_accept c) (oracle_of (c_oracle c)) merged result
      && identity_ok (dec_inputs c) result
  | _, _ => false
  end.

(** Correspondence, stage by stage (the detail number names the first stage that differs):
    1 merge_no_resolve, 2 merge_trees, 3 resolve (the whole loop), 4 path_value, 5 backends
    disagree. Stages 2-4 start from the implementation's merge_no_resolve output. *)
Definition check_case (c : case) : N :=
  let tab := c_tab c in
  let acc := c_accept c in
  let orc := oracle_of (c_oracle c) in
  let ts := map (dec tab) (c_unresolved c) in
  let s1 := trees_eqb (merge_no_resolve (dec_inputs c)) ts in
  let s2 := match c_merged c with
            | Some m => trees_eqb (merge_trees acc orc ts) (map (dec tab) m)
            | None => false
            end in
  let s3 := match c_result c with
            | Some r => trees_eqb (resolve acc orc ts) (map (dec tab) r)
            | None => false
            end in
  let s4 := match c_merged c with
            | Some m =>
                let mt := map (dec tab) m in
                forallb (fun pv => ovals_eqb (path_value acc mt (fst pv)) (snd pv)) (dec_values c)
            | None => false
            end in
  let s5 := c_backends_agree c in
  let detail := (if negb s1 then 1 else if negb s2 then 2 else if negb s3 then 3
                 else if negb s4 then 4 else if negb s5 then 5 else 6)%N in
  verdict (s1 && s2 && s3 && s4 && s5) (okb c) false detail.
