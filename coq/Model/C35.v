(** C35 — quoted symbols and strings survive the expression languages.
    Model of
      lib/src/dsl_util.rs:474-495   escape_string
      lib/src/dsl_util.rs:442-470   StringLiteralParser::parse
      lib/src/revset.pest           identifier / symbol / string_literal / raw_string_literal /
                                    primary (symbol alternatives) / program / symbol_name
      lib/src/revset_parser.rs:586-668  parse_primary_node (symbol arms), parse_as_string_literal,
                                    is_identifier, parse_symbol
      lib/src/revset.rs:3609-3627   format_symbol / format_string / format_remote_symbol
      lib/src/fileset.pest, cli/src/template.pest   the (identical) string_literal rules
    Strings are lists of Unicode scalar values ([N]).  The escape table, the unescape table and
    the two format strings are scraped from the Rust sources into Gen/Tables.v on every run.
    Definitions only; proofs are in Proofs/C35.v. *)
From Verif Require Import Base.Prelude Gen.Tables.
Local Open Scope N_scope.

Definition str := list N.

Definition codes (s : string) : str := map N_of_ascii (list_ascii_of_string s).

Definition str_eqb : str -> str -> bool := list_eqb N.eqb.

(** Compact case encodings (Coq elaborates string literals much faster than lists of numbers):
    code points as 6 hex digits each; boolean lists as strings of '0'/'1'. *)
Fixpoint group3 (l : list N) : str :=
  match l with
  | a :: b :: c :: r => (65536 * a + 256 * b + c) :: group3 r
  | _ => []
  end.
Definition u (s : string) : str := group3 (hex s).
Fixpoint flags (s : string) : list bool :=
  match s with
  | String c r => (N_of_ascii c =? 49) :: flags r
  | EmptyString => []
  end.
Definition xt (cs fs : string) : list (N * bool) := combine (u cs) (flags fs).

(* ------------------------------------------------------------------ scraped Rust literals *)

Definition hexv (c : N) : option N :=
  if (48 <=? c) && (c <=? 57) then Some (c - 48)
  else if (97 <=? c) && (c <=? 102) then Some (c - 87)
  else if (65 <=? c) && (c <=? 70) then Some (c - 55)
  else None.

Definition rust_simple_escape (c : N) : option N :=
  if c =? 110 then Some 10 else if c =? 116 then Some 9 else if c =? 114 then Some 13
  else if c =? 48 then Some 0 else if c =? 92 then Some 92 else if c =? 39 then Some 39
  else if c =? 34 then Some 34 else None.

(** Decodes the body of a Rust (non-raw) char or string literal. *)
Fixpoint rust_unescape (l : str) : option str :=
  match l with
  | [] => Some []
  | c :: r =>
    if c =? 92 then
      match r with
      | [] => None
      | d :: r1 =>
        if d =? 120 then
          match r1 with
          | h1 :: h2 :: r2 =>
            match hexv h1, hexv h2, rust_unescape r2 with
            | Some a, Some b, Some t => Some (16 * a + b :: t)
            | _, _, _ => None
            end
          | _ => None
          end
        else
          match rust_simple_escape d, rust_unescape r1 with
          | Some v, Some t => Some (v :: t)
          | _, _ => None
          end
      end
    else option_map (cons c) (rust_unescape r)
  end.

Definition rust_char (s : string) : option N :=
  match rust_unescape (codes s) with
  | Some [c] => Some c
  | _ => None
  end.

Fixpoint zip_opt {A B} (l1 : list (option A)) (l2 : list (option B)) : option (list (A * B)) :=
  match l1, l2 with
  | [], [] => Some []
  | Some a :: t1, Some b :: t2 => option_map (cons (a, b)) (zip_opt t1 t2)
  | _, _ => None
  end.

(** escape_string's literal arms, in source order: char => raw text pushed. *)
Definition escape_table_opt : option (list (N * str)) :=
  zip_opt (map rust_char ESCAPE_ARM_CHARS) (map (fun s => Some (codes s)) ESCAPE_ARM_TEXTS).
Definition escape_table : list (N * str) :=
  Eval vm_compute in match escape_table_opt with Some t => t | None => [] end.

(** StringLiteralParser::parse's literal arms, in source order: text after the backslash => char. *)
Definition unescape_table_opt : option (list (str * N)) :=
  zip_opt (map (fun s => rust_unescape (codes s)) UNESCAPE_ARM_KEYS) (map rust_char UNESCAPE_ARM_VALS).
Definition unescape_table : list (str * N) :=
  Eval vm_compute in match unescape_table_opt with Some t => t | None => [] end.

(** All the scraped pieces this model is written against are present in the expected shape. *)
Definition tables_wf : bool :=
  Eval vm_compute in
  match escape_table_opt, unescape_table_opt with
  | Some _, Some _ =>
    (ESCAPE_CONTROL_ARM =? 1) && (UNESCAPE_HEX_ARM =? 1) && (UNESCAPE_MATCH_HEAD =? 1)
    && (FORMAT_SYMBOL_BODY =? 1)
  | _, _ => false
  end.

(* ------------------------------------------------------------------ escape_string *)

Fixpoint assoc_n {B} (c : N) (t : list (N * B)) : option B :=
  match t with
  | [] => None
  | (k, v) :: r => if k =? c then Some v else assoc_n c r
  end.

Fixpoint assoc_s {B} (k : str) (t : list (str * B)) : option B :=
  match t with
  | [] => None
  | (k', v) :: r => if str_eqb k' k then Some v else assoc_s k r
  end.

(** char::is_ascii_control: U+0000..=U+001F and U+007F. *)
Definition is_ascii_control (c : N) : bool := (c <=? 31) || (c =? 127).

Definition hex_lower (d : N) : N := if d <? 10 then 48 + d else 87 + d.

(** core::ascii::escape_default (std, not jj): the bytes it yields for [b]. *)
Definition ascii_escape_default (b : N) : str :=
  if b =? 9 then [92; 116] else if b =? 13 then [92; 114] else if b =? 10 then [92; 110]
  else if b =? 39 then [92; 39] else if b =? 34 then [92; 34] else if b =? 92 then [92; 92]
  else if (32 <=? b) && (b <=? 126) then [b]
  else [92; 120; hex_lower (b / 16); hex_lower (b mod 16)].

(** dsl_util.rs:477-491: literal arms first, then [c if c.is_ascii_control()], then [c => push c]. *)
Definition escape_char (c : N) : str :=
  match assoc_n c escape_table with
  | Some t => t
  | None => if is_ascii_control c then ascii_escape_default c else [c]
  end.

Definition escape_string (s : str) : str := flat_map escape_char s.

(* ------------------------------------------------------------------ formatting (revset.rs) *)

(** [format!(r#''{}''#, x)] and [format!('{name}@{remote}')], split at the placeholders of the
    scraped format strings. *)
Fixpoint skip_brace (l : str) : str :=
  match l with
  | [] => []
  | c :: r => if c =? 125 then r else skip_brace r
  end.
Fixpoint split_at_brace (l : str) : str * str :=
  match l with
  | [] => ([], [])
  | c :: r => if c =? 123 then ([], skip_brace r) else let (a, b) := split_at_brace r in (c :: a, b)
  end.

Definition fmt1_pieces (f : string) : str * str := split_at_brace (codes f).
Definition fmt2_pieces (f : string) : str * str * str :=
  let (a, b) := split_at_brace (codes f) in
  let (b1, b2) := split_at_brace b in (a, b1, b2).

(** The literal pieces of the two scraped format strings (computed from Gen/Tables.v when this
    file is compiled). *)
Definition format_string_pieces : str * str := Eval vm_compute in fmt1_pieces FORMAT_STRING_FMT.
Definition format_remote_pieces : str * str * str := Eval vm_compute in fmt2_pieces FORMAT_REMOTE_FMT.

Definition format_string (s : str) : str :=
  let (a, b) := format_string_pieces in a ++ escape_string s ++ b.

(* ------------------------------------------------------------------ the string literal grammar *)

Definition is_hex_digit (c : N) : bool :=
  ((48 <=? c) && (c <=? 57)) || ((97 <=? c) && (c <=? 102)) || ((65 <=? c) && (c <=? 70)).

(** string_escape = '\\' ~ ('t' | 'r' | 'n' | '0' | 'e' | ('x' ~ ASCII_HEX_DIGIT{2}) | '\'' | '\\'):
    the one-character alternatives (the rule text is pinned in Props/C35.v). *)
Definition escape_single (c : N) : bool :=
  (c =? 116) || (c =? 114) || (c =? 110) || (c =? 48) || (c =? 101) || (c =? 34) || (c =? 92).

(** The text after the backslash accepted by [string_escape], standalone (used by C36). *)
Definition grammar_escape_body (l : str) : option (str * str) :=
  match l with
  | [] => None
  | d :: r1 =>
    if d =? 120 then
      match r1 with
      | h1 :: h2 :: r2 => if is_hex_digit h1 && is_hex_digit h2 then Some ([d; h1; h2], r2) else None
      | _ => None
      end
    else if escape_single d then Some ([d], r1) else None
  end.

(** Inner pairs of a string_literal: content characters (pest groups maximal runs into one
    string_content pair; concatenating per character is the same) and escapes (text after the
    backslash). *)
Inductive part := PContent (c : N) | PEscape (body : str).

Definition push_part (p : part) (o : option (list part * str)) : option (list part * str) :=
  match o with Some (ps, r) => Some (p :: ps, r) | None => None end.

(** Phase 1 (pest): the input after the opening quote; [(string_content | string_escape)* ~ '\''].
    A backslash that does not start a valid escape ends the repetition and then the closing
    quote does not match: the literal is rejected. *)
Fixpoint lex_literal_body (l : str) : option (list part * str) :=
  match l with
  | [] => None
  | c :: r =>
    if c =? 34 then Some ([], r)
    else if c =? 92 then
      match r with
      | [] => None
      | d :: r1 =>
        if d =? 120 then
          match r1 with
          | h1 :: h2 :: r2 =>
            if is_hex_digit h1 && is_hex_digit h2
            then push_part (PEscape [d; h1; h2]) (lex_literal_body r2) else None
          | _ => None
          end
        else if escape_single d then push_part (PEscape [d]) (lex_literal_body r1) else None
      end
    else push_part (PContent c) (lex_literal_body r)
  end.

(** u8::from_str_radix(text, 16): optional leading '+', at least one digit, value <= 255. *)
Fixpoint hex_digits_value (acc : N) (l : str) : option N :=
  match l with
  | [] => Some acc
  | c :: r => match hexv c with Some v => hex_digits_value (16 * acc + v) r | None => None end
  end.
Definition from_str_radix16_u8 (l : str) : option N :=
  let digits := match l with c :: r => if c =? 43 then r else l | [] => l end in
  match digits with
  | [] => None
  | _ => match hex_digits_value 0 digits with
         | Some v => if v <=? 255 then Some v else None
         | None => None
         end
  end.

(** Phase 2 (dsl_util.rs:448-462): the match on the text after the backslash.
    [None] = one of the two panic arms ([expect('hex characters')] / [panic!('invalid escape')]). *)
Definition unescape_arm (body : str) : option N :=
  match assoc_s body unescape_table with
  | Some c => Some c
  | None =>
    match body with
    | x :: hex => if x =? 120 then from_str_radix16_u8 hex else None
    | [] => None
    end
  end.

Fixpoint unescape_parts (ps : list part) : option str :=
  match ps with
  | [] => Some []
  | PContent c :: t => option_map (cons c) (unescape_parts t)
  | PEscape b :: t =>
    match unescape_arm b, unescape_parts t with
    | Some v, Some r => Some (v :: r)
    | _, _ => None
    end
  end.

(** Result of running a pest parser and then the AST builder on its pairs. *)
Inductive pres (A : Type) :=
| POk (a : A) (rest : str)
| PReject
| PPanic.
Arguments POk {A}. Arguments PReject {A}. Arguments PPanic {A}.

(** A complete string literal at the head of the input (opening quote included). *)
Definition parse_string_literal (l : str) : pres str :=
  match l with
  | c :: r =>
    if c =? 34 then
      match lex_literal_body r with
      | Some (ps, rest) => match unescape_parts ps with Some s => POk s rest | None => PPanic end
      | None => PReject
      end
    else PReject
  | [] => PReject
  end.

(* ------------------------------------------------------------------ identifiers and symbols *)

Section Grammar.
  (** XID_CONTINUE comes from pest's Unicode tables: an oracle, recorded per character from the
      real parser for running. *)
  Context (xidc : N -> bool).

  (** identifier_part = @{ (XID_CONTINUE | '_' | '*' | '/')+ } *)
  Definition ident_part_char (c : N) : bool := xidc c || (c =? 95) || (c =? 42) || (c =? 47).

  Definition cons_m (c : N) (o : option (str * str)) : option (str * str) :=
    match o with Some (m, r) => Some (c :: m, r) | None => None end.

  (** identifier = @{ identifier_part ~ (('.' | '-'+ | '+') ~ identifier_part)* }
      as the deterministic scanner the PEG denotes.  States: inside an identifier_part (an
      accepting position), after '.' or '+', after one or more '-'.  identifier_part's [+] and
      ['-'+] are greedy and possessive; an iteration whose identifier_part fails is undone, so the
      match ends at the last accepting position.  [scan st l = Some (m, r)]: consuming [m] from
      here reaches the last accepting position, [r] is what is left; [None]: no accepting position
      ahead (only in the two non-accepting states). *)
  Inductive ist := IPart | ISingle | IDash.

  Fixpoint scan (st : ist) (l : str) : option (str * str) :=
    match l with
    | [] => match st with IPart => Some ([], []) | _ => None end
    | c :: r =>
      match st with
      | IPart =>
        if ident_part_char c then cons_m c (scan IPart r)
        else if (c =? 46) || (c =? 43) then
          match scan ISingle r with Some (m, r') => Some (c :: m, r') | None => Some ([], l) end
        else if c =? 45 then
          match scan IDash r with Some (m, r') => Some (c :: m, r') | None => Some ([], l) end
        else Some ([], l)
      | ISingle => if ident_part_char c then cons_m c (scan IPart r) else None
      | IDash =>
        if c =? 45 then cons_m c (scan IDash r)
        else if ident_part_char c then cons_m c (scan IPart r) else None
      end
    end.

  Definition lex_identifier (l : str) : option (str * str) :=
    match l with
    | c :: r => if ident_part_char c then cons_m c (scan IPart r) else None
    | [] => None
    end.

  (** revset_parser.rs:655-660. *)
  Definition is_identifier (s : str) : bool :=
    match lex_identifier s with
    | Some (_, []) => true
    | _ => false
    end.

  (** revset.rs:3609-3627. *)
  Definition format_symbol (s : str) : str := if is_identifier s then s else format_string s.
  Definition format_remote_symbol (name remote : str) : str :=
    let '(a, b1, b2) := format_remote_pieces in
    a ++ format_symbol name ++ b1 ++ format_symbol remote ++ b2.

  Fixpoint span_neq (q : N) (l : str) : str * str :=
    match l with
    | [] => ([], [])
    | c :: r => if c =? q then ([], l) else let (a, b) := span_neq q r in (c :: a, b)
    end.

  (** symbol = _{ identifier | string_literal | raw_string_literal } (ordered choice). *)
  Inductive symtok := SIdent (s : str) | SQuoted (ps : list part) | SRaw (s : str).

  Definition lex_symbol (l : str) : option (symtok * str) :=
    match lex_identifier l with
    | Some (m, r) => Some (SIdent m, r)
    | None =>
      match l with
      | c :: r =>
        if c =? 34 then
          match lex_literal_body r with Some (ps, r') => Some (SQuoted ps, r') | None => None end
        else if c =? 39 then
          let (m, r') := span_neq 39 r in
          match r' with _ :: r'' => Some (SRaw m, r'') | [] => None end
        else None
      | [] => None
      end
    end.

  (** The symbol alternatives of [primary], in the grammar's order:
      symbol ~ at_op ~ symbol | symbol ~ at_op | symbol | at_op. *)
  Inductive primtok :=
  | TRemote (a b : symtok) | TAtWorkspace (a : symtok) | TSymbol (a : symtok) | TAtCurrent.

  Definition lex_primary_symbol (l : str) : option (primtok * str) :=
    match lex_symbol l with
    | Some (a, r) =>
      match r with
      | c :: r1 =>
        if c =? 64 then
          match lex_symbol r1 with
          | Some (b, r2) => Some (TRemote a b, r2)
          | None => Some (TAtWorkspace a, r1)
          end
        else Some (TSymbol a, r)
      | [] => Some (TSymbol a, r)
      end
    | None =>
      match l with
      | c :: r => if c =? 64 then Some (TAtCurrent, r) else None
      | [] => None
      end
    end.

  (** parse_as_string_literal (revset_parser.rs:639-652); [None] = panic in the escape match. *)
  Definition symtok_string (t : symtok) : option str :=
    match t with
    | SIdent s => Some s
    | SQuoted ps => unescape_parts ps
    | SRaw s => Some s
    end.

  (** The expression kinds parse_primary_node builds for the symbol alternatives. *)
  Inductive node :=
  | NIdentifier (s : str) | NString (s : str) | NRemote (name remote : str)
  | NAtWorkspace (name : str) | NAtCurrent.

  Definition build_node (t : primtok) : option node :=
    match t with
    | TSymbol (SIdent s) => Some (NIdentifier s)
    | TSymbol a => option_map NString (symtok_string a)
    | TAtWorkspace a => option_map NAtWorkspace (symtok_string a)
    | TRemote a b =>
      match symtok_string a, symtok_string b with
      | Some x, Some y => Some (NRemote x y)
      | _, _ => None
      end
    | TAtCurrent => Some NAtCurrent
    end.

  Definition is_ws (c : N) : bool :=
    (c =? 32) || (c =? 9) || (c =? 13) || (c =? 10) || (c =? 12).
  Fixpoint skip_ws (l : str) : str :=
    match l with
    | c :: r => if is_ws c then skip_ws r else l
    | [] => []
    end.

  Fixpoint drop_while (p : N -> bool) (l : str) : str :=
    match l with
    | c :: r => if p c then drop_while p r else l
    | [] => []
    end.
  Definition is_ascii_alnum (c : N) : bool :=
    ((48 <=? c) && (c <=? 57)) || ((97 <=? c) && (c <=? 122)) || ((65 <=? c) && (c <=? 90)).
  Definition head_is (c : N) (l : str) : bool :=
    match l with h :: _ => h =? c | [] => false end.

  (** Over-approximation of 'an earlier alternative of [primary] could start matching here':
      '(' ..., function = function_name ~ '(' ..., pattern = strict_identifier ~ ':' ...
      (function_name and strict_identifier only contain the characters of the two classes
      below, so whenever one of them is followed by '(' resp. ':' this guard is set). *)
  Definition primary_guard (l : str) : bool :=
    head_is 40 (drop_while (fun c => is_ascii_alnum c || (c =? 95)) l)
    || head_is 58 (drop_while (fun c => is_ascii_alnum c || (c =? 95) || (c =? 47) || (c =? 46)
                                        || (c =? 45) || (c =? 43)) l).

  (** What the model says about [parse_program] on an input. [OOther]: outside the modelled
      fragment (operators, functions, patterns, parentheses) - no claim. *)
  Inductive outcome := OOk (n : node) | OReject | OPanic | OOther.

  (** program = SOI ~ whitespace* ~ expression ~ whitespace* ~ EOI, restricted to expressions that
      consist of one symbol primary.  With no leading '~' and a primary followed (after
      whitespace) by EOI, [expression]'s prefix/postfix/infix repetitions are all empty and
      [range_expression] takes its fourth alternative (plain neighbors_expression). *)
  Definition parse_program_symbol (l : str) : outcome :=
    let l1 := skip_ws l in
    match l1 with
    | [] => OReject
    | c :: _ =>
      if c =? 126 then OOther
      else if primary_guard l1 then OOther
      else
        match lex_primary_symbol l1 with
        | None => if (c =? 58) || (c =? 46) then OOther else OReject
        | Some (t, r) =>
          match skip_ws r with
          | [] => match build_node t with Some n => OOk n | None => OPanic end
          | _ :: _ => OOther
          end
        end
    end.

  (** parse_symbol (revset_parser.rs:663-676): symbol_name = _{ SOI ~ symbol ~ EOI }. *)
  Inductive sres := SOk (s : str) | SErr | SPanic.
  Definition parse_symbol_name (l : str) : sres :=
    match lex_symbol l with
    | Some (t, []) =>
      match symtok_string t with
      | Some [] => SErr
      | Some s => SOk s
      | None => SPanic
      end
    | _ => SErr
    end.

  (** Fileset and template programs consisting of one string literal (same string_literal rule,
      pinned).  fileset: primary = '(' .. | function | pattern | identifier | string_literal | ..;
      template: primary = '(' .. | function | lambda | pattern | identifier | string_literal | ...
      None of the earlier alternatives (nor a prefix operator) can start with a double quote,
      except fileset's identifier if XID_CONTINUE contained it ([fs]=true guards that). *)
  Inductive lres := LOk (s : str) | LErr | LPanic | LOther.
  Definition parse_literal_program (fs : bool) (l : str) : lres :=
    let l1 := skip_ws l in
    match l1 with
    | [] => if fs then LErr else LOther
    | c :: _ =>
      if c =? 34 then
        if fs && xidc 34 then LOther
        else
          match parse_string_literal l1 with
          | POk s r => match skip_ws r with [] => LOk s | _ => LOther end
          | PReject => LErr
          | PPanic => LPanic
          end
      else LOther
    end.
End Grammar.

(* ------------------------------------------------------------------ correspondence cases *)

(** What the real parsers returned. *)
Inductive rres := ROk (n : node) | RErr | RPanic | ROther.

Definition node_eqb (a b : node) : bool :=
  match a, b with
  | NIdentifier x, NIdentifier y => str_eqb x y
  | NString x, NString y => str_eqb x y
  | NRemote x1 x2, NRemote y1 y2 => str_eqb x1 y1 && str_eqb x2 y2
  | NAtWorkspace x, NAtWorkspace y => str_eqb x y
  | NAtCurrent, NAtCurrent => true
  | _, _ => false
  end.

(** Model outcome vs real result; the model makes no claim on [OOther]. *)
Definition agree_o (m : outcome) (r : rres) : bool :=
  match m, r with
  | OOther, _ => true
  | OOk a, ROk b => node_eqb a b
  | OReject, RErr => true
  | OPanic, RPanic => true
  | _, _ => false
  end.
Definition agree_s (m r : sres) : bool :=
  match m, r with
  | SOk a, SOk b => str_eqb a b
  | SErr, SErr => true
  | SPanic, SPanic => true
  | _, _ => false
  end.
Definition agree_l (m r : lres) : bool :=
  match m, r with
  | LOther, _ => true
  | LOk a, LOk b => str_eqb a b
  | LErr, LErr => true
  | LPanic, LPanic => true
  | _, _ => false
  end.

Definition xid_of (t : list (N * bool)) (c : N) : bool :=
  match assoc_n c t with Some b => b | None => false end.

Inductive case :=
(** name, remote, oracle; impl: escape_string name, format_string name, format_symbol name,
    format_remote_symbol name remote; parse_program of format_string / format_symbol /
    format_remote_symbol / format_symbol++'@'; parse_symbol (format_symbol name); fileset and
    template parsers on format_string name. *)
| CFormat (name remote : str) (xid : list (N * bool))
          (esc fstr fsym frem : str)
          (r_str r_sym r_rem r_ws : rres) (r_ps : sres) (r_fs r_tp : lres)
(** arbitrary text from the symbol fragment: parse_program, parse_symbol, is_identifier
    (observed as format_symbol text == text), fileset, template. *)
| CText (text : str) (xid : list (N * bool))
        (r : rres) (r_ps : sres) (r_isid : bool) (r_fs r_tp : lres)
(** oracle audit: for c = 0..127, whether the real grammar accepts the one-character string as an
    identifier (= identifier_part accepts c). *)
| CAudit (flags : list bool).

(** identifier_part on ASCII is exactly [0-9A-Za-z_*/] (hypothesis of the theorems). *)
Definition ascii_ident_expected (c : N) : bool :=
  is_ascii_alnum c || (c =? 95) || (c =? 42) || (c =? 47).

Fixpoint audit_ok (c : N) (flags : list bool) : bool :=
  match flags with
  | [] => true
  | b :: r => Bool.eqb b (ascii_ident_expected c) && audit_ok (c + 1) r
  end.

Definition rres_is (r : rres) (n : node) : bool :=
  match r with ROk m => node_eqb m n | _ => false end.

(** The property on the implementation's outputs alone: everything formatted parses back to a
    node carrying exactly the original strings. *)
Definition okb (c : case) : bool :=
  match c with
  | CFormat name remote _ _ _ _ _ r_str r_sym r_rem r_ws r_ps r_fs r_tp =>
    rres_is r_str (NString name)
    && (rres_is r_sym (NIdentifier name) || rres_is r_sym (NString name))
    && rres_is r_rem (NRemote name remote)
    && rres_is r_ws (NAtWorkspace name)
    && agree_s (match name with [] => SErr | _ => SOk name end) r_ps
    && agree_l (LOk name) r_fs && agree_l (LOk name) r_tp
  | CText _ _ r r_ps _ r_fs r_tp =>
    negb (match r with RPanic => true | _ => false end)
    && negb (match r_ps with SPanic => true | _ => false end)
    && negb (match r_fs with LPanic => true | _ => false end)
    && negb (match r_tp with LPanic => true | _ => false end)
  | CAudit flags => (N.of_nat (length flags) =? 128) && audit_ok 0 flags
  end.

Definition corr (c : case) : bool :=
  match c with
  | CFormat name remote xid esc fstr fsym frem r_str r_sym r_rem r_ws r_ps r_fs r_tp =>
    let x := xid_of xid in
    tables_wf
    && str_eqb (escape_string name) esc
    && str_eqb (format_string name) fstr
    && str_eqb (format_symbol x name) fsym
    && str_eqb (format_remote_symbol x name remote) frem
    && agree_o (parse_program_symbol x fstr) r_str
    && agree_o (parse_program_symbol x fsym) r_sym
    && agree_o (parse_program_symbol x frem) r_rem
    && agree_o (parse_program_symbol x (fsym ++ [64])) r_ws
    && agree_s (parse_symbol_name x fsym) r_ps
    && agree_l (parse_literal_program x true fstr) r_fs
    && agree_l (parse_literal_program x false fstr) r_tp
  | CText text xid r r_ps r_isid r_fs r_tp =>
    let x := xid_of xid in
    tables_wf
    && agree_o (parse_program_symbol x text) r
    && agree_s (parse_symbol_name x text) r_ps
    && Bool.eqb (is_identifier x text) r_isid
    && agree_l (parse_literal_program x true text) r_fs
    && agree_l (parse_literal_program x false text) r_tp
  | CAudit flags => true
  end.

Definition check_case (c : case) : N :=
  verdict (corr c) (okb c) false
          (match c with CFormat _ _ _ _ _ _ _ _ _ _ _ _ _ _ => 1 | CText _ _ _ _ _ _ _ => 2 | CAudit _ => 3 end).
