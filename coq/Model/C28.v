(** C28 — Ignore rules behave like Git's.
    Part (i): jj's own logic, lib/src/gitignore.rs — GitIgnoreFile::empty / chain (:44-85),
    matches (:124-143, newest file first, first file with a match decides, negation) — and the
    snapshot walk's use of it (lib/src/local_working_copy.rs:1566, 1644-1678: the chain grows
    by the .gitignore of every directory that is entered; an ignored directory is not entered).
    Part (ii): an executable reading of gitignore(5) as implemented by the engine jj delegates to
    (gix-ignore 0.22 parse.rs / search.rs, gix-glob 0.27 parse.rs / pattern.rs / wildmatch.rs):
    line parsing and wildmatch in pathname mode. Part (ii) is NOT proved to be Git's behaviour
    (Git's semantics is its implementation); it is validated on every run against jj and
    against `git check-ignore`. *)
From Verif Require Import Base.Prelude.
From Verif Require Export Base.FsS.
Local Open Scope N_scope.

(** * Part (ii): patterns *)

(** gix_glob::Pattern: text and mode flags. *)
Record pattern := mk_pattern {
  p_text : bytes;
  p_negative : bool;      (* Mode::NEGATIVE *)
  p_absolute : bool;      (* Mode::ABSOLUTE: leading slash *)
  p_must_be_dir : bool;   (* Mode::MUST_BE_DIR: trailing slash *)
  p_no_sub_dir : bool;    (* Mode::NO_SUB_DIR: no slash left in the text *)
}.

Definition SP := 32. Definition BANG := 33. Definition HASH := 35. Definition STAR := 42.
Definition DASH := 45. Definition SLASH := 47. Definition QMARK := 63. Definition LBRACK := 91.
Definition BSLASH := 92. Definition RBRACK := 93. Definition CARET := 94.

(** u8::is_ascii_whitespace: space, \t, \n, \x0C, \r. *)
Definition is_ws (b : N) : bool :=
  (b =? 32) || (b =? 9) || (b =? 10) || (b =? 12) || (b =? 13).

(** gix-ignore parse.rs truncate_non_escaped_trailing_spaces: [start] = Some k when the last k
    bytes seen form a run of unescaped spaces. Returns the number of trailing bytes to drop. *)
Fixpoint trailing_spaces (l : bytes) (run : N) : option N :=
  match l with
  | [] => Some run
  | b :: t =>
      if b =? SP then trailing_spaces t (run + 1)
      else if b =? BSLASH then
        match t with
        | [] => None                       (* ends with a backslash: buffer returned as is *)
        | _ :: t' => trailing_spaces t' 0  (* the escaped byte is skipped *)
        end
      else trailing_spaces t 0
  end.

Definition truncate_spaces (l : bytes) : bytes :=
  match trailing_spaces l 0 with
  | Some k => firstn (length l - N.to_nat k) l
  | None => l
  end.

Definition last_byte (l : bytes) : option N := nth_error l (length l - 1).

(** gix-glob parse.rs pattern(), may_alter = true. *)
Definition parse_glob (pat : bytes) : option pattern :=
  match pat with
  | [] => None
  | first :: rest =>
      let '(neg, pat) :=
        if first =? BANG then (true, rest)
        else if first =? BSLASH then
          match rest with
          | s :: _ => if (s =? BANG) || (s =? HASH) then (false, rest) else (false, pat)
          | [] => (false, pat)
          end
        else (false, pat) in
      if forallb is_ws pat then None
      else
        let '(abs, pat) :=
          match pat with
          | c :: r => if c =? SLASH then (true, r) else (false, pat)
          | [] => (false, pat)
          end in
        let '(dir, pat) :=
          match last_byte pat with
          | Some c => if c =? SLASH then (true, firstn (length pat - 1) pat) else (false, pat)
          | None => (false, pat)
          end in
        Some (mk_pattern pat neg abs dir (negb (existsb (N.eqb SLASH) pat)))
  end.

(** gix-ignore parse.rs Lines::next for one line (support_precious = false). *)
Definition parse_line (line : bytes) : option pattern :=
  match line with
  | [] => None
  | first :: rest =>
      if first =? HASH then None
      else
        let second := match rest with s :: _ => Some s | [] => None end in
        if (first =? BANG) && option_eqb N.eqb second (Some 36) then None
        else
          let line := if (first =? BSLASH) && option_eqb N.eqb second (Some 36) then rest else line in
          parse_glob (truncate_spaces line)
  end.

(** bstr lines(): split at LF; a CR directly before the LF is dropped with it. *)
Fixpoint split_lf (l : bytes) (cur : bytes) : list bytes :=
  match l with
  | [] => match cur with [] => [] | _ => [rev cur] end
  | b :: t =>
      if b =? 10 then
        rev (match cur with c :: r => if c =? 13 then r else cur | [] => cur end) :: split_lf t []
      else split_lf t (b :: cur)
  end.

Fixpoint filter_some {A} (l : list (option A)) : list A :=
  match l with
  | [] => []
  | Some x :: r => x :: filter_some r
  | None :: r => filter_some r
  end.

Definition parse_file (content : bytes) : list pattern :=
  filter_some (map parse_line (split_lf content [])).

(** ** wildmatch in pathname mode (NO_MATCH_SLASH_LITERAL, case sensitive) *)

Inductive token :=
| TLit (c : N)                               (* literal byte (also an escaped one) *)
| TAny                                       (* ? *)
| TStar                                      (* one star, or improper consecutive stars *)
| TStars                                     (* two or more consecutive stars, not yet classified *)
| TGlob                                      (* proper globstar: at start or after /, before / or end *)
| TClass (neg : bool) (items : list (N * N)) (* [...] as inclusive ranges *)
| TBad.                                      (* unterminated class / dangling escape: never matches *)

(** Tokenizer state: one byte per step. *)
Inductive lex_mode :=
| LNormal
| LEscape                                           (* after a backslash *)
| LClassStart                                       (* after [ *)
| LClass (neg : bool) (first : bool) (items : list (N * N)) (prev : option N)
| LClassEscape (neg : bool) (items : list (N * N)) (prev : option N)
| LClassRange (neg : bool) (items : list (N * N)) (lo : N)      (* after "lo-" *)
| LClassRangeEscape (neg : bool) (items : list (N * N)) (lo : N)
| LClassNamedStart (neg : bool) (items : list (N * N))            (* after "[" seen before ":" *)
| LClassNamed (neg : bool) (items : list (N * N)) (name : bytes)  (* after "[:", name reversed *)
| LClassNamedEnd (neg : bool) (items : list (N * N)) (name : bytes). (* after "[:name:" *)

(** Named classes as byte ranges, with gix-glob's definitions (wildmatch.rs:300-370; note that
    its [:blank:] is ASCII whitespace and its [:space:] is the space only). *)
Definition named_class (name : bytes) : option (list (N * N)) :=
  let is s := bytes_eqb name s in
  if is [97;108;110;117;109] then Some [(48,57); (65,90); (97,122)]            (* alnum *)
  else if is [97;108;112;104;97] then Some [(65,90); (97,122)]                 (* alpha *)
  else if is [98;108;97;110;107] then Some [(9,10); (12,13); (32,32)]          (* blank *)
  else if is [99;110;116;114;108] then Some [(0,31); (127,127)]                (* cntrl *)
  else if is [100;105;103;105;116] then Some [(48,57)]                         (* digit *)
  else if is [103;114;97;112;104] then Some [(33,126)]                         (* graph *)
  else if is [108;111;119;101;114] then Some [(97,122)]                        (* lower *)
  else if is [112;114;105;110;116] then Some [(32,126)]                        (* print *)
  else if is [112;117;110;99;116] then Some [(33,47); (58,64); (91,96); (123,126)] (* punct *)
  else if is [115;112;97;99;101] then Some [(32,32)]                           (* space *)
  else if is [117;112;112;101;114] then Some [(65,90)]                         (* upper *)
  else if is [120;100;105;103;105;116] then Some [(48,57); (65,70); (97,102)]  (* xdigit *)
  else None.

Definition push_star (acc : list token) : list token :=
  match acc with
  | TStar :: r => TStars :: r
  | TStars :: r => TStars :: r
  | _ => TStar :: acc
  end.

(** [acc] is reversed. Returns reversed tokens; an unfinished class or escape ends in [TBad]. *)
Fixpoint lex (l : bytes) (m : lex_mode) (acc : list token) : list token :=
  match l with
  | [] => match m with LNormal => acc | _ => TBad :: acc end
  | b :: t =>
      match m with
      | LNormal =>
          if b =? BSLASH then lex t LEscape acc
          else if b =? QMARK then lex t LNormal (TAny :: acc)
          else if b =? STAR then lex t LNormal (push_star acc)
          else if b =? LBRACK then lex t LClassStart acc
          else lex t LNormal (TLit b :: acc)
      | LEscape => lex t LNormal (TLit b :: acc)
      | LClassStart =>
          if (b =? BANG) || (b =? CARET) then lex t (LClass true true [] None) acc
          else
            (* first member of a non-negated class; handled like any first member *)
            if b =? BSLASH then lex t (LClassEscape false [] None) acc
            else if (b =? LBRACK) && match t with c :: _ => c =? 58 | [] => false end
            then lex t (LClassNamedStart false []) acc
            else lex t (LClass false false [(b, b)] (Some b)) acc
      | LClass neg first items prev =>
          if (b =? RBRACK) && negb first then lex t LNormal (TClass neg items :: acc)
          else if b =? BSLASH then lex t (LClassEscape neg items prev) acc
          else if (b =? LBRACK) && match t with c :: _ => c =? 58 | [] => false end
          then lex t (LClassNamedStart neg items) acc
          else if (b =? DASH) && negb first then
            match prev, t with
            | Some lo, nxt :: _ =>
                if nxt =? RBRACK then lex t (LClass neg false ((b, b) :: items) (Some b)) acc
                else lex t (LClassRange neg items lo) acc
            | _, _ => lex t (LClass neg false ((b, b) :: items) (Some b)) acc
            end
          else lex t (LClass neg false ((b, b) :: items) (Some b)) acc
      | LClassEscape neg items prev =>
          lex t (LClass neg false ((b, b) :: items) (Some b)) acc
      | LClassRange neg items lo =>
          if b =? BSLASH then lex t (LClassRangeEscape neg items lo) acc
          else lex t (LClass neg false ((lo, b) :: items) None) acc
      | LClassRangeEscape neg items lo =>
          lex t (LClass neg false ((lo, b) :: items) None) acc
      | LClassNamedStart neg items => lex t (LClassNamed neg items []) acc   (* the colon *)
      | LClassNamed neg items name =>
          (* well-formed named classes only: "[:" letters ":]" *)
          if b =? 58 then lex t (LClassNamedEnd neg items name) acc
          else if b =? RBRACK then TBad :: acc
          else lex t (LClassNamed neg items (b :: name)) acc
      | LClassNamedEnd neg items name =>
          if b =? RBRACK then
            match named_class (rev name) with
            | Some rs => lex t (LClass neg false (rs ++ items) None) acc
            | None => TBad :: acc
            end
          else TBad :: acc
      end
  end.

(** Classify runs of stars: a proper globstar has nothing or a slash before it and nothing or a
    slash after it; other runs count as a single star. [prev_slash]: at start or after a slash. *)
Fixpoint classify_stars (ts : list token) (prev_slash : bool) : list token :=
  match ts with
  | [] => []
  | TStars :: r =>
      let next_ok := match r with [] => true | TLit c :: _ => c =? SLASH | _ => false end in
      (if prev_slash && next_ok then TGlob else TStar) :: classify_stars r false
  | TLit c :: r => TLit c :: classify_stars r (c =? SLASH)
  | x :: r => x :: classify_stars r false
  end.

Definition tokenize (pat : bytes) : list token := classify_stars (rev (lex pat LNormal [])) true.

Definition in_class (items : list (N * N)) (c : N) : bool :=
  existsb (fun r => (fst r <=? c) && (c <=? snd r)) items.

Fixpoint wm (ts : list token) : bytes -> bool :=
  match ts with
  | [] => fun t => match t with [] => true | _ => false end
  | TLit c :: r => fun t => match t with x :: t' => (x =? c) && wm r t' | [] => false end
  | TAny :: r => fun t => match t with x :: t' => negb (x =? SLASH) && wm r t' | [] => false end
  | TClass neg items :: r =>
      fun t => match t with
               | x :: t' => negb (x =? SLASH) && negb (Bool.eqb (in_class items x) neg) && wm r t'
               | [] => false
               end
  | TStar :: r | TStars :: r =>
      (* any run of non-slash bytes *)
      fix star (t : bytes) : bool :=
        wm r t || match t with x :: t' => negb (x =? SLASH) && star t' | [] => false end
  | TGlob :: r =>
      match r with
      | [] => fun _ => true                      (* trailing globstar: everything *)
      | _ :: r' =>
          (* "**/": zero directories (skip the slash token), or any bytes and then "/..." *)
          fun t0 =>
            wm r' t0 ||
            (fix anyseq (t : bytes) : bool :=
               wm r t || match t with _ :: t' => anyseq t' | [] => false end) t0
      end
  | TBad :: _ => fun _ => false
  end.

(** The declarative reading of the token language that [wm] decides (Proofs: wm_spec). *)
Definition noslash (a : bytes) : Prop := forall x, In x a -> x <> SLASH.

Inductive Matches : list token -> bytes -> Prop :=
| M_nil : Matches [] []
| M_lit c r t : Matches r t -> Matches (TLit c :: r) (c :: t)
| M_any x r t : x <> SLASH -> Matches r t -> Matches (TAny :: r) (x :: t)
| M_class neg items x r t :
    x <> SLASH -> in_class items x = negb neg -> Matches r t ->
    Matches (TClass neg items :: r) (x :: t)
| M_star a r t : noslash a -> Matches r t -> Matches (TStar :: r) (a ++ t)
| M_stars a r t : noslash a -> Matches r t -> Matches (TStars :: r) (a ++ t)
| M_glob_end t : Matches [TGlob] t
    (* a trailing globstar matches everything *)
| M_glob_zero x r t : Matches r t -> Matches (TGlob :: x :: r) t
    (* "**/": zero directories — the token after the globstar (the slash) is skipped *)
| M_glob_any a x r t : Matches (x :: r) t -> Matches (TGlob :: x :: r) (a ++ t).
    (* "**/": any bytes, slashes included, then the rest starting at the slash *)

Definition has_bad (ts : list token) : bool :=
  existsb (fun t => match t with TBad => true | _ => false end) ts.

Definition basename (rel : bytes) : bytes :=
  (fix go (l cur : bytes) : bytes :=
     match l with
     | [] => rev cur
     | b :: t => if b =? SLASH then go t [] else go t (b :: cur)
     end) rel [].

(** Pattern::matches_repo_relative_path: [rel] is the path relative to the directory of the
    ignore file, as bytes with slashes. *)
Definition pattern_matches (p : pattern) (rel : bytes) (is_dir : bool) : bool :=
  if negb is_dir && p_must_be_dir p then false
  else
    let ts := tokenize (p_text p) in
    if has_bad ts then false
    else if p_no_sub_dir p && negb (p_absolute p) then wm ts (basename rel)
    else wm ts rel.

(** * Part (i): the chain of ignore files and the walk *)

Section Chain.
  (** Any per-pattern match function (the engine jj does not own). *)
  Context {pat : Type} (pm : pat -> path -> bool -> bool) (negative : pat -> bool).

  (** gix_ignore::Search::pattern_matching_relative_path within one list: the LAST matching
      pattern. *)
  Fixpoint last_match (pats : list pat) (rel : path) (is_dir : bool) : option pat :=
    match pats with
    | [] => None
    | p :: r =>
        match last_match r rel is_dir with
        | Some q => Some q
        | None => if pm p rel is_dir then Some p else None
        end
    end.

  (** GitIgnoreFile { parent, matcher, prefix }; [g_lists] mirrors matcher.patterns (a list of
      pattern lists: empty for GitIgnoreFile::empty(), exactly one list after chain()). *)
  Inductive gi := GI (parent : option gi) (lists : list (list pat)) (prefix : path).

  Definition gi_empty : gi := GI None [] [].

  (** GitIgnoreFile::chain (:53-85): the empty root is not kept as a parent. *)
  Definition gi_chain (self : gi) (prefix : path) (pats : list pat) : gi :=
    match self with
    | GI parent lists _ =>
        GI (match lists with [] => parent | _ => Some self end) [pats] prefix
    end.

  Fixpoint strip_prefix (pre p : path) : option path :=
    match pre, p with
    | [], _ => Some p
    | a :: pre', b :: p' => if String.eqb a b then strip_prefix pre' p' else None
    | _ :: _, [] => None
    end.

  (** Search over the lists of one file, newest list first. *)
  Fixpoint search_lists (lists : list (list pat)) (rel : path) (is_dir : bool) : option pat :=
    match lists with
    | [] => None
    | l :: r =>
        match search_lists r rel is_dir with
        | Some q => Some q
        | None => last_match l rel is_dir
        end
    end.

  (** GitIgnoreFile::matches (:124-143). *)
  Fixpoint gi_matches (g : gi) (p : path) (is_dir : bool) : bool :=
    match g with
    | GI parent lists prefix =>
        let here :=
          match strip_prefix prefix p with
          | Some (x :: r) => search_lists lists (x :: r) is_dir
          | _ => None
          end in
        match here with
        | Some m => negb (negative m)
        | None => match parent with Some g' => gi_matches g' p is_dir | None => false end
        end
    end.

  (** The ignore files on disk: directory path -> patterns of its .gitignore. *)
  Definition stack := list (path * list pat).

  (** chain_with_file (:87-102) at directory [dir]. *)
  Definition chain_with_file (st : stack) (g : gi) (dir : path) : gi :=
    match plookup dir st with
    | Some pats => gi_chain g dir pats
    | None => g
    end.

  (** The walk's decision for an untracked path [dir ++ q] (q non-empty), standing in
      directory [dir] whose chain (before its own .gitignore is added) is [g]:
      visit_directory chains the directory's file, then each entry on the way is tested with
      matches_dir and the walk stops at an ignored directory; the last component is tested as
      a file or directory. *)
  Fixpoint walk_ignored (st : stack) (g : gi) (dir q : path) (is_dir : bool) : bool :=
    match q with
    | [] => false
    | nm :: q' =>
        let g' := chain_with_file st g dir in
        match q' with
        | [] => gi_matches g' (dir ++ [nm]) is_dir
        | _ => gi_matches g' (dir ++ [nm]) true || walk_ignored st g' (dir ++ [nm]) q' is_dir
        end
    end.

  (** [base]: the patterns of the base ignore file (global excludes; SnapshotOptions::
      base_ignores), chained at the root before any .gitignore. *)
  Definition jj_ignored (st : stack) (base : list pat) (p : path) (is_dir : bool) : bool :=
    walk_ignored st (gi_chain gi_empty [] base) [] p is_dir.

  (** ** The declarative rule (gitignore(5)). The ignore files that apply to a path are those
      of its ancestor directories, deepest first, then the global excludes; the first of them
      that has a matching pattern decides, by its LAST matching pattern; a negated pattern
      re-includes. A path below an excluded directory is excluded whatever else matches. *)
  Fixpoint prefixes (acc d : path) : list path :=
    acc :: match d with [] => [] | x :: r => prefixes (acc ++ [x]) r end.

  Definition ancestor_files (st : stack) (base : list pat) (d : path) : list (path * list pat) :=
    filter_some (map (fun pre => match plookup pre st with
                                 | Some pats => Some (pre, pats)
                                 | None => None
                                 end) (rev (prefixes [] d)))
    ++ [([], base)].

  Fixpoint first_decision (files : list (path * list pat)) (p : path) (is_dir : bool)
    : option bool :=
    match files with
    | [] => None
    | (pre, pats) :: r =>
        match match strip_prefix pre p with
              | Some (x :: rel) => last_match pats (x :: rel) is_dir
              | _ => None
              end with
        | Some m => Some (negb (negative m))
        | None => first_decision r p is_dir
        end
    end.

  Definition decide (st : stack) (base : list pat) (p : path) (is_dir : bool) : bool :=
    match first_decision (ancestor_files st base (removelast p)) p is_dir with
    | Some b => b
    | None => false
    end.

  (** The ancestor directories of [d ++ q] below [d]: its proper prefixes longer than [d],
      shortest first ([ancestor_dirs p]: the proper non-empty prefixes of [p]). *)
  Fixpoint dirs_between (d q : path) : list path :=
    match q with
    | [] => []
    | nm :: q' =>
        match q' with
        | [] => []
        | _ => (d ++ [nm]) :: dirs_between (d ++ [nm]) q'
        end
    end.

  Definition ancestor_dirs (p : path) : list path := dirs_between [] p.

  Definition git_ignored (st : stack) (base : list pat) (p : path) (is_dir : bool) : bool :=
    existsb (fun q => decide st base q true) (ancestor_dirs p) || decide st base p is_dir.
End Chain.

(** * Correspondence cases *)

(** Path components are byte strings here (patterns are matched against bytes). *)
Definition join_slash (q : list bytes) : bytes :=
  match q with
  | [] => []
  | a :: r => a ++ flat_map (fun x => SLASH :: x) r
  end.

Fixpoint string_bytes (s : string) : bytes :=
  match s with
  | EmptyString => []
  | String a r => N_of_ascii a :: string_bytes r
  end.

(** The match function used for running: the path relative to the ignore file, joined. *)
Definition pm_model (p : pattern) (rel : path) (is_dir : bool) : bool :=
  pattern_matches p (join_slash (map string_bytes rel)) is_dir.

Record query := mk_query {
  q_path : path;
  q_is_dir : bool;
  q_jj : bool;        (* impl: jj treats the path as ignored (see the harness) *)
  q_git : bool;       (* git check-ignore says ignored *)
}.

Record case := mk_case {
  c_base : bytes;                  (* content of the global excludes file *)
  c_files : list (path * bytes);   (* directory -> content of its .gitignore *)
  c_queries : list query;
  c_panicked : bool;
}.

Definition model_stack (c : case) : stack (pat := pattern) :=
  map (fun e => (fst e, parse_file (snd e))) (c_files c).

(** Known-finding class [globstar-after-literal-prefix]: some pattern that is matched against
    the whole relative path has a literal prefix not ending in a slash, directly followed by two
    or more stars and then a slash or the end (e.g. "b**/c"). Git matches the literal prefix
    first and hands only the rest ("**/c") to wildmatch, where the stars then count as a proper
    globstar; gix-glob (jj) matches the whole pattern, where they are ordinary stars. *)
Definition is_glob_byte (b : N) : bool :=
  (b =? STAR) || (b =? QMARK) || (b =? LBRACK) || (b =? BSLASH).

Fixpoint after_stars (l : bytes) : bool :=
  match l with
  | [] => true
  | b :: t => if b =? STAR then after_stars t else b =? SLASH
  end.

Fixpoint quirk_text (l : bytes) (prev : option N) : bool :=
  match l with
  | [] => false
  | b :: t =>
      if is_glob_byte b then
        (b =? STAR)
        && match t with c :: t' => (c =? STAR) && after_stars t' | [] => false end
        && match prev with Some c => negb (c =? SLASH) | None => false end
      else quirk_text t (Some b)
  end.

Definition quirk (p : pattern) : bool :=
  negb (p_no_sub_dir p && negb (p_absolute p)) && quirk_text (p_text p) None.

Definition known_class (c : case) : bool :=
  existsb quirk (parse_file (c_base c))
  || existsb (fun e => existsb quirk (parse_file (snd e))) (c_files c).

(** Property on the implementation's outputs: jj and Git give the same answer. *)
Definition okb (c : case) : bool :=
  negb (c_panicked c) && forallb (fun q => Bool.eqb (q_jj q) (q_git q)) (c_queries c).

Definition check_case (c : case) : N :=
  let st := model_stack c in
  let corr :=
    negb (c_panicked c) &&
    forallb (fun q => Bool.eqb (jj_ignored pm_model p_negative st (parse_file (c_base c))
                                          (q_path q) (q_is_dir q)) (q_jj q))
            (c_queries c) in
  verdict corr (okb c) (known_class c && negb (okb c)) 1.
