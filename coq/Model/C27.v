(** C27 correspondence case and checker (Base/C27Chk.v) instantiated with the
    RESERVED_DIR_NAMES scraped from lib/src/local_working_copy.rs (Base/WcNames.v). *)
From Verif Require Export Base.Prelude Base.FsC Base.WcC Base.C27Chk Base.WcNames.

Definition okb : C27Chk.case -> bool := C27Chk.okb.
Definition check_case : C27Chk.case -> N := C27Chk.check_case_rn reserved_names.
Definition mk_case := C27Chk.mk_case.

Global Open Scope string_scope.

(** A whole sequence of set_sparse_patterns calls (the property quantifies over sequences of
    pattern sets): the results of the calls, the final disk and the final working-copy state. *)
Fixpoint set_sparse_seq (rn : list name) (f : fs) (w : wc) (ps : list (list path))
  : list result * fs * wc :=
  match ps with
  | [] => ([], f, w)
  | p :: ps' =>
      let '(o, w1) := set_sparse rn f w p in
      let '(rs, f', w') := set_sparse_seq rn (o_fs o) w1 ps' in
      (o_res o :: rs, f', w')
  end.
