(** C27 correspondence case and checker (Base/C27Chk.v) instantiated with the
    RESERVED_DIR_NAMES scraped from lib/src/local_working_copy.rs (Base/WcNames.v). *)
From Verif Require Export Base.Prelude Base.FsC Base.WcC Base.C27Chk Base.WcNames.

Definition okb : C27Chk.case -> bool := C27Chk.okb.
Definition check_case : C27Chk.case -> N := C27Chk.check_case_rn reserved_names.
Definition mk_case := C27Chk.mk_case.

Global Open Scope string_scope.

(** A whole sequence of set_sparse_patterns calls (the property quantifies over sequences of
    pattern sets): the results of the calls, the final disk and the final working-copy state. *)
Fixpoint set_sparse_seq (rn : list name) (f : fs) (w : wc) (ps : list (list path))
  : list result * fs * wc :=
  match ps with
  | [] => ([], f, w)
  | p :: ps' =>
      let '(o, w1) := set_sparse rn f w p in
      let '(rs, f', w') := set_sparse_seq rn (o_fs o) w1 ps' in
      (o_res o :: rs, f', w')
  end.

(** Sparse-pattern changes interleaved with checkouts inside one working copy. *)
Inductive wc_op := OpCheckout (t : tree) | OpSparse (ps : list path).
Fixpoint run_ops (rn : list name) (f : fs) (w : wc) (ops : list wc_op) : list result * fs * wc :=
  match ops with
  | [] => ([], f, w)
  | op :: r =>
      let '(o, w1) := match op with
                      | OpCheckout t => check_out rn f w t
                      | OpSparse ps => set_sparse rn f w ps
                      end in
      let '(rs, f', w') := run_ops rn (o_fs o) w1 r in
      (o_res o :: rs, f', w')
  end.
Fixpoint trees_of (ops : list wc_op) : list tree :=
  match ops with
  | [] => []
  | OpCheckout t :: r => t :: trees_of r
  | OpSparse _ :: r => trees_of r
  end.
Fixpoint final_tree (ops : list wc_op) (t0 : tree) : tree :=
  match ops with
  | [] => t0
  | OpCheckout t :: r => final_tree r t
  | OpSparse _ :: r => final_tree r t0
  end.
Fixpoint final_sparse (ops : list wc_op) (s0 : list path) : list path :=
  match ops with
  | [] => s0
  | OpCheckout _ :: r => final_sparse r s0
  | OpSparse ps :: r => final_sparse r ps
  end.
