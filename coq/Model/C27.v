(** C27 correspondence case and checker (Base/C27Chk.v) instantiated with the
    RESERVED_DIR_NAMES scraped from lib/src/local_working_copy.rs (Base/WcNames.v). *)
From Verif Require Export Base.Prelude Base.FsC Base.WcC Base.C27Chk Base.WcNames.

Definition okb : C27Chk.case -> bool := C27Chk.okb.
Definition check_case : C27Chk.case -> N := C27Chk.check_case_rn reserved_names.
Definition mk_case := C27Chk.mk_case.

Global Open Scope string_scope.
