(** Model of lib/src/refs.rs:108-200: [merge_ref_targets], [merge_ref_targets_non_trivial],
    [find_pair_to_remove], on top of Model/Merge.v ([trivial_merge], [flatten], [simplify]).
    A ref target ([RefTarget] = [Merge<Option<CommitId>>]) is the alternating term vector
    [list (option A)] ([None] = absent). Ancestry is an argument [ancb] (the index's
    [is_ancestor], reflexive): a Section variable for the proofs, and computed from explicit
    parent lists ([dag_ancb]) for running. Index errors ([IndexResult::Err]) are outside the
    model. Definitions only. *)
From Verif Require Import Base.Prelude Model.Merge Model.C02.

Section Refs.
  Context {A : Type} (eqb : A -> A -> bool) (ancb : A -> A -> bool).

  Definition term := option A.
  Definition target := list term.
  Definition teqb : term -> term -> bool := option_eqb eqb.
  Definition target_eqb : target -> target -> bool := list_eqb teqb.

  (** [fallible_position] (lib/src/iter_util.rs:50): index of the first element satisfying [p]. *)
  Fixpoint position {X} (p : X -> bool) (l : list X) : option nat :=
    match l with
    | [] => None
    | x :: t => if p x then Some 0%nat else option_map S (position p t)
    end.

  (** refs.rs:186-189: a remove qualifies if it is absent ("can be considered a root") or an
      ancestor of the add that is to be dropped. *)
  Definition remove_ok (add_id : A) (r : term) : bool :=
    match r with
    | Some id => ancb id add_id
    | None => true
    end.

  (** refs.rs:178-183: which of two adds is dropped (the ancestor; the first of two equal
      ones); [None] = [continue]. *)
  Definition pick (i1 : nat) (a1 : term) (i2 : nat) (a2 : term) : option (nat * A) :=
    match a1, a2 with
    | Some id1, Some id2 =>
        if eqb id1 id2 then Some (i1, id1)
        else if ancb id1 id2 then Some (i1, id1)
        else if ancb id2 id1 then Some (i2, id2)
        else None
    | _, _ => None
    end.

  (** Inner loop over [add2] = the adds after [add1] (refs.rs:175). *)
  Fixpoint find_inner (rems : list term) (i1 : nat) (a1 : term) (rest : list (nat * term))
    : option (nat * nat) :=
    match rest with
    | [] => None
    | (i2, a2) :: t =>
        match pick i1 a1 i2 a2 with
        | Some (ai, aid) =>
            match position (remove_ok aid) rems with
            | Some ri => Some (ri, ai)
            | None => find_inner rems i1 a1 t
            end
        | None => find_inner rems i1 a1 t
        end
    end.

  (** Outer loop over [add1] (refs.rs:174). *)
  Fixpoint find_outer (rems : list term) (al : list (nat * term)) : option (nat * nat) :=
    match al with
    | [] => None
    | (i1, a1) :: t =>
        match find_inner rems i1 a1 t with
        | Some p => Some p
        | None => find_outer rems t
        end
    end.

  (** [find_pair_to_remove]: [(remove_index, add_index)] in adds/removes numbering. *)
  Definition find_pair_to_remove (c : target) : option (nat * nat) :=
    find_outer (removes c) (enumerate_from 0 (adds c)).

  (** [SmallVec::swap_remove(i)]: the last element takes slot [i], the vector shrinks by one.
      (Out of range [i] panics in Rust; [find_pair_to_remove] only returns valid slots.) *)
  Definition vec_swap_remove {X} (i : nat) (l : list X) : list X :=
    match rev l with
    | [] => l
    | last :: _ => removelast (set_nth i last l)
    end.

  (** [Merge::swap_remove] (merge.rs:318-323): first the add, then the remove. *)
  Definition merge_swap_remove (ri ai : nat) (c : target) : target :=
    vec_swap_remove (2 * ri + 1) (vec_swap_remove (2 * ai) c).

  (** [merge_ref_targets_non_trivial]: the [while let] loop, fuelled. Every iteration
      removes two terms, so [length c] iterations always suffice (Proofs/C12.v). *)
  Fixpoint non_trivial (fuel : nat) (c : target) : target :=
    match fuel with
    | O => c
    | S f =>
        match find_pair_to_remove c with
        | Some (ri, ai) => non_trivial f (merge_swap_remove ri ai c)
        | None => c
        end
    end.

  (** [merge_ref_targets] (refs.rs:108-135). *)
  Definition flat_simplified (left base right : target) : target :=
    simplify teqb (flatten [left; base; right]).

  Definition merge_ref_targets (left base right : target) : target :=
    match trivial_merge target_eqb true [left; base; right] with
    | Some resolved => resolved
    | None =>
        let m := flat_simplified left base right in
        match trivial_merge teqb true m with
        | Some resolved => [resolved]
        | None => non_trivial (length m) m
        end
    end.

  (** * Boolean checker for an observed result [res] (meaning proved in Proofs/C12Checker.v). *)
  Definition tmem (t : term) (l : list term) : bool := mem teqb t l.
  Definition cnt (t : term) (l : list term) : Z := count teqb t l.

  (** Every term of [res] occurs in an input. *)
  Definition no_invention_b (l b r res : target) : bool :=
    forallb (fun t => tmem t l || tmem t b || tmem t r) res.

  (** The three rules on whole targets. *)
  Definition rules_b (l b r res : target) : bool :=
    (if target_eqb l r then target_eqb res l else true)
    && (if target_eqb l b then target_eqb res r else true)
    && (if target_eqb r b then target_eqb res l else true).
  Definition by_rule_b (l b r : target) : bool :=
    target_eqb l r || target_eqb l b || target_eqb r b.

  (** Polarity and multiplicity: an add of [res] is a net-positive value of the flattened
      input, at most as often as its net count; dually for removes. *)
  Definition polarity_b (f res : target) : bool :=
    forallb (fun t => (cnt t (adds res) <=? Z.max (den teqb f t) 0)%Z
                      && (cnt t (removes res) <=? Z.max (- den teqb f t) 0)%Z) res.

  (** [t] is an add of [res], or an ancestor of one. *)
  Definition covered_b (res : target) (t : term) : bool :=
    tmem t (adds res)
    || match t with
       | Some a => existsb (fun u => match u with Some a' => ancb a a' | None => false end) (adds res)
       | None => false
       end.
  (** No side is silently dropped: every net-positive value of the input is covered. *)
  Definition cover_b (f res : target) : bool :=
    forallb (fun t => if (0 <? den teqb f t)%Z then covered_b res t else true) f.

  (** The result is a normal form: no further pair can be removed. *)
  Definition stuck_b (res : target) : bool :=
    match find_pair_to_remove res with None => true | Some _ => false end.

  (** The cancellation rule of C02 with same-change accepted ([C02.resolves_b], whose
      meaning is [Proofs.C02.resolves_b_spec]). *)
  Definition cancels_b (f : target) (v : term) : bool := C02.resolves_b teqb true f v.

  (** A resolved result [v] is safe: cancellation leaves only [v], or every other net side is
      an ancestor of [v] and every net base is absent or an ancestor of [v]. *)
  Definition safe_resolved_b (f : target) (v : term) : bool :=
    cancels_b f v
    || match v with
       | Some a =>
           forallb (fun t =>
                      if teqb t v then true
                      else if (0 <? den teqb f t)%Z then
                        match t with Some x => ancb x a | None => false end
                      else if (den teqb f t <? 0)%Z then
                        match t with Some x => ancb x a | None => true end
                      else true) f
       | None => false
       end.

  Definition result_okb (l b r res : target) : bool :=
    let f := flatten [l; b; r] in
    Nat.odd (length res)
    && no_invention_b l b r res
    && rules_b l b r res
    && (by_rule_b l b r
        || (polarity_b f res && cover_b f res && stuck_b res
            && match res with [v] => safe_resolved_b f v | _ => true end)).
End Refs.

(** * Running: commits are numbered from 1 in creation order, 0 = absent; the DAG is the list
    of parent lists (entry [k] = parents of commit [k+1], all smaller numbers). *)
Definition dag := list (list N).
Definition parents (g : dag) (c : N) : list N :=
  match c with
  | 0%N => []
  | _ => nth (N.to_nat (N.pred c)) g []
  end.
Fixpoint anc_fuel (fuel : nat) (g : dag) (a d : N) : bool :=
  N.eqb a d ||
  match fuel with
  | O => false
  | S f => existsb (fun p => anc_fuel f g a p) (parents g d)
  end.
(** [is_ancestor(a, d)] (reflexive). Parents have smaller numbers, so depth <= number. *)
Definition dag_ancb (g : dag) (a d : N) : bool := anc_fuel (N.to_nat d) g a d.

(** Well-formedness of the case's DAG (parents are earlier commits): generator invariant,
    checked on every case; under it [dag_ancb] is reflexive, transitive and antisymmetric
    and coincides with reachability along parent edges (Proofs/C12Dag.v). *)
Fixpoint wf_from (k : N) (g : dag) : bool :=
  match g with
  | [] => true
  | ps :: t => forallb (fun p => N.ltb 0 p && N.ltb p k) ps && wf_from (N.succ k) t
  end.
Definition wf_dagb (g : dag) : bool := wf_from 1 g.

Definition to_term (n : N) : option N := if N.eqb n 0 then None else Some n.
Definition of_term (t : option N) : N := match t with None => 0%N | Some n => n end.

Record case := mk_case {
  c_dag : dag;               (* parent lists *)
  c_left : list N;           (* terms of left.as_merge(), 0 = absent *)
  c_base : list N;
  c_right : list N;
  c_result : list N;         (* impl: merge_ref_targets(index, left, base, right) *)
  c_failed : bool;           (* impl panicked or returned Err *)
}.

Definition okb (c : case) : bool :=
  negb (c_failed c)
  && result_okb N.eqb (dag_ancb (c_dag c))
       (map to_term (c_left c)) (map to_term (c_base c)) (map to_term (c_right c))
       (map to_term (c_result c)).

Definition check_case (c : case) : N :=
  let model := merge_ref_targets N.eqb (dag_ancb (c_dag c))
                 (map to_term (c_left c)) (map to_term (c_base c)) (map to_term (c_right c)) in
  let corr := wf_dagb (c_dag c) && negb (c_failed c)
              && list_eqb N.eqb (map of_term model) (c_result c) in
  verdict corr (okb c) false 1.
