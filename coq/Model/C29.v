(** C29 — Line-ending conversion round-trips normalized content.
    Model of lib/src/eol.rs: is_binary (:23-38), TargetEolStrategy::PROBE_LIMIT (:58),
    probe_for_binary (:64-83), convert_eol_for_snapshot (:85-104), convert_eol_for_update
    (:106-125), convert_eol (:157-191). The probe window length is a parameter [L] of the
    definitions; the instance used for running is the source constant from Gen/Tables.v. *)
From Verif Require Import Base.Prelude Gen.Tables.
Local Open Scope N_scope.

(** is_binary: a NUL, or a CR that is not directly followed by LF (a CR at the very end of the
    examined slice counts as lone). *)
Fixpoint is_binary (l : bytes) : bool :=
  match l with
  | [] => false
  | b :: t =>
      if b =? 0 then true
      else if b =? 13 then
        match t with
        | n :: _ => if n =? 10 then is_binary t else true
        | [] => true
        end
      else is_binary t
  end.

(** probe_for_binary: read at most [L] bytes; if the byte at index L-1 is CR (a CRLF possibly
    cut by the window) drop it; classify the rest. *)
Definition probe (L : nat) (c : bytes) : bool :=
  let peek := firstn L c in
  let slice :=
    match nth_error peek (L - 1) with
    | Some b => if b =? 13 then firstn (L - 1) peek else peek
    | None => peek
    end in
  is_binary slice.

(** bstr's lines_with_terminator: split after every LF; the last line may lack one. *)
Fixpoint split_lines (l : bytes) : list bytes :=
  match l with
  | [] => []
  | b :: t =>
      if b =? 10 then [b] :: split_lines t
      else match split_lines t with
           | [] => [[b]]
           | ln :: r => (b :: ln) :: r
           end
  end.

(** Linear-time list reversal (the library's [rev] is quadratic; 8 KiB single-line contents
    are evaluated by the correspondence check). *)
Definition lrev (l : bytes) : bytes := rev_append l [].

(** trim_last_eol: strip_suffix "\r\n", else strip_suffix "\n". *)
Definition trim_last_eol (line : bytes) : option bytes :=
  match lrev line with
  | a :: r =>
      if a =? 10 then
        match r with
        | b :: r' => if b =? 13 then Some (lrev r') else Some (lrev r)
        | [] => Some []
        end
      else None
  | [] => None
  end.

Inductive target_eol := TLf | TCrlf | TPassThrough.

Definition conv_line (eol : bytes) (line : bytes) : bytes :=
  match trim_last_eol line with
  | Some body => body ++ eol
  | None => line
  end.

Definition convert_eol (t : target_eol) (c : bytes) : bytes :=
  match t with
  | TPassThrough => c
  | TLf => flat_map (conv_line [10]) (split_lines c)
  | TCrlf => flat_map (conv_line [13; 10]) (split_lines c)
  end.

Inductive mode := MNone | MInput | MInputOutput.

Definition for_snapshot (L : nat) (m : mode) (c : bytes) : bytes :=
  match m with
  | MNone => c
  | MInput | MInputOutput => convert_eol (if probe L c then TPassThrough else TLf) c
  end.

Definition for_update (L : nat) (m : mode) (c : bytes) : bytes :=
  match m with
  | MNone | MInput => c
  | MInputOutput => convert_eol (if probe L c then TPassThrough else TCrlf) c
  end.

(** The source constant: [const PROBE_LIMIT: u64 = 8 << 10]. *)
Definition probe_limit_N : N := EOL_PROBE_LIMIT_BASE * 2 ^ EOL_PROBE_LIMIT_SHIFT.
Definition probe_limit : nat := N.to_nat probe_limit_N.

(** ** Vocabulary of the statements *)

(** The content contains the two-byte sequence CR LF somewhere. *)
Fixpoint has_crlf (l : bytes) : bool :=
  match l with
  | [] => false
  | b :: t =>
      ((b =? 13) && match t with n :: _ => n =? 10 | [] => false end) || has_crlf t
  end.

(** Some LF is not directly preceded by CR ([prev_cr]: the byte before [l] was a CR). *)
Fixpoint lone_lf (prev_cr : bool) (l : bytes) : bool :=
  match l with
  | [] => false
  | b :: t => ((b =? 10) && negb prev_cr) || lone_lf (b =? 13) t
  end.

(** ** Correspondence cases *)

(** Run-length decoding, so that the few 8 KiB cases stay small terms. *)
Definition rle (segs : list (N * N)) : bytes :=
  flat_map (fun s => repeat (fst s) (N.to_nat (snd s))) segs.

Inductive kind :=
| KStored   (* input = stored file content; checked out, then snapshotted again *)
| KDisk.    (* input = bytes written to a new file in the working copy, then snapshotted *)

Record case := mk_case {
  c_mode : mode;
  c_kind : kind;
  c_input : bytes;
  c_disk : bytes;      (* impl: file on disk after checkout (KStored); = input for KDisk *)
  c_stored : bytes;    (* impl: file content in the store after the snapshot *)
  c_panicked : bool;
}.

Definition okb_at (L : nat) (c : case) : bool :=
  negb (c_panicked c) &&
  match c_kind c with
  | KStored =>
      (* checkout writes stored bytes verbatim unless the mode is input-output *)
      (match c_mode c with
       | MInputOutput => true
       | _ => bytes_eqb (c_disk c) (c_input c)
       end)
      &&
      (* normalized content comes back identical; text gets CRLF endings only, binary is
         written untouched *)
      (has_crlf (c_input c)
       || (bytes_eqb (c_stored c) (c_input c)
           && match c_mode c with
              | MInputOutput =>
                  if probe L (c_input c) then bytes_eqb (c_disk c) (c_input c)
                  else negb (lone_lf false (c_disk c))
              | _ => true
              end))
  | KDisk =>
      (* snapshot direction: binary-classified and mode-none contents are stored untouched *)
      (match c_mode c with
       | MNone => bytes_eqb (c_stored c) (c_input c)
       | _ => negb (probe L (c_input c)) || bytes_eqb (c_stored c) (c_input c)
       end)
  end.

Definition okb (c : case) : bool := okb_at probe_limit c.

Definition check_case (c : case) : N :=
  let L := probe_limit in
  let corr :=
    negb (c_panicked c) &&
    match c_kind c with
    | KStored =>
        bytes_eqb (for_update L (c_mode c) (c_input c)) (c_disk c)
        && bytes_eqb (for_snapshot L (c_mode c) (c_disk c)) (c_stored c)
    | KDisk =>
        bytes_eqb (c_disk c) (c_input c)
        && bytes_eqb (for_snapshot L (c_mode c) (c_input c)) (c_stored c)
    end in
  verdict corr (okb c) false 1.
