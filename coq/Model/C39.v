(** C39 — reference model of the log graph walk
    (lib/src/default_index/revset_graph_iterator.rs RevsetGraphWalk) over a [DagI.graph].

    The look-ahead / min_position / edge-cache machinery is abstracted to what it computes:
    the walk emits the shown positions in descending order; a shown commit's edges are, per
    parent in order: Direct if the parent is shown, else the parent's external edges (nearest
    shown ancestors as Indirect, or Missing), de-duplicated by first occurrence among
    external-derived edges (:188-192, :253-257); an external commit whose edges are all
    missing (or that has none) contributes a single Missing edge to itself (:169, :185, :225,
    :250; the [parent_position < min_position] shortcut :230/:259 is that same case); with
    [skip_transitive_edges] a non-missing edge is dropped when its target is a strict
    ancestor of another non-missing target of the same list, provided the list has an
    Indirect edge (:284-337). Single-parent commits take the parent's list unchanged
    (:161-174, :217-238). Definitions only. *)
From Verif Require Import Base.Prelude Base.DagI.

Inductive ekind := Direct | Indirect | Missing.       (* graph.rs:81 GraphEdgeType *)
Definition edge := (nat * ekind)%type.                (* (target position, type) *)

Definition ekind_eqb (a b : ekind) : bool :=
  match a, b with
  | Direct, Direct | Indirect, Indirect | Missing, Missing => true
  | _, _ => false
  end.
Definition is_missing (e : edge) : bool := ekind_eqb (snd e) Missing.
Definition is_indirect (e : edge) : bool := ekind_eqb (snd e) Indirect.

Section Walk.
  Variable g : graph.
  Variable t : list N.                (* ancsets g *)
  Variable shown : list nat.          (* the input set *)
  Variable skip : bool.               (* skip_transitive_edges *)

  Definition is_shown (x : nat) : bool := memn x shown.

  (** edges.extend(parent_edges.iter().filter(|e| !known_ancestors.get_set(e.target))) *)
  Fixpoint extend_known (known : list nat) (es : list edge) : list nat * list edge :=
    match es with
    | [] => (known, [])
    | e :: r =>
      if memn (fst e) known then extend_known known r
      else let '(k', kept) := extend_known (fst e :: known) r in (k', e :: kept)
    end.

  (** remove_transitive_edges (:284) *)
  Definition remove_transitive (es : list edge) : list edge :=
    if existsb is_indirect es then
      filter (fun e => is_missing e ||
                negb (existsb (fun e' => negb (is_missing e') && negb (fst e' =? fst e)%nat
                                         && ancb_t t (fst e) (fst e')) es)) es
    else es.

  (** edges of a commit with parents [ps], given the external-edge table of all smaller
      positions; [kind] = Direct for a shown commit (:155), Indirect for an external one
      (:203). *)
  Definition parent_edges (kind : ekind) (tbl : list (list edge)) (p : nat) : list edge :=
    if is_shown p then [(p, kind)]
    else let pe := nth p tbl [] in
         if forallb is_missing pe then [(p, Missing)] else pe.
  Definition edges_of (kind : ekind) (tbl : list (list edge)) (ps : list nat) : list edge :=
    match ps with
    | [p] => parent_edges kind tbl p
    | _ =>
      let step (st : list nat * list edge) (p : nat) :=
        let '(known, acc) := st in
        if is_shown p then (known, acc ++ [(p, kind)])
        else let pe := nth p tbl [] in
             if forallb is_missing pe then (known, acc ++ [(p, Missing)])
             else let '(k', kept) := extend_known known pe in (k', acc ++ kept) in
      let es := snd (fold_left step ps ([], [])) in
      if skip then remove_transitive es else es
    end.

  (** the table of external edges, one entry per position, built in index order *)
  Definition ext_tbl : list (list edge) :=
    fold_left (fun tbl ps => tbl ++ [edges_of Indirect tbl ps]) g [].

  Definition node_edges (x : nat) : list edge := edges_of Direct ext_tbl (parents g x).

  (** the stream: shown positions, descending, each with its edges *)
  Definition graph_walk : list (nat * list edge) :=
    map (fun x => (x, node_edges x))
        (filter is_shown (rev (seq 0 (length g)))).
End Walk.

(** ** checker on the implementation's stream (meaning: Proofs/C39.v) *)
Section Checker.
  Variable g : graph.
  Variable t : list N.
  Variable shown : list nat.
  Variable stream : list (nat * list edge).

  Definition shownb (x : nat) : bool := memn x shown.
  Definition edges_at (x : nat) : list edge :=
    match find (fun n => (fst n =? x)%nat) stream with Some n => snd n | None => [] end.

  (** nodes: exactly the shown positions, strictly descending *)
  Fixpoint sdescb (l : list nat) : bool :=
    match l with
    | x :: ((y :: _) as r) => (y <? x)%nat && sdescb r
    | _ => true
    end.
  Definition order_ok : bool :=
    let ns := map fst stream in
    sdescb ns && forallb shownb ns && forallb (fun x => memn x ns) (filter (fun x => (x <? length g)%nat) shown).

  (** [a] is reachable from [x] through unshown commits only (at least one), walking down
      from the parents of [x]: closure over positions below [x], computed top down *)
  Definition unshown_reach (x : nat) : list nat :=
    (* positions reachable from x via a parent step followed by steps out of unshown commits *)
    fold_left (fun acc y =>
                 if memn y acc && negb (shownb y) then parents g y ++ acc else acc)
              (rev (seq 0 x)) (parents g x).

  Definition edge_ok (x : nat) (e : edge) : bool :=
    let '(a, k) := e in
    match k with
    | Direct => memn a (parents g x) && shownb a
    | Indirect => shownb a
                  && existsb (fun p => negb (shownb p) && memn a (unshown_reach p)) (parents g x)
    | Missing => negb (shownb a)
                 && (memn a (parents g x)
                     || existsb (fun p => negb (shownb p) && memn a (unshown_reach p)) (parents g x))
                 && negb (existsb (fun y => shownb y && ancb_t t y a) (seq 0 (S a)))
    end.

  (** ancestry among shown commits = reachability through emitted non-missing edges *)
  Definition reach_tbl : list N :=
    (* bit set per position: shown positions reachable from it via non-missing edges *)
    fold_left (fun tbl x =>
                 tbl ++ [fold_left (fun acc e => N.lor acc (nth (fst e) tbl 0%N))
                                   (filter (fun e => negb (is_missing e)) (edges_at x))
                                   (N.setbit 0 (N.of_nat x))])
              (seq 0 (length g)) [].
  Definition ancestry_ok : bool :=
    let rt := reach_tbl in
    forallb (fun x => forallb (fun y => Bool.eqb (ancb_t t y x)
                                          (N.testbit (nth x rt 0%N) (N.of_nat y)))
                              (filter shownb (seq 0 (S x))))
            (filter shownb (seq 0 (length g))).

  Definition stream_ok : bool :=
    order_ok && forallb (fun n => forallb (edge_ok (fst n)) (snd n)) stream && ancestry_ok.
End Checker.

(** ** the adapters of lib/src/graph.rs used by `jj log` on top of the stream: checked as
    properties of their real output (no model of their mechanics) *)
Definition stream_t := list (nat * list edge).
(** graph.rs:133 TopoGroupedGraph: the same nodes with the same edges, re-ordered so that a
    node still comes before every node one of its non-missing edges points to *)
Definition node_eqb0 (a b : nat * list edge) : bool :=
  (fst a =? fst b)%nat &&
  list_eqb (fun e e' => (fst e =? fst e')%nat && ekind_eqb (snd e) (snd e')) (snd a) (snd b).
Fixpoint order_respects_edges (seen : list nat) (l : stream_t) : bool :=
  match l with
  | [] => true
  | (x, es) :: r =>
    negb (memn x seen) &&
    forallb (fun e => is_missing e || negb (memn (fst e) seen)) es &&
    order_respects_edges (x :: seen) r
  end.
Definition topo_ok (stream topo : stream_t) : bool :=
  (length topo =? length stream)%nat &&
  forallb (fun nd => existsb (node_eqb0 nd) stream) topo &&
  order_respects_edges [] topo.
(** graph.rs:192 prioritize_branch: the branch containing the given node comes first - the
    first emitted node is that node or one of its descendants (it reaches the node through
    emitted non-missing edges) *)
Definition prio_ok (g : graph) (stream out : stream_t) (x : nat) : bool :=
  match out with
  | (h, _) :: _ => N.testbit (nth h (reach_tbl g stream) 0%N) (N.of_nat x)
  | [] => false
  end.
(** graph.rs:95 reverse_graph: nodes in reverse order, every edge between two nodes turned
    around (edges leaving the node set have no reversed counterpart) *)
Definition edge_triples (l : stream_t) : list (nat * nat * ekind) :=
  flat_map (fun nd => map (fun e => (fst nd, fst e, snd e)) (snd nd)) l.
Definition triple_eqb (a b : nat * nat * ekind) : bool :=
  (fst (fst a) =? fst (fst b))%nat && (snd (fst a) =? snd (fst b))%nat && ekind_eqb (snd a) (snd b).
Definition reverse_ok (stream rv : stream_t) : bool :=
  let nodes := map fst stream in
  let fwd := filter (fun tr => memn (snd (fst tr)) nodes) (edge_triples stream) in
  let bwd := map (fun tr => (snd (fst tr), fst (fst tr), snd tr)) (edge_triples rv) in
  list_eqb Nat.eqb (map fst rv) (rev nodes) &&
  (length fwd =? length bwd)%nat &&
  forallb (fun tr => existsb (triple_eqb tr) bwd) fwd &&
  forallb (fun tr => existsb (triple_eqb tr) fwd) bwd.

(** ** correspondence case *)
Record walk := mk_walk {
  w_shown : list nat;                     (* positions of the input set *)
  w_skip : bool;                          (* skip_transitive_edges *)
  w_stream : list (nat * list edge);      (* impl: (node, [(target, type)]) in emission order *)
  w_topo : option stream_t;               (* impl: TopoGroupedGraph over that stream *)
  w_rev : option stream_t;                (* impl: reverse_graph of that stream *)
  w_prio : option (nat * stream_t);       (* impl: TopoGroupedGraph with prioritize_branch(node) *)
}.
Record case := mk_case {
  c_graph : graph;
  c_walks : list walk;
  c_panicked : bool;
}.

Definition edge_eqb (a b : edge) : bool := (fst a =? fst b)%nat && ekind_eqb (snd a) (snd b).
Definition node_eqb (a b : nat * list edge) : bool :=
  (fst a =? fst b)%nat && list_eqb edge_eqb (snd a) (snd b).

Definition okb (c : case) : bool :=
  let g := c_graph c in let t := ancsets g in
  negb (c_panicked c) && wfb g &&
  forallb (fun w => stream_ok g t (w_shown w) (w_stream w) &&
                    match w_topo w with Some tp => topo_ok (w_stream w) tp | None => true end &&
                    match w_rev w with Some rv => reverse_ok (w_stream w) rv | None => true end &&
                    match w_prio w with
                    | Some (x, out) => topo_ok (w_stream w) out && prio_ok g (w_stream w) out x
                    | None => true
                    end)
          (c_walks c).

Definition check_case (c : case) : N :=
  let g := c_graph c in let t := ancsets g in
  let corr := negb (c_panicked c) &&
              forallb (fun w => list_eqb node_eqb (graph_walk g t (w_shown w) (w_skip w)) (w_stream w))
                      (c_walks c) in
  verdict corr (okb c) false 1.
