(** C20 — model of id prefix lookup:
    lib/src/default_index/composite.rs:187-291 (per-segment sorted tables reduced over the
    segment stack: resolve_neighbor_*_ids, shortest_unique_*_prefix_len,
    resolve_commit_id_prefix with PrefixResolution::plus, resolve_change_id_prefix with
    merging of equal ids), readonly.rs:857-895 / mutable.rs resolve_neighbor_ids,
    resolve_id_prefix (predecessor / successor, lower bound + take_while matches),
    core/src/hex_util.rs:104 common_hex_len, lib/src/id_prefix.rs (IdIndex of the
    disambiguation set, two-level IdPrefixIndex, disambiguate_prefix_with_refs).

    Ids are lists of hex digits (all ids of one kind have the same length); a prefix is a
    list of hex digits; byte-wise lexicographic order on ids = digit-wise order here.
    Definitions only. *)
From Verif Require Import Base.Prelude Base.DagI.

Definition id := list nat.                    (* hex digits *)
(** case files write ids as strings of hex digits *)
Fixpoint dg (s : string) : id :=
  match s with
  | EmptyString => []
  | String c r => N.to_nat (hexval c) :: dg r
  end.

Fixpoint id_eqb (a b : id) : bool :=
  match a, b with
  | [], [] => true
  | x :: a', y :: b' => (x =? y)%nat && id_eqb a' b'
  | _, _ => false
  end.
(** lexicographic; a proper prefix is smaller (slice ordering) *)
Fixpoint id_ltb (a b : id) : bool :=
  match a, b with
  | _, [] => false
  | [], _ :: _ => true
  | x :: a', y :: b' => (x <? y)%nat || ((x =? y)%nat && id_ltb a' b')
  end.
(** hex_util.rs:104 common_hex_len *)
Fixpoint common_len (a b : id) : nat :=
  match a, b with
  | x :: a', y :: b' => if (x =? y)%nat then S (common_len a' b') else 0
  | _, _ => 0
  end.
(** object_id.rs:218 HexPrefix::matches *)
Fixpoint matches (pfx a : id) : bool :=
  match pfx, a with
  | [], _ => true
  | x :: p', y :: a' => (x =? y)%nat && matches p' a'
  | _ :: _, [] => false
  end.
(** HexPrefix::min_prefix_bytes as digits: an odd prefix is padded with a zero digit *)
Definition min_prefix (pfx : id) : id := if Nat.odd (length pfx) then pfx ++ [0] else pfx.

Inductive resolution (T : Type) :=             (* object_id.rs:241 PrefixResolution *)
| NoMatch | SingleMatch (x : T) | AmbiguousMatch.
Arguments NoMatch {T}. Arguments SingleMatch {T} x. Arguments AmbiguousMatch {T}.

(** ** one segment: a sorted table of distinct keys with a payload *)
Section Segment.
  Context {V : Type}.
  Definition table := list (id * V).            (* ascending by key *)

  (** readonly.rs:865 neighbors / mutable.rs resolve_neighbor_ids: greatest key below,
      smallest key above *)
  Fixpoint seg_prev (k : id) (tb : table) (best : option id) : option id :=
    match tb with
    | [] => best
    | (k', _) :: r => if id_ltb k' k then seg_prev k r (Some k') else best
    end.
  Fixpoint seg_next (k : id) (tb : table) : option id :=
    match tb with
    | [] => None
    | (k', _) :: r => if id_ltb k k' then Some k' else seg_next k r
    end.
  (** lower bound of min_prefix_bytes, then take_while prefix.matches (readonly.rs:880
      prefix_matches, mutable.rs resolve_id_prefix) *)
  Fixpoint drop_below (m : id) (tb : table) : table :=
    match tb with
    | [] => []
    | (k', v) :: r => if id_ltb k' m then drop_below m r else tb
    end.
  Fixpoint take_matching (pfx : id) (tb : table) : table :=
    match tb with
    | [] => []
    | (k', v) :: r => if matches pfx k' then (k', v) :: take_matching pfx r else []
    end.
  Definition seg_resolve (pfx : id) (tb : table) : resolution (id * V) :=
    match take_matching pfx (drop_below (min_prefix pfx) tb) with
    | [] => NoMatch
    | [e] => SingleMatch e
    | _ :: _ :: _ => AmbiguousMatch
    end.
End Segment.

(** ** the segment stack (newest segment first, composite.rs:146 ancestor_index_segments) *)
Definition opt_max (a b : option id) : option id :=   (* acc.into_iter().chain(x).max() *)
  match a, b with
  | None, x | x, None => x
  | Some x, Some y => Some (if id_ltb x y then y else x)
  end.
Definition opt_min (a b : option id) : option id :=
  match a, b with
  | None, x | x, None => x
  | Some x, Some y => Some (if id_ltb y x then y else x)
  end.

Section Stack.
  Context {V : Type}.
  Definition neighbors (k : id) (segs : list (@table V)) : option id * option id :=
    fold_left (fun acc tb => (opt_max (fst acc) (seg_prev k tb None), opt_min (snd acc) (seg_next k tb)))
              segs (None, None).
  (** composite.rs:205 / :232 shortest_unique_*_prefix_len *)
  Definition shortest_len (k : id) (segs : list (@table V)) : nat :=
    let '(p, nx) := neighbors k segs in
    let l1 := match p with Some x => S (common_len k x) | None => 0 end in
    let l2 := match nx with Some x => S (common_len k x) | None => 0 end in
    Nat.max l1 l2.
End Stack.

(** composite.rs:187 resolve_commit_id_prefix: fold with plus, stop at AmbiguousMatch *)
Definition plus {T} (a b : resolution T) : resolution T :=
  match a, b with
  | NoMatch, x => x
  | x, NoMatch => x
  | _, _ => AmbiguousMatch
  end.
Definition resolve_commit (pfx : id) (segs : list (@table unit)) : resolution id :=
  fold_left (fun acc tb =>
               match acc with
               | AmbiguousMatch => acc
               | _ => plus acc (match seg_resolve pfx tb with
                                | NoMatch => NoMatch
                                | SingleMatch e => SingleMatch (fst e)
                                | AmbiguousMatch => AmbiguousMatch
                                end)
               end) segs NoMatch.

(** composite.rs:262 resolve_change_id_prefix: like plus, but matches of the same id are
    merged; a segment lists its positions ascending, the result is descending overall
    (payload: global positions, ascending within a segment) *)
Definition resolve_change (pfx : id) (segs : list (@table (list nat))) : resolution (id * list nat) :=
  fold_left (fun acc tb =>
               match acc with
               | AmbiguousMatch => acc
               | _ =>
                 match acc, seg_resolve pfx tb with
                 | NoMatch, NoMatch => NoMatch
                 | NoMatch, SingleMatch (k, ps) => SingleMatch (k, rev ps)
                 | a, NoMatch => a
                 | _, AmbiguousMatch => AmbiguousMatch
                 | SingleMatch (k1, ps1), SingleMatch (k2, ps2) =>
                     if id_eqb k1 k2 then SingleMatch (k1, ps1 ++ rev ps2) else AmbiguousMatch
                 | AmbiguousMatch, _ => AmbiguousMatch
                 end
               end) segs NoMatch.

(** ** IdIndex of the disambiguation set (id_prefix.rs:355-557), by what it computes: the
    entries are (key, pointer) pairs sorted by short key; results do not depend on the order
    inside a chunk of equal short keys, so the model takes the entries sorted by full key *)
Definition set_resolve (pfx : id) (keys : list id) : resolution id :=
  match pfx with
  | [] => AmbiguousMatch                     (* :420 an empty prefix is ambiguous *)
  | _ =>
    match filter (matches pfx) keys with
    | [] => NoMatch
    | k :: r => if forallb (id_eqb k) r then SingleMatch k else AmbiguousMatch
    end
  end.
Definition set_has (k : id) (keys : list id) : bool := existsb (id_eqb k) keys.
(** :520 IdIndexLookup::shortest_unique_prefix_len: all other keys, at least one digit *)
Definition set_shortest (k : id) (keys : list id) : nat :=
  fold_left (fun m k' => if id_eqb k' k then m else Nat.max m (S (common_len k' k))) keys 1.

(** ** two-level IdPrefixIndex (id_prefix.rs:161-220) for commit ids *)
Definition resolve_commit2 (dis : option (list id)) (pfx : id) (segs : list (@table unit))
    : resolution id :=
  let fallback := resolve_commit pfx segs in
  match dis with
  | None => fallback
  | Some keys =>
    match set_resolve pfx keys with
    | NoMatch => fallback
    | SingleMatch k =>
        (* the set may come from another repo: has_id *)
        if existsb (fun tb => existsb (fun e => id_eqb (fst e) k) tb) segs
        then SingleMatch k else NoMatch
    | AmbiguousMatch => AmbiguousMatch
    end
  end.
Definition shortest_commit2 (dis : option (list id)) (k : id) (segs : list (@table unit)) : nat :=
  match dis with
  | Some keys => if set_has k keys then set_shortest k keys else shortest_len k segs
  | None => shortest_len k segs
  end.
(** ... and for change ids (id_prefix.rs:222-290): the set's change ids first; a match is
    then resolved in the repo by its full id (resolve_change_id) *)
Definition resolve_change2 (dis : option (list id)) (pfx : id) (segs : list (@table (list nat)))
    : resolution (id * list nat) :=
  let fallback := resolve_change pfx segs in
  match dis with
  | None => fallback
  | Some keys =>
    match set_resolve pfx keys with
    | NoMatch => fallback
    | SingleMatch k => match resolve_change k segs with
                       | SingleMatch r => SingleMatch r
                       | _ => NoMatch
                       end
    | AmbiguousMatch => AmbiguousMatch
    end
  end.
Definition shortest_change2 (dis : option (list id)) (k : id) (segs : list (@table (list nat))) : nat :=
  match dis with
  | Some keys => if set_has k keys then set_shortest k keys else shortest_len k segs
  | None => shortest_len k segs
  end.
(** id_prefix.rs:299 disambiguate_prefix_with_refs: lengthen while the prefix is a bookmark
    or tag name *)
Fixpoint refs_len_from (fuel n : nat) (k : id) (names : list id) : nat :=
  match fuel with
  | O => length k
  | S f => if (length k <=? n)%nat then length k
           else if existsb (id_eqb (firstn n k)) names then refs_len_from f (S n) k names
           else n
  end.
Definition disambiguate_with_refs (k : id) (names : list id) (min_len : nat) : nat :=
  refs_len_from (S (length k)) min_len k names.

(** ** correspondence case *)
Inductive res :=                      (* a resolution with ids / id + positions as data *)
| RNo | RAmb | ROne (k : id) (ps : list nat).

Inductive query :=
| QShortCommit (k : id) (len : nat)                     (* Index::shortest_unique_commit_id_prefix_len *)
| QResCommit (pfx : id) (r : res)                       (* Index::resolve_commit_id_prefix *)
| QShortChange (k : id) (len : nat)                     (* Repo::shortest_unique_change_id_prefix_len *)
| QResChange (pfx : id) (r : res) (vis : list bool)     (* change prefix -> change id, positions desc, Visible? *)
| QShortCommit2 (k : id) (len : nat)                    (* IdPrefixIndex::shortest_commit_prefix_len_exact *)
| QResCommit2 (pfx : id) (r : res)                      (* IdPrefixIndex::resolve_commit_prefix *)
| QRefsLen (k : id) (min_len len : nat)                 (* shortest_commit_prefix_len incl. refs *)
| QRefsLenChange (k : id) (len : nat)                   (* shortest_change_prefix_len incl. refs *)
| QShortChange2 (k : id) (len : nat)                    (* IdPrefixIndex::shortest_change_prefix_len *)
| QResChange2 (pfx : id) (r : res).                     (* IdPrefixIndex::resolve_change_prefix *)

Record case := mk_case {
  (* one entry per index segment, newest first; a segment lists (commit id, change id) by
     local position, with the segment's first global position *)
  c_segs : list (nat * list (id * id));
  c_graph : graph;                      (* parent positions of every indexed commit *)
  c_heads : list nat;                   (* positions of the view's heads *)
  c_dis : option (list id);             (* commit ids of the disambiguation set *)
  c_dis_changes : option (list id);     (* the change ids of those commits (with repetitions) *)
  (* names of local bookmarks and tags whose target is not absent (normal or conflicted), that
     read as hex prefixes / as reverse-hex prefixes (given here as the hex digits they denote) *)
  c_names : list id;
  c_change_names : list id;
  c_queries : list query;
  c_panicked : bool;
}.

(** sorted tables from the position-ordered entries *)
Fixpoint insert_key {V} (k : id) (v : V) (merge : V -> V -> V) (tb : @table V) : @table V :=
  match tb with
  | [] => [(k, v)]
  | (k', v') :: r =>
    if id_ltb k k' then (k, v) :: tb
    else if id_eqb k k' then (k', merge v' v) :: r
    else (k', v') :: insert_key k v merge r
  end.
Definition commit_table (seg : nat * list (id * id)) : @table unit :=
  fold_left (fun tb e => insert_key (fst e) tt (fun a _ => a) tb) (snd seg) [].
Definition change_table (seg : nat * list (id * id)) : @table (list nat) :=
  snd (fold_left (fun st e => (S (fst st), insert_key (snd e) [fst st] (@app nat) (snd st)))
                 (snd seg) (fst seg, [])).

Definition lnat_eqb := list_eqb Nat.eqb.
(** composite.rs:296 resolve_change_targets_for_positions: a target is Visible iff it is
    reachable from the view's heads (AncestorsBitSet), i.e. an ancestor of a head *)
Definition visible_at (c : case) (p : nat) : bool := anc_any (c_graph c) (c_heads c) p.
Definition res_of_commit (r : resolution id) : res :=
  match r with NoMatch => RNo | AmbiguousMatch => RAmb | SingleMatch k => ROne k [] end.
Definition res_of_change (r : resolution (id * list nat)) : res :=
  match r with NoMatch => RNo | AmbiguousMatch => RAmb | SingleMatch (k, ps) => ROne k ps end.
Definition res_eqb (a b : res) : bool :=
  match a, b with
  | RNo, RNo | RAmb, RAmb => true
  | ROne k ps, ROne k' ps' => id_eqb k k' && lnat_eqb ps ps'
  | _, _ => false
  end.

Definition query_corr (c : case) (cs : list (@table unit)) (hs : list (@table (list nat)))
    (q : query) : bool :=
  match q with
  | QShortCommit k len => (shortest_len k cs =? len)%nat
  | QResCommit pfx r => res_eqb (res_of_commit (resolve_commit pfx cs)) r
  | QShortChange k len => (shortest_len k hs =? len)%nat
  | QResChange pfx r vis =>
      res_eqb (res_of_change (resolve_change pfx hs)) r &&
      match r with
      | ROne _ ps => list_eqb Bool.eqb vis (map (visible_at c) ps)
      | _ => match vis with [] => true | _ => false end
      end
  | QShortCommit2 k len => (shortest_commit2 (c_dis c) k cs =? len)%nat
  | QResCommit2 pfx r => res_eqb (res_of_commit (resolve_commit2 (c_dis c) pfx cs)) r
  | QRefsLen k m len => (disambiguate_with_refs k (c_names c) m =? len)%nat
  | QRefsLenChange k len =>
      (disambiguate_with_refs k (c_change_names c) (shortest_change2 (c_dis_changes c) k hs) =? len)%nat
  | QShortChange2 k len => (shortest_change2 (c_dis_changes c) k hs =? len)%nat
  | QResChange2 pfx r => res_eqb (res_of_change (resolve_change2 (c_dis_changes c) pfx hs)) r
  end.

(** ** the property, checked on the implementation's answers against the flat id lists *)
Definition all_commits_of (c : case) : list id := flat_map (fun s => map fst (snd s)) (c_segs c).
Definition all_changes_of (c : case) : list id := flat_map (fun s => map snd (snd s)) (c_segs c).
Section Checker.
  Variable c : case.
  Variables all_commits all_changes : list id.   (* = all_commits_of c, all_changes_of c *)
  (** global positions carrying change id [k], descending *)
  Definition change_positions (k : id) : list nat :=
    flat_map (fun s => rev (map fst (filter (fun pe => id_eqb (snd (snd pe)) k)
                                            (combine (seq (fst s) (length (snd s))) (snd s)))))
             (c_segs c).
  Definition others (k : id) (l : list id) : list id := filter (fun x => negb (id_eqb x k)) l.
  Definition count_matching (pfx : id) (l : list id) : list id := filter (matches pfx) l.

  (** unique: no other id shares the prefix of that length; minimal: the prefix one digit
      shorter is shared with another id (when there is another id at all) *)
  Definition short_ok (k : id) (len : nat) (l : list id) : bool :=
    (len <=? length k)%nat &&
    forallb (fun x => negb (matches (firstn len k) x)) (others k l) &&
    match len with
    | O => match others k l with [] => true | _ => false end
    | S m => existsb (fun x => matches (firstn m k) x) (others k l)
    end.
  (** the resolution of a prefix against the ids that exist *)
  Definition res_spec (pfx : id) (l : list id) (r : res) (positions : id -> list nat) : bool :=
    match count_matching pfx l, r with
    | [], RNo => true
    | k :: rest, ROne k' ps =>
        forallb (id_eqb k) rest && id_eqb k k' && lnat_eqb ps (positions k)
    | k :: rest, RAmb => negb (forallb (id_eqb k) rest)
    | _, _ => false
    end.

  (** the displayed length: its prefix is no bookmark / tag name (unless the whole id is
      shown) and matches no other id of the relevant set, so it resolves back; every shorter
      length (from the set's minimum on) is a ref name or matches another id *)
  Definition refs_short_ok (k : id) (len : nat) (names ids : list id) (lower : nat) : bool :=
    let is_name n := existsb (id_eqb (firstn n k)) names in
    (len <=? length k)%nat && (lower <=? len)%nat &&
    ((len =? length k)%nat || negb (is_name len)) &&
    forallb (fun x => negb (matches (firstn len k) x)) (others k ids) &&
    forallb (fun l => is_name l || existsb (matches (firstn l k)) (others k ids))
            (seq lower (len - lower)).

  (** resolution through the two-level index: the set decides when one of its ids matches *)
  Definition res2_spec (pfx : id) (keys all : list id) (r : res) (positions : id -> list nat) : bool :=
    match pfx with
    | [] => match r with RAmb => true | _ => false end
    | _ =>
      match count_matching pfx keys with
      | [] => res_spec pfx all r positions
      | k :: rest =>
          if forallb (id_eqb k) rest
          then match r with
               | ROne k' ps => id_eqb k k' && lnat_eqb ps (positions k) && set_has k all
               | RNo => negb (set_has k all)
               | RAmb => false
               end
          else match r with RAmb => true | _ => false end
      end
    end.

  Definition query_ok (q : query) : bool :=
    match q with
    | QShortCommit k len => short_ok k len all_commits
    | QResCommit pfx r => res_spec pfx all_commits r (fun _ => [])
    | QShortChange k len => short_ok k len all_changes
    | QResChange pfx r vis =>
        res_spec pfx all_changes r change_positions &&
        match r with
        | ROne _ ps => list_eqb Bool.eqb vis (map (visible_at c) ps)
        | _ => match vis with [] => true | _ => false end
        end
    | QShortCommit2 k len =>
        match c_dis c with
        | Some keys => if set_has k keys then refs_short_ok k len [] keys 1
                       else short_ok k len all_commits
        | None => short_ok k len all_commits
        end
    | QResCommit2 pfx r =>
        match c_dis c with
        | Some keys => res2_spec pfx keys all_commits r (fun _ => [])
        | None => res_spec pfx all_commits r (fun _ => [])
        end
    | QShortChange2 k len =>
        match c_dis_changes c with
        | Some keys => if set_has k keys then refs_short_ok k len [] keys 1
                       else short_ok k len all_changes
        | None => short_ok k len all_changes
        end
    | QResChange2 pfx r =>
        match c_dis_changes c with
        | Some keys => res2_spec pfx keys all_changes r change_positions
        | None => res_spec pfx all_changes r change_positions
        end
    | QRefsLen k _ len =>
        match c_dis c with
        | Some keys => if set_has k keys then refs_short_ok k len (c_names c) keys 1
                       else refs_short_ok k len (c_names c) all_commits 0
        | None => refs_short_ok k len (c_names c) all_commits 0
        end
    | QRefsLenChange k len =>
        match c_dis_changes c with
        | Some keys => if set_has k keys then refs_short_ok k len (c_change_names c) keys 1
                       else refs_short_ok k len (c_change_names c) all_changes 0
        | None => refs_short_ok k len (c_change_names c) all_changes 0
        end
    end.
End Checker.

Definition nodup_ids (l : list id) : bool :=
  (fix go (l : list id) := match l with [] => true | x :: r => negb (existsb (id_eqb x) r) && go r end) l.

Definition okb (c : case) : bool :=
  let ac := all_commits_of c in
  let ah := all_changes_of c in
  negb (c_panicked c) && wfb (c_graph c) && nodup_ids ac && forallb (query_ok c ac ah) (c_queries c).
Definition check_case (c : case) : N :=
  let cs := map commit_table (c_segs c) in
  let hs := map change_table (c_segs c) in
  verdict (negb (c_panicked c) && forallb (query_corr c cs hs) (c_queries c)) (okb c) false 1.
