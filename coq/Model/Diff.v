(** Model of core/src/diff.rs (ContentDiff). Definitions only.

    Layer A (assembly): tokenizers, comparators as normalisers, unchanged regions built
    from a matching (a list of token-position pairs per non-base input), the n-way
    intersection, [compact_unchanged_regions], [refine_changed_regions] and the hunk
    iterator. Layer A is parametrised by the matching function [M].

    Layer B (matching): the histogram LCS of [collect_unchanged_words], with the iteration
    order of the hash table as a parameter [order].

    Byte positions, token positions and lengths are [nat]; bytes are [N]. *)
From Verif Require Import Base.Prelude.
From Coq Require Import Arith.

Definition slice {A} (l : list A) (s e : nat) : list A := firstn (e - s) (skipn s l).

Definition is_nil {A} (l : list A) : bool := match l with [] => true | _ => false end.

(** * Tokenizers (core/src/diff.rs:32-77) *)

(** The byte ranges of the [matches!] arm of [is_word_byte] and the [max_occurrences]
    cut-off of [collect_unchanged_words_lcs]. They are compared with the values scraped from
    the source (Gen/Tables.v) by [C03.tables_okb], in the proof build (Props/C03.v) and on
    every correspondence case, so this file does not depend on the generated table. *)
Definition word_r1 : N * N := (65, 90)%N.
Definition word_r2 : N * N := (97, 122)%N.
Definition word_r3 : N * N := (48, 57)%N.
Definition word_single : N := 95%N.
Definition word_r4 : N * N := (128, 255)%N.
Definition max_occurrences : nat := 100.

Definition in_range (r : N * N) (b : N) : bool := ((fst r <=? b) && (b <=? snd r))%N.
Definition is_word_byte (b : N) : bool :=
  in_range word_r1 b || in_range word_r2 b || in_range word_r3 b
  || (b =? word_single)%N || in_range word_r4 b.

(** [find_line_ranges]: [split_inclusive(b'\n')] with running offsets; no empty piece. *)
Fixpoint line_ranges_go (l : bytes) (start pos : nat) : list (nat * nat) :=
  match l with
  | [] => if start <? pos then [(start, pos)] else []
  | b :: t =>
      if (b =? 10)%N then (start, S pos) :: line_ranges_go t (S pos) (S pos)
      else line_ranges_go t start (S pos)
  end.
Definition line_ranges (l : bytes) : list (nat * nat) := line_ranges_go l 0 0.

(** [find_word_ranges]: the loop with [in_word] / [word_start_pos]. *)
Fixpoint word_ranges_go (l : bytes) (i : nat) (in_word : bool) (ws : nat) : list (nat * nat) :=
  match l with
  | [] => if in_word && (ws <? i) then [(ws, i)] else []
  | b :: t =>
      if in_word && negb (is_word_byte b) then (ws, i) :: word_ranges_go t (S i) false i
      else if negb in_word && is_word_byte b then word_ranges_go t (S i) true i
      else word_ranges_go t (S i) in_word ws
  end.
Definition word_ranges (l : bytes) : list (nat * nat) := word_ranges_go l 0 false 0.

(** [find_nonword_ranges]: one range [i..i+1] per non-word byte. *)
Fixpoint nonword_ranges_go (l : bytes) (i : nat) : list (nat * nat) :=
  match l with
  | [] => []
  | b :: t =>
      if is_word_byte b then nonword_ranges_go t (S i)
      else (i, S i) :: nonword_ranges_go t (S i)
  end.
Definition nonword_ranges (l : bytes) : list (nat * nat) := nonword_ranges_go l 0.

(** The tokenizers the callers pass; [TokNone] is [|_| vec![]] of [ContentDiff::unrefined]. *)
Inductive tokenizer := TokLine | TokWord | TokNonword | TokNone.

Definition tokenize (t : tokenizer) (l : bytes) : list (nat * nat) :=
  match t with
  | TokLine => line_ranges l
  | TokWord => word_ranges l
  | TokNonword => nonword_ranges l
  | TokNone => []
  end.

(** * Comparators as normalisers (core/src/diff.rs:79-184): [eq l r] iff [norm l = norm r]. *)

(** [u8::is_ascii_whitespace]: space, \t, \n, \x0C, \r. *)
Definition is_ws (b : N) : bool :=
  ((b =? 32) || (b =? 9) || (b =? 10) || (b =? 12) || (b =? 13))%N.

Definition norm_ws_all (l : bytes) : bytes := filter (fun b => negb (is_ws b)) l.

Fixpoint norm_ws_amount_go (prev_was_space : bool) (l : bytes) : bytes :=
  match l with
  | [] => []
  | b :: t =>
      if is_ws b then
        (if prev_was_space then norm_ws_amount_go true t else 32%N :: norm_ws_amount_go true t)
      else b :: norm_ws_amount_go false t
  end.
Definition norm_ws_amount (l : bytes) : bytes := norm_ws_amount_go false l.

Inductive comparator := CmpExact | CmpWsAll | CmpWsAmount.

Definition norm (c : comparator) (l : bytes) : bytes :=
  match c with
  | CmpExact => l
  | CmpWsAll => norm_ws_all l
  | CmpWsAmount => norm_ws_amount l
  end.

(** The normalised token texts of an input. *)
Definition words (c : comparator) (text : bytes) (ranges : list (nat * nat)) : list bytes :=
  map (fun r => norm c (slice text (fst r) (snd r))) ranges.

(** * Matchings *)

(** A matching between [n] left tokens and [m] right tokens: in range and strictly
    increasing in both coordinates. *)
Fixpoint incr_fromb (pl pr : nat) (l : list (nat * nat)) : bool :=
  match l with
  | [] => true
  | (a, b) :: t => (pl <? a) && (pr <? b) && incr_fromb a b t
  end.
Definition incrb (l : list (nat * nat)) : bool :=
  match l with
  | [] => true
  | (a, b) :: t => incr_fromb a b t
  end.
Definition in_rangeb (n m : nat) (l : list (nat * nat)) : bool :=
  forallb (fun p => (fst p <? n) && (snd p <? m)) l.
Definition valid_matchingb (n m : nat) (l : list (nat * nat)) : bool :=
  in_rangeb n m l && incrb l.

(** The matching of a token list with itself that the file-merge laws rely on. *)
Definition identity_matching (n : nat) : list (nat * nat) := map (fun i => (i, i)) (seq 0 n).

(** Every matched pair of tokens is equal. *)
Definition eq_matchingb {T} (eqb : T -> T -> bool) (lw rw : list T) (l : list (nat * nat)) : bool :=
  forallb (fun p => match nth_error lw (fst p), nth_error rw (snd p) with
                    | Some a, Some b => eqb a b
                    | _, _ => false
                    end) l.

(** * Layer B: histogram LCS ([collect_unchanged_words], core/src/diff.rs:306-548) *)

Section LayerB.
  Context {T : Type} (eqb : T -> T -> bool).
  (** Iteration order of the hash table (any permutation of the entries). *)
  Variable order : list (T * list nat) -> list (T * list nat).
  Variable max_occ : nat.

  (** [Histogram::calculate]: entries in first-occurrence order; at most [max_occ + 1]
      positions are kept per word. *)
  Fixpoint hist_add (w : T) (pos : nat) (h : list (T * list nat)) : list (T * list nat) :=
    match h with
    | [] => [(w, [pos])]
    | (w', ps) :: t =>
        if eqb w' w then (w', if length ps <=? max_occ then ps ++ [pos] else ps) :: t
        else (w', ps) :: hist_add w pos t
    end.
  Fixpoint hist_go (ws : list T) (i : nat) (h : list (T * list nat)) : list (T * list nat) :=
    match ws with
    | [] => h
    | w :: t => hist_go t (S i) (hist_add w i h)
    end.
  Definition histogram (ws : list T) : list (T * list nat) := hist_go ws 0 [].

  (** [positions_by_word] *)
  Fixpoint hist_find (w : T) (h : list (T * list nat)) : option (list nat) :=
    match h with
    | [] => None
    | (w', ps) :: t => if eqb w' w then Some ps else hist_find w t
    end.

  Fixpoint list_min (d : nat) (l : list nat) : nat :=
    match l with
    | [] => d
    | x :: t => Nat.min x (list_min x t)
    end.

  (** The [find_map] over [left_count_to_entries.values()]: the left entries (in table
      order) whose word occurs equally often on the right, restricted to the lowest such
      count. *)
  Definition shared_candidates (lh rh : list (T * list nat)) : list (list nat * list nat) :=
    flat_map (fun e => match hist_find (fst e) rh with
                       | Some rps => if length (snd e) =? length rps then [(snd e, rps)] else []
                       | None => []
                       end) (order lh).
  Definition uncommon_shared (lh rh : list (T * list nat)) : list (list nat * list nat) :=
    let cands := shared_candidates lh rh in
    let c := list_min 0 (map (fun p => length (fst p)) cands) in
    filter (fun p => length (fst p) =? c) cands.

  (** Insertion sort of (position, serial) by position ([sort_unstable_by_key]; the keys
      are distinct). *)
  Fixpoint insert_by_pos (x : nat * nat) (l : list (nat * nat)) : list (nat * nat) :=
    match l with
    | [] => [x]
    | y :: t => if fst x <=? fst y then x :: y :: t else y :: insert_by_pos x t
    end.
  Definition sort_by_pos (l : list (nat * nat)) : list (nat * nat) :=
    fold_right insert_by_pos [] l.

  Fixpoint index_of (x : nat) (l : list nat) : nat :=
    match l with
    | [] => 0
    | y :: t => if x =? y then 0 else S (index_of x t)
    end.

  Fixpoint enumerate {A} (i : nat) (l : list A) : list (nat * A) :=
    match l with [] => [] | x :: t => (i, x) :: enumerate (S i) t end.

  (** [find_lcs] (core/src/diff.rs:373-417). [rc] is the chain built so far, most recent
      entry first; an entry is (length, left position, previous right position). The inner
      loop scans [i = right_pos - 1 .. 0] and breaks when a new global maximum is found. *)
  Definition chain_entry := (nat * nat * option nat)%type.

  Fixpoint lcs_inner (left_pos right_pos : nat) (rc : list chain_entry)
           (lfh : nat) (prev : option nat) (gl glr : nat) : nat * option nat * nat * nat :=
    match rc with
    | [] => (lfh, prev, gl, glr)
    | (plen, pleft, _) :: rc' =>
        let i := length rc' in
        if pleft <? left_pos then
          let len := plen + 1 in
          if lfh <? len then
            if gl <? len then (len, Some i, len, right_pos)
            else lcs_inner left_pos right_pos rc' len (Some i) gl glr
          else lcs_inner left_pos right_pos rc' lfh prev gl glr
        else lcs_inner left_pos right_pos rc' lfh prev gl glr
    end.

  Fixpoint lcs_outer (input : list nat) (right_pos : nat) (rc : list chain_entry) (gl glr : nat)
    : list chain_entry * nat :=
    match input with
    | [] => (rc, glr)
    | left_pos :: t =>
        let '(lfh, prev, gl', glr') := lcs_inner left_pos right_pos rc 1 None gl glr in
        lcs_outer t (S right_pos) ((lfh, left_pos, prev) :: rc) gl' glr'
    end.

  (** Backtracking; the result is produced already reversed (ascending). *)
  Fixpoint lcs_back (fuel : nat) (chain : list chain_entry) (right_pos : nat)
           (acc : list (nat * nat)) : list (nat * nat) :=
    match fuel with
    | O => acc
    | S f =>
        match nth_error chain right_pos with
        | None => acc
        | Some (_, left_pos, prev) =>
            match prev with
            | None => (left_pos, right_pos) :: acc
            | Some p => lcs_back f chain p ((left_pos, right_pos) :: acc)
            end
        end
    end.

  Definition find_lcs (input : list nat) : list (nat * nat) :=
    match input with
    | [] => []
    | _ =>
        let '(rc, glr) := lcs_outer input 0 [] 0 0 in
        let chain := rev rc in
        lcs_back (length chain) chain glr []
    end.

  (** The LCS over the uncommon shared words of [left] and [right]: local position pairs,
      ascending. Empty when the algorithm gives up. *)
  Definition lcs_positions (left right : list T) : list (nat * nat) :=
    let lh := histogram left in
    if max_occ <? list_min 0 (map (fun e => length (snd e)) lh) then []
    else
      let rh := histogram right in
      let both := uncommon_shared lh rh in
      match both with
      | [] => []
      | _ =>
          let pairs := enumerate 0 (flat_map (fun p => combine (fst p) (snd p)) both) in
          let left_positions := sort_by_pos (map (fun sp => (fst (snd sp), fst sp)) pairs) in
          let right_positions := sort_by_pos (map (fun sp => (snd (snd sp), fst sp)) pairs) in
          let left_serials := map snd left_positions in
          let left_index_by_right_index :=
            map (fun ps => index_of (snd ps) left_serials) right_positions in
          map (fun lr => (fst (nth (fst lr) left_positions (0, 0)),
                          fst (nth (snd lr) right_positions (0, 0))))
              (find_lcs left_index_by_right_index)
      end.

  Fixpoint common_prefix_len (l r : list T) : nat :=
    match l, r with
    | a :: l', b :: r' => if eqb a b then S (common_prefix_len l' r') else 0
    | _, _ => 0
    end.

  (** Leading / trailing fallback of [collect_unchanged_words]. *)
  Definition lead_trail (left right : list T) (loff roff : nat) : list (nat * nat) :=
    let lead := common_prefix_len left right in
    let trail := common_prefix_len (rev (skipn lead left)) (rev (skipn lead right)) in
    map (fun i => (loff + i, roff + i)) (seq 0 lead)
    ++ map (fun i => (loff + (length left - trail + i), roff + (length right - trail + i)))
           (seq 0 trail).

  (** [collect_unchanged_words] / [collect_unchanged_words_lcs]; [loff]/[roff] are the
      [global_offset]s of the narrowed sources. Fuel: [S (length left)] suffices. *)
  Fixpoint cuw (fuel : nat) (left right : list T) (loff roff : nat) : list (nat * nat) :=
    match fuel with
    | O => []
    | S f =>
        if is_nil left || is_nil right then []
        else
          let lcs := lcs_positions left right in
          let found :=
            match lcs with
            | [] => []
            | _ =>
                (fix go (prevl prevr : nat) (lcs : list (nat * nat)) : list (nat * nat) :=
                   match lcs with
                   | [] => cuw f (slice left prevl (length left)) (slice right prevr (length right))
                               (loff + prevl) (roff + prevr)
                   | (lp, rp) :: t =>
                       cuw f (slice left prevl lp) (slice right prevr rp)
                           (loff + prevl) (roff + prevr)
                       ++ (loff + lp, roff + rp) :: go (S lp) (S rp) t
                   end) 0 0 lcs
            end in
          match found with
          | [] => lead_trail left right loff roff
          | _ => found
          end
    end.

  Definition collect_unchanged_words (left right : list T) : list (nat * nat) :=
    cuw (S (length left)) left right 0 0.
End LayerB.

(** * Layer A: from matchings to unchanged regions and hunks *)

(** An unchanged region: one byte range per input, base first. *)
Definition region := list (nat * nat).

(** [intersect_unchanged_words]: merge-join on the base position. *)
Fixpoint intersect (cur : list (nat * list nat)) (new : list (nat * nat)) : list (nat * list nat) :=
  match cur with
  | [] => []
  | (b, os) :: cur' =>
      (fix go (new : list (nat * nat)) : list (nat * list nat) :=
         match new with
         | [] => []
         | (nb, no) :: new' =>
             match Nat.compare b nb with
             | Lt => intersect cur' new
             | Eq => (b, os ++ [no]) :: intersect cur' new'
             | Gt => go new'
             end
         end) new
  end.

Definition range_at (ranges : list (nat * nat)) (p : nat) : nat * nat := nth p ranges (0, 0).

Fixpoint map2 {A B C} (f : A -> B -> C) (la : list A) (lb : list B) : list C :=
  match la, lb with
  | a :: ta, b :: tb => f a b :: map2 f ta tb
  | _, _ => []
  end.

Fixpoint map3 {A B C D} (f : A -> B -> C -> D) (la : list A) (lb : list B) (lc : list C) : list D :=
  match la, lb, lc with
  | a :: ta, b :: tb, c :: tc => f a b c :: map3 f ta tb tc
  | _, _, _ => []
  end.

(** [UnchangedRange::from_word_positions] *)
Definition region_of (base_ranges : list (nat * nat)) (other_ranges : list (list (nat * nat)))
           (e : nat * list nat) : region :=
  range_at base_ranges (fst e) :: map2 range_at other_ranges (snd e).

(** [compact_unchanged_regions] (core/src/diff.rs:838-863) *)
Definition adjb (prev cur : region) : bool :=
  forallb (fun pc => snd (fst pc) =? fst (snd pc)) (combine prev cur).
Definition merge_region (prev cur : region) : region :=
  map2 (fun p c => (fst p, snd c)) prev cur.
Fixpoint compact_go (prev : region) (l : list region) : list region :=
  match l with
  | [] => [prev]
  | cur :: t =>
      if adjb prev cur then compact_go (merge_region prev cur) t
      else prev :: compact_go cur t
  end.
Definition compact (l : list region) : list region :=
  match l with [] => [] | x :: t => compact_go x t end.

Section LayerA.
  (** The matching function: normalised base tokens, normalised other tokens. *)
  Variable M : list bytes -> list bytes -> list (nat * nat).

  (** [ContentDiff::for_tokenizer] + [with_inputs_and_token_ranges] *)
  Definition diff_regions (tok : tokenizer) (cmp : comparator) (inputs : list bytes) : list region :=
    match inputs with
    | [] => []
    | base :: others =>
        let any_empty := existsb is_nil inputs in
        let ranges_of x := if any_empty then [] else tokenize tok x in
        match others with
        | [] => compact [[(0, length base)]]
        | first :: tail =>
            let bw := words cmp base (ranges_of base) in
            let m_of o := M bw (words cmp o (ranges_of o)) in
            let entries :=
              fold_left (fun cur o => intersect cur (m_of o)) tail
                        (map (fun p => (fst p, [snd p])) (m_of first)) in
            compact ((map (fun _ => (0, 0)) inputs
                      :: map (region_of (ranges_of base) (map ranges_of others)) entries)
                     ++ [map (fun x => (length x, length x)) inputs])
        end
    end.

  (** [hunk_between]: the texts between the [previous] ends and the [current] starts. *)
  Definition between (prev cur : region) : region :=
    map2 (fun p c => (snd p, fst c)) prev cur.
  Definition contents (inputs : list bytes) (r : region) : list bytes :=
    map2 (fun x rg => slice x (fst rg) (snd rg)) inputs r.

  Definition shift_region (prev r : region) : region :=
    map2 (fun refi p => (fst refi + snd p, snd refi + snd p)) r prev.

  (** [refine_changed_regions] (core/src/diff.rs:804-836) *)
  Fixpoint refine_go (tok : tokenizer) (cmp : comparator) (inputs : list bytes)
           (prev : region) (rest : list region) : list region :=
    match rest with
    | [] => []
    | cur :: rest' =>
        map (shift_region prev) (diff_regions tok cmp (contents inputs (between prev cur)))
        ++ cur :: refine_go tok cmp inputs cur rest'
    end.
  Definition refine (tok : tokenizer) (cmp : comparator) (inputs : list bytes)
             (regions : list region) : list region :=
    match regions with
    | [] => []
    | u0 :: rest => compact (u0 :: refine_go tok cmp inputs u0 rest)
    end.

  (** A diff configuration: the [for_tokenizer] step followed by refinement steps. *)
  Definition steps := list (tokenizer * comparator).
  Definition run_steps (s : steps) (inputs : list bytes) : list region :=
    match s with
    | [] => []
    | (t, c) :: rest =>
        fold_left (fun regs tc => refine (fst tc) (snd tc) inputs regs) rest
                  (diff_regions t c inputs)
    end.
End LayerA.

(** [DiffHunkRangeIterator]: kind [true] = Matching, [false] = Different. *)
Definition all_emptyb (r : region) : bool := forallb (fun p => fst p =? snd p) r.
Definition hunk := (bool * region)%type.
Fixpoint hunks_from (prev : region) (rest : list region) : list hunk :=
  match rest with
  | [] => []
  | cur :: rest' =>
      (false, between prev cur)
      :: (if all_emptyb cur then [] else [(true, cur)]) ++ hunks_from cur rest'
  end.
Definition hunks (regions : list region) : list hunk :=
  match regions with
  | [] => []
  | u0 :: rest => (if all_emptyb u0 then [] else [(true, u0)]) ++ hunks_from u0 rest
  end.

(** The executable matching: histogram LCS over normalised tokens, table order = insertion
    order, cut-off scraped from the source. *)
Definition M_hist : list bytes -> list bytes -> list (nat * nat) :=
  collect_unchanged_words bytes_eqb (fun h => h) max_occurrences.
(** The same with the table iterated in the opposite order. *)
Definition M_hist_rev : list bytes -> list bytes -> list (nat * nat) :=
  collect_unchanged_words bytes_eqb (@rev _) max_occurrences.

Definition diff_hunks (s : steps) (inputs : list bytes) : list hunk :=
  hunks (run_steps M_hist s inputs).
