(** C34 — model of Git import / export of bookmarks (lib/src/git.rs, lib/src/refs.rs,
    lib/src/view.rs).  Definitions only.

    Data.  A commit is a number: [0] = no commit (absent), [1] = jj's root commit (which
    Git does not have), [2..] = ordinary commits.  A [RefTarget] is the alternating
    add/remove term vector of its [Merge<Option<CommitId>>] ([values[0]] add, [values[1]]
    remove, ...).  Names are numbers.  The jj view is three maps name -> target:
    local bookmarks, the remote-tracking bookmarks of the pseudo remote "git" ([name@git])
    and the recorded Git refs ([View::git_refs], restricted to refs/heads/).  The Git side
    is a map name -> commit (the branches refs/heads/name of the backing repository).

    Maps are association lists read with [get] (first entry, absent by default) and written
    with [set], which drops absent targets exactly like [View::set_local_bookmark_target] /
    [set_git_ref_target] (lib/src/view.rs:211-223, 569-575).  [View::set_remote_bookmark]
    (view.rs:280-295) may keep an absent *tracked* entry while a local bookmark exists; every
    reader used here ([get_remote_bookmark], [diff_refs_to_import]'s [is_present] filter,
    [local_remote_bookmarks]) treats such an entry as absent, and bookmarks of the "git"
    remote are always tracked ([default_remote_ref_state_for], git.rs:1142-1163), so the
    model identifies it with "no entry".

    Not modelled: tags and other remotes (same code paths, other name spaces), the commit
    import / abandonment / synthetic-predecessor part of [import_refs_inner] (it does not
    write bookmarks, @git refs or git_refs), HEAD detaching in [export_some_refs]
    (does not touch refs/heads), annotated tags, refs that do not peel to a commit. *)
From Verif Require Import Base.Prelude Model.Merge.
Local Open Scope N_scope.

Definition target := list N.
Definition teqb : target -> target -> bool := list_eqb N.eqb.
Definition absent : target := [0].
Definition root_id : N := 1.

(** [RefTarget::is_absent], [has_conflict], [as_normal] (lib/src/op_store.rs:97-121). *)
Definition is_absent (t : target) : bool :=
  match t with [c] => c =? 0 | _ => false end.
Definition has_conflict (t : target) : bool :=
  match t with [_] => false | _ => true end.
Definition as_normal (t : target) : option N :=
  match t with [c] => if c =? 0 then None else Some c | _ => None end.
(** [RefTarget::resolved(Option<CommitId>)]. *)
Definition resolved (c : N) : target := [c].

(** * Maps *)
Definition rmap := list (N * target).
Fixpoint get (m : rmap) (k : N) : target :=
  match m with
  | [] => absent
  | (k', t) :: r => if k' =? k then t else get r k
  end.
Definition remove {V} (k : N) (m : list (N * V)) : list (N * V) :=
  filter (fun p => negb (fst p =? k)) m.
Definition set (m : rmap) (k : N) (t : target) : rmap :=
  if is_absent t then remove k m else (k, t) :: remove k m.
Definition keys {V} (m : list (N * V)) : list N := map fst m.
Fixpoint dedup (l : list N) : list N :=
  match l with
  | [] => []
  | x :: t => if mem N.eqb x t then dedup t else x :: dedup t
  end.

Definition gmap := list (N * N).
Fixpoint gget (g : gmap) (k : N) : N :=
  match g with
  | [] => 0
  | (k', c) :: r => if k' =? k then c else gget r k
  end.
Definition gset (g : gmap) (k : N) (c : N) : gmap :=
  if c =? 0 then remove k g else (k, c) :: remove k g.

Record view := mk_view { local : rmap; rgit : rmap; grefs : rmap }.

(** * [merge_ref_targets] (lib/src/refs.rs:108-196) *)
Section Anc.
  (** [Index::is_ancestor] on commit numbers: an oracle here (C18 is about the index). *)
  Context (anc : N -> N -> bool).

  (** The [match (add1, add2)] of [find_pair_to_remove] (refs.rs:177-182). *)
  Definition pick_add (i1 i2 : nat) (a1 a2 : N) : option (nat * N) :=
    if (a1 =? 0) || (a2 =? 0) then None
    else if a1 =? a2 then Some (i1, a1)
    else if anc a1 a2 then Some (i1, a1)
    else if anc a2 a1 then Some (i2, a2)
    else None.

  Fixpoint position {A} (f : A -> bool) (l : list A) (i : nat) : option nat :=
    match l with
    | [] => None
    | x :: t => if f x then Some i else position f t (S i)
    end.

  (** refs.rs:184-187: an absent remove counts as a root. *)
  Definition remove_ok (add_id r : N) : bool := (r =? 0) || anc r add_id.

  Fixpoint find_inner (rems : list N) (i1 : nat) (a1 : N) (i2 : nat) (rest : list N)
    : option (nat * nat) :=
    match rest with
    | [] => None
    | a2 :: t =>
        match pick_add i1 i2 a1 a2 with
        | Some (ai, aid) =>
            match position (remove_ok aid) rems 0 with
            | Some ri => Some (ri, ai)
            | None => find_inner rems i1 a1 (S i2) t
            end
        | None => find_inner rems i1 a1 (S i2) t
        end
    end.

  Fixpoint find_outer (rems : list N) (i1 : nat) (adds : list N) : option (nat * nat) :=
    match adds with
    | [] => None
    | a1 :: t =>
        match find_inner rems i1 a1 (S i1) t with
        | Some p => Some p
        | None => find_outer rems (S i1) t
        end
    end.

  Definition find_pair_to_remove (m : target) : option (nat * nat) :=
    find_outer (odds m) 0 (evens m).

  (** [Vec::swap_remove]: the last element takes the removed slot. *)
  Definition vswap_remove {A} (i : nat) (l : list A) : list A :=
    match l with
    | [] => []
    | x :: _ => set_nth i (last l x) (removelast l)
    end.
  (** [Merge::swap_remove] (lib/src/merge.rs:318-323). *)
  Definition merge_swap_remove (ri ai : nat) (m : target) : target :=
    vswap_remove (2 * ri + 1) (vswap_remove (2 * ai) m).

  (** [merge_ref_targets_non_trivial]: each round drops two terms, so [length m] rounds
      always suffice (Proofs/C34.v: [nontrivial_fixpoint]). *)
  Fixpoint nontrivial (fuel : nat) (m : target) : target :=
    match fuel with
    | O => m
    | S f =>
        match find_pair_to_remove m with
        | Some (ri, ai) => nontrivial f (merge_swap_remove ri ai m)
        | None => m
        end
    end.

  Definition merge_targets (l b r : target) : target :=
    match trivial_merge teqb true [l; b; r] with
    | Some t => t
    | None =>
        let m := simplify N.eqb (flatten [l; b; r]) in
        match trivial_merge N.eqb true m with
        | Some v => resolved v
        | None => nontrivial (length m) m
        end
    end.

  (** * Import: [diff_refs_to_import] + [collect_changed_refs_to_import] (git.rs:921-1093)
      and the bookmark part of [import_refs_inner] (git.rs:722-744). *)
  Record imp_acc := mk_acc {
    known_g : rmap;                         (* known_git_refs, not yet seen *)
    known_r : rmap;                         (* known_remote_bookmarks, not yet seen *)
    ch_g : list (N * target);               (* changed_git_refs *)
    ch_r : list (N * (target * target));    (* changed_remote_bookmarks: name, old, new *)
  }.

  (** One iteration of the loop over the actual Git branches (git.rs:1048-1091). A ref
      whose value is [0] stands for one that does not resolve to a commit: skipped, it stays
      in the known maps and is treated as deleted. *)
  Definition import_step (a : imp_acc) (p : N * N) : imp_acc :=
    let '(n, c) := p in
    if c =? 0 then a
    else
      let new := resolved c in
      let old_g := get (known_g a) n in
      let old_r := get (known_r a) n in
      mk_acc (remove n (known_g a)) (remove n (known_r a))
        (if teqb new old_g then ch_g a else ch_g a ++ [(n, new)])
        (if teqb new old_r then ch_r a else ch_r a ++ [(n, (old_r, new))]).

  (** git.rs:1003-1014: what is still known but no longer in Git is gone. *)
  Definition import_leftovers (a : imp_acc) : imp_acc :=
    mk_acc [] []
      (ch_g a ++ map (fun n => (n, absent)) (dedup (keys (known_g a))))
      (ch_r a ++ flat_map (fun n => let old := get (known_r a) n in
                                    if is_absent old then [] else [(n, (old, absent))])
                          (dedup (keys (known_r a)))).

  Definition diff_refs_to_import (s : view) (g : gmap) : imp_acc :=
    import_leftovers (fold_left import_step g (mk_acc (grefs s) (rgit s) [] [])).

  (** git.rs:725-744 for one [GitImportRefUpdate]: merge into the local bookmark with the
      tracked @git target as base, then overwrite the @git bookmark. *)
  Definition apply_remote_change (s : view) (u : N * (target * target)) : view :=
    let '(n, (old, new)) := u in
    mk_view (set (local s) n (merge_targets (get (local s) n) old new))
            (set (rgit s) n new)
            (grefs s).
  Definition apply_git_ref_change (s : view) (u : N * target) : view :=
    mk_view (local s) (rgit s) (set (grefs s) (fst u) (snd u)).

  Definition import_refs (s : view) (g : gmap) : view :=
    let d := diff_refs_to_import s g in
    fold_left apply_remote_change (ch_r d) (fold_left apply_git_ref_change (ch_g d) s).
End Anc.

(** * Export: [diff_refs_to_export], [collect_changed_refs_to_export],
    [export_refs_to_git], [copy_exportable_local_bookmarks_to_remote_view]
    (git.rs:1320-1635, 1665-1771) *)
Inductive reason :=
| ConflictedOldState | OnRootCommit | DeletedInJjModifiedInGit | AddedInJjAddedInGit
| ModifiedInJjDeletedInGit | FailedToSet.
Definition reason_code (r : reason) : N :=
  match r with
  | ConflictedOldState => 1 | OnRootCommit => 2 | DeletedInJjModifiedInGit => 3
  | AddedInJjAddedInGit => 4 | ModifiedInJjDeletedInGit => 5 | FailedToSet => 6
  end.

Inductive export_action :=
| XSkip                       (* nothing to do, or new target conflicted *)
| XFail (r : reason)
| XUpdate (old new : N)       (* old = 0: create *)
| XDelete (old : N).

(** [collect_changed_refs_to_export], one entry (git.rs:1594-1624). *)
Definition classify_export (old new : target) : export_action :=
  if teqb new old then XSkip
  else if teqb new (resolved root_id) then XFail OnRootCommit
  else
    match as_normal old, has_conflict old with
    | None, true => XFail ConflictedOldState
    | oo, _ =>
        let old_oid := match oo with Some c => c | None => 0 end in
        match as_normal new with
        | Some c => XUpdate old_oid c
        | None => if has_conflict new then XSkip else XDelete old_oid
        end
    end.

(** [delete_git_ref] (git.rs:1665-1686). *)
Definition delete_git_ref (g : gmap) (n old : N) : option reason * gmap :=
  let cur := gget g n in
  if cur =? 0 then (None, g)
  else if cur =? old then (None, gset g n 0)
  else (Some DeletedInJjModifiedInGit, g).
(** [create_git_ref] (git.rs:1689-1716). *)
Definition create_git_ref (g : gmap) (n new : N) : option reason * gmap :=
  let cur := gget g n in
  if cur =? 0 then (None, gset g n new)
  else if cur =? new then (None, g)
  else (Some AddedInJjAddedInGit, g).
(** [move_git_ref] (git.rs:1719-1758); the retry branch for annotated tags cannot be
    reached for branches that point at commits. *)
Definition move_git_ref (g : gmap) (n old new : N) : option reason * gmap :=
  let cur := gget g n in
  if cur =? old then (None, gset g n new)
  else if cur =? 0 then (Some ModifiedInJjDeletedInGit, g)
  else if cur =? new then (None, g)
  else (Some FailedToSet, g).
Definition update_git_ref (g : gmap) (n old new : N) : option reason * gmap :=
  if old =? 0 then create_git_ref g n new else move_git_ref g n old new.

Record exp_state := mk_exp { x_grefs : rmap; x_git : gmap; x_failed : list (N * reason) }.

(** [export_refs_to_git]: first loop (deletions), git.rs:1424-1435. *)
Definition export_delete (names_old_new : N -> target * target) (e : exp_state) (n : N)
  : exp_state :=
  let '(old, new) := names_old_new n in
  match classify_export old new with
  | XDelete o =>
      match delete_git_ref (x_git e) n o with
      | (None, g') => mk_exp (set (x_grefs e) n absent) g' (x_failed e)
      | (Some r, g') => mk_exp (x_grefs e) g' (x_failed e ++ [(n, r)])
      end
  | XFail r => mk_exp (x_grefs e) (x_git e) (x_failed e ++ [(n, r)])
  | _ => e
  end.
(** second loop (creations and moves), git.rs:1436-1467. *)
Definition export_update (names_old_new : N -> target * target) (e : exp_state) (n : N)
  : exp_state :=
  let '(old, new) := names_old_new n in
  match classify_export old new with
  | XUpdate o c =>
      match update_git_ref (x_git e) n o c with
      | (None, g') => mk_exp (set (x_grefs e) n (resolved c)) g' (x_failed e)
      | (Some r, g') => mk_exp (x_grefs e) g' (x_failed e ++ [(n, r)])
      end
  | _ => e
  end.

Definition failed_names (f : list (N * reason)) : list N := map fst f.

(** [copy_exportable_local_bookmarks_to_remote_view] (git.rs:1474-1499), decisions taken
    on the view before the loop. *)
Definition copy_exportable (s : view) (failed : list N) : rmap :=
  fold_left
    (fun acc n =>
       let l := get (local s) n in
       if negb (has_conflict l) && negb (teqb (get (rgit s) n) l) && negb (mem N.eqb n failed)
       then set acc n l else acc)
    (dedup (keys (local s) ++ keys (rgit s))) (rgit s).

(** Insertion sort of the failure list by name ([failed.sort_unstable_by], git.rs:1470). *)
Fixpoint insert_failed (p : N * reason) (l : list (N * reason)) : list (N * reason) :=
  match l with
  | [] => [p]
  | q :: t => if fst p <=? fst q then p :: l else q :: insert_failed p t
  end.
Definition sort_failed (l : list (N * reason)) : list (N * reason) :=
  fold_right insert_failed [] l.

Definition export_refs (s : view) (g : gmap) : view * gmap * list (N * reason) :=
  let names := dedup (keys (local s) ++ keys (grefs s)) in
  let old_new := fun n => (get (grefs s) n, get (local s) n) in
  let e1 := fold_left (export_delete old_new) names (mk_exp (grefs s) g []) in
  let e2 := fold_left (export_update old_new) names e1 in
  let failed := sort_failed (x_failed e2) in
  (mk_view (local s) (copy_exportable s (failed_names failed)) (x_grefs e2), x_git e2, failed).

(** * Histories and the correspondence case *)

(** Commit graph as data: [(c, parents of c)]; parents carry smaller numbers. *)
Definition graph := list (N * list N).
Fixpoint parents_of (gr : graph) (c : N) : list N :=
  match gr with
  | [] => []
  | (c', ps) :: r => if c' =? c then ps else parents_of r c
  end.
Fixpoint ancb_fuel (fuel : nat) (gr : graph) (a b : N) : bool :=
  (a =? b) ||
  match fuel with
  | O => false
  | S f => existsb (fun p => ancb_fuel f gr a p) (parents_of gr b)
  end.
Definition ancb (gr : graph) (a b : N) : bool := ancb_fuel (S (length gr)) gr a b.

Record snapshot := mk_snap {
  o_local : rmap; o_rgit : rmap; o_grefs : rmap; o_git : gmap }.

Inductive step :=
| JjSet (n : N) (t : target)        (* MutableRepo::set_local_bookmark_target *)
| JjSetRgit (n : N) (t : target)    (* MutableRepo::set_remote_bookmark(name@git, tracked) *)
| JjSetGrefs (n : N) (t : target)   (* MutableRepo::set_git_ref_target(refs/heads/name) *)
| GitSet (n : N) (c : N)            (* git update-ref / update-ref -d (c = 0) *)
| Import (pre post : snapshot)      (* git::import_refs; states observed around it *)
| Export (pre post : snapshot) (failed : list (N * N)).   (* git::export_refs *)

Record case := mk_case {
  c_names : list N;
  c_graph : graph;
  c_steps : list step;
  c_flags_ok : bool;       (* impl: no error/panic, every @git bookmark tracked, no stray refs *)
}.

Definition rmap_eqb_on (names : list N) (a b : rmap) : bool :=
  forallb (fun n => teqb (get a n) (get b n)) names.
Definition gmap_eqb_on (names : list N) (a b : gmap) : bool :=
  forallb (fun n => gget a n =? gget b n) names.
Definition snap_of (s : view) (g : gmap) : snapshot :=
  mk_snap (local s) (rgit s) (grefs s) g.
Definition snap_eqb_on (names : list N) (a b : snapshot) : bool :=
  rmap_eqb_on names (o_local a) (o_local b) && rmap_eqb_on names (o_rgit a) (o_rgit b)
  && rmap_eqb_on names (o_grefs a) (o_grefs b) && gmap_eqb_on names (o_git a) (o_git b).
Definition view_of (o : snapshot) : view := mk_view (o_local o) (o_rgit o) (o_grefs o).
Definition failed_eqb (a : list (N * reason)) (b : list (N * N)) : bool :=
  list_eqb (pair_eqb N.eqb N.eqb) (map (fun p => (fst p, reason_code (snd p))) a) b.
Definition in_names (names : list N) (m : list N) : bool :=
  forallb (fun n => mem N.eqb n names) m.
Definition snap_names_ok (names : list N) (o : snapshot) : bool :=
  in_names names (keys (o_local o)) && in_names names (keys (o_rgit o))
  && in_names names (keys (o_grefs o)) && in_names names (keys (o_git o)).

(** Correspondence: replay the history on the model; every observed state must be the
    model's state (on all names; observed maps may not mention other names). *)
Fixpoint replay (anc : N -> N -> bool) (names : list N) (steps : list step)
  (s : view) (g : gmap) : bool :=
  match steps with
  | [] => true
  | JjSet n t :: r => replay anc names r (mk_view (set (local s) n t) (rgit s) (grefs s)) g
  | JjSetRgit n t :: r => replay anc names r (mk_view (local s) (set (rgit s) n t) (grefs s)) g
  | JjSetGrefs n t :: r => replay anc names r (mk_view (local s) (rgit s) (set (grefs s) n t)) g
  | GitSet n c :: r => replay anc names r s (gset g n c)
  | Import pre post :: r =>
      let s' := import_refs anc s g in
      snap_names_ok names pre && snap_names_ok names post
      && snap_eqb_on names (snap_of s g) pre && snap_eqb_on names (snap_of s' g) post
      && replay anc names r s' g
  | Export pre post failed :: r =>
      let '(s', g', f) := export_refs s g in
      snap_names_ok names pre && snap_names_ok names post
      && snap_eqb_on names (snap_of s g) pre && snap_eqb_on names (snap_of s' g') post
      && failed_eqb f failed
      && replay anc names r s' g'
  end.

(** * The property checker, evaluated on the OBSERVED (real) states only. *)
Definition tgt (c : N) : target := resolved c.

(** What one import must have done for name [n] (meaning: Proofs/C34.v [import_ok_spec]). *)
Definition ff_resolves (anc : N -> N -> bool) (a b c : N) : option N :=
  if (a =? 0) || (c =? 0) then None
  else if anc a c then (if (b =? 0) || anc b a then Some c else None)
  else if anc c a then (if (b =? 0) || anc b c then Some a else None)
  else None.

Definition import_name_ok (anc : N -> N -> bool) (pre post : snapshot) (n : N) : bool :=
  let l := get (o_local pre) n in
  let r := get (o_rgit pre) n in
  let gt := tgt (gget (o_git pre) n) in
  let l' := get (o_local post) n in
  (* Git itself is never written by an import; @git and git_refs now equal Git *)
  (gget (o_git post) n =? gget (o_git pre) n)
  && teqb (get (o_rgit post) n) gt && teqb (get (o_grefs post) n) gt
  (* Git unchanged since the last sync: local bookmark untouched *)
  && (if teqb gt r then teqb l' l else true)
  (* changed on the Git side only: the change is taken over *)
  && (if teqb l r then teqb l' gt else true)
  (* both sides made the same change *)
  && (if teqb l gt then teqb l' l else true)
  (* both sides changed it differently, all three resolved: conflict [l - r + gt] unless
     the ancestry rule fast-forwards to the descendant *)
  && match l, r with
     | [a], [b] =>
         let c := gget (o_git pre) n in
         if (a =? b) || (b =? c) || (a =? c) then true
         else match ff_resolves anc a b c with
              | Some d => teqb l' [d]
              | None => teqb l' [a; b; c]
              end
     | _, _ => true
     end.

Definition export_name_ok (pre post : snapshot) (failed : list (N * N)) (n : N) : bool :=
  let l := get (o_local pre) n in
  let gr := get (o_grefs pre) n in
  let c := gget (o_git pre) n in
  let c' := gget (o_git post) n in
  let is_failed := mem N.eqb n (map fst failed) in
  (* export never touches local bookmarks *)
  teqb (get (o_local post) n) l
  (* compare-and-swap: a Git ref changes only if its value was the recorded one, and only
     to the (non-conflicted) local bookmark *)
  && ((c' =? c) || (teqb gr (tgt c) && teqb l (tgt c') && negb is_failed))
  (* conflicted bookmarks are not exported (the only failure that can be reported for one
     is a conflicted git_refs entry); Git, git_refs and @git stay as they were *)
  && (if has_conflict l
      then (c' =? c) && teqb (get (o_grefs post) n) gr
           && teqb (get (o_rgit post) n) (get (o_rgit pre) n)
           && forallb (fun p => negb (fst p =? n) || (snd p =? 1)) failed
      else true)
  (* a reported failure leaves Git, git_refs and the @git bookmark untouched *)
  && (if is_failed then (c' =? c) && teqb (get (o_grefs post) n) gr
                        && teqb (get (o_rgit post) n) (get (o_rgit pre) n)
      else true)
  (* not failed, not conflicted: the @git bookmark records the local bookmark; and if the
     recorded Git value was current, Git now has the local bookmark *)
  && (if negb is_failed && negb (has_conflict l)
      then teqb (get (o_rgit post) n) l
           && (if teqb gr (tgt c) then teqb (tgt c') l && teqb (get (o_grefs post) n) l else true)
      else true).

(** Convergence of an [Import; Export; Import] triple with nothing in between. *)
Definition triple_ok (names : list N) (i1_post : snapshot) (e_pre e_post : snapshot)
  (failed : list (N * N)) (i2_pre i2_post : snapshot) : bool :=
  snap_eqb_on names i1_post e_pre && snap_eqb_on names e_post i2_pre
  && snap_eqb_on names i2_pre i2_post
  && forallb (fun n =>
       let l := get (o_local i1_post) n in
       let is_failed := mem N.eqb n (map fst failed) in
       (if is_failed then teqb l (resolved root_id)
        else if has_conflict l then true
        else teqb (tgt (gget (o_git e_post) n)) l)) names.

Fixpoint steps_ok (anc : N -> N -> bool) (names : list N) (steps : list step) : bool :=
  match steps with
  | [] => true
  | Import pre post :: r =>
      forallb (import_name_ok anc pre post) names
      && match r with
         | Export epre epost failed :: Import ipre ipost :: _ =>
             triple_ok names post epre epost failed ipre ipost
         | _ => true
         end
      && steps_ok anc names r
  | Export pre post failed :: r =>
      forallb (export_name_ok pre post failed) names && steps_ok anc names r
  | _ :: r => steps_ok anc names r
  end.

Definition empty_view : view := mk_view [] [] [].

(** The model's own run of a history (observations ignored). *)
Definition step_exec (anc : N -> N -> bool) (sg : view * gmap) (a : step) : view * gmap :=
  let '(s, g) := sg in
  match a with
  | JjSet n t => (mk_view (set (local s) n t) (rgit s) (grefs s), g)
  | JjSetRgit n t => (mk_view (local s) (set (rgit s) n t) (grefs s), g)
  | JjSetGrefs n t => (mk_view (local s) (rgit s) (set (grefs s) n t), g)
  | GitSet n c => (s, gset g n c)
  | Import _ _ => (import_refs anc s g, g)
  | Export _ _ _ => (fst (fst (export_refs s g)), snd (fst (export_refs s g)))
  end.
Definition run (anc : N -> N -> bool) (steps : list step) : view * gmap :=
  fold_left (step_exec anc) steps (empty_view, []).

Definition okb (c : case) : bool :=
  c_flags_ok c && steps_ok (ancb (c_graph c)) (c_names c) (c_steps c).

Definition check_case (c : case) : N :=
  let corr := c_flags_ok c
              && replay (ancb (c_graph c)) (c_names c) (c_steps c) empty_view [] in
  verdict corr (okb c) false 1.
