(** C05 correspondence case: a file merge, what the real [files::merge_hunks],
    [materialize_merge_result_to_bytes], [choose_materialized_conflict_marker_len] and
    [parse_conflict] returned on it, plus one parse probe on edited marker text.
    Definitions only. *)
From Verif Require Import Base.Prelude Gen.Tables Model.Conflicts.

Definition style_of (n : N) : style :=
  match n with 0%N => StDiff | 1%N => StDiffExp | 2%N => StSnapshot | _ => StGit end.

Record case := mk_case {
  c_files : list bytes;            (* single_hunk: Merge<bytes> terms (add, remove, add, ...) *)
  c_word : bool;                   (* options.merge.hunk_level = Word *)
  c_merged : bytes + list hunk;    (* impl merge_hunks: inl = Resolved, inr = Conflict hunks *)
  c_style : N;                     (* 0 diff, 1 diff-experimental, 2 snapshot, 3 git *)
  c_len : option N;                (* options.marker_len *)
  c_labels : list bytes;           (* ConflictLabels terms, [] = unlabeled *)
  c_diffs : list (bytes * bytes * list dhunk);  (* impl ContentDiff::by_line([l, r]).hunks() *)
  c_out : bytes;                   (* impl materialize_merge_result_to_bytes *)
  c_chosen : N;                    (* impl choose_materialized_conflict_marker_len *)
  c_parsed : option (list hunk);   (* impl parse_conflict(out, num_sides, len) *)
  c_probe : bytes;                 (* edited / synthetic marker text *)
  c_probe_sides : N;
  c_probe_len : N;
  c_probe_parsed : option (list hunk);  (* impl parse_conflict(probe, sides, len) *)
  c_panicked : bool;
}.

Definition hunk_eqb : hunk -> hunk -> bool := list_eqb bytes_eqb.
Definition hunks_eqb : list hunk -> list hunk -> bool := list_eqb hunk_eqb.

(** Recorded line diffs as the diff oracle; an unrecorded pair gets the trivial diff. *)
Fixpoint lookup_diff (tbl : list (bytes * bytes * list dhunk)) (a b : bytes) : list dhunk :=
  match tbl with
  | [] => [mk_dhunk false a b]
  | (x, y, d) :: t => if bytes_eqb x a && bytes_eqb y b then d else lookup_diff t a b
  end.

(* ---------------------------------------------------- hypotheses of C05_roundtrip, as booleans *)

(** Every term of every hunk but the last is empty or LF-terminated. *)
Fixpoint nonlast_ends_okb (hs : list hunk) : bool :=
  match hs with
  | [] => true
  | [_] => true
  | h :: t => forallb ends_ok h && nonlast_ends_okb t
  end.

(** Resolved hunks are non-empty and never adjacent (as [collect_hunks] coalesces them). *)
Fixpoint resolved_okb (prev_resolved : bool) (hs : list hunk) : bool :=
  match hs with
  | [] => true
  | [c] :: t => negb prev_resolved && negb (bytes_eqb c []) && resolved_okb true t
  | _ :: t => resolved_okb false t
  end.

Definition wf_hunksb (n : nat) (hs : list hunk) : bool :=
  Nat.leb 2 n
  && forallb (fun h => is_resolved h || (Nat.odd (length h) && Nat.eqb (num_sides h) n)) hs
  && existsb (fun h => negb (is_resolved h)) hs
  && resolved_okb false hs
  && nonlast_ends_okb hs.

(** No line of [c] is a marker of length [>= L - 1] (so that also a one-byte [+]/[-]
    prefix cannot turn it into a marker of length [L]). *)
Definition line_dominatedb (L : nat) (l : bytes) : bool :=
  match marker_any_len l with Some (_, k) => Nat.ltb (S k) L | None => true end.
Definition dominatedb (L : nat) (c : bytes) : bool := forallb (line_dominatedb L) (lines c).
Definition hunks_dominatedb (L : nat) (hs : list hunk) : bool :=
  Nat.leb 2 L && forallb (forallb (dominatedb L)) hs.

(** Labels: no LF, and not ending in CR. *)
Definition label_okb (l : bytes) : bool :=
  negb (mem N.eqb LF l) && match last_opt l with Some b => negb (N.eqb b CR) | None => true end.

(** A recorded diff is a line-aligned partition of its two inputs. *)
Definition pieces_okb (a b : bytes) (ds : list dhunk) : bool :=
  bytes_eqb (concat (map d_left ds)) a
  && bytes_eqb (concat (map d_right ds)) b
  && forallb (fun d => ends_ok (d_left d) && ends_ok (d_right d)
                       && (negb (d_matching d) || bytes_eqb (d_left d) (d_right d))) ds.
Definition diffs_okb (tbl : list (bytes * bytes * list dhunk)) : bool :=
  forallb (fun e => pieces_okb (fst (fst e)) (snd (fst e)) (snd e)) tbl.

Definition hyps_b (n L : nat) (c : case) (hs : list hunk) : bool :=
  wf_hunksb n hs && hunks_dominatedb L hs && forallb label_okb (c_labels c)
  && diffs_okb (c_diffs c).

(** Every line of [t] is a line of one of the files. A line-level merge guarantees this for
    every hunk term: conflict terms are slices of the inputs at line boundaries, resolved
    hunks are concatenations of such slices (possibly of different inputs). *)
Definition lines_ofb (files : list bytes) (t : bytes) : bool :=
  forallb (fun l => mem bytes_eqb l (flat_map lines files)) (lines t).

(* ---------------------------------------------------- the check *)

Definition files_sides (c : case) : nat := num_sides (c_files c).
Definition case_len (c : case) : nat :=
  match c_len c with Some l => N.to_nat l | None => choose_marker_len (c_files c) end.

Definition model_out (c : case) : bytes :=
  match c_merged c with
  | inl content => content
  | inr hs =>
      materialize_conflict_hunks (lookup_diff (c_diffs c)) (detect_eol (c_files c))
        (case_len c) hs (style_of (c_style c)) (c_labels c)
  end.

(** Known-finding class K1 (word-level merges can synthesize marker lines that no input
    contains): a resolved hunk of a word-level merge has a line that parses as a marker of
    the materialized length. *)
Definition known_class (c : case) : bool :=
  c_word c &&
  match c_merged c with
  | inl _ => false
  | inr hs =>
      existsb (fun h => is_resolved h &&
                 existsb (fun t => existsb (fun l => match parse_marker l (case_len c) with
                                                     | Some _ => true | None => false end)
                                           (lines t)) h) hs
  end.

(** Property checker on the implementation's outputs: when the merge is a conflict and the
    marker length is the one jj chooses (or any length satisfying the theorem's hypotheses),
    parsing the implementation's bytes gives back exactly the implementation's hunks. *)
Definition okb (c : case) : bool :=
  negb (c_panicked c) &&
  match c_merged c with
  | inl content => bytes_eqb (c_out c) content
  | inr hs =>
      let required := match c_len c with
                      | None => true
                      | Some _ => hyps_b (files_sides c) (case_len c) c hs
                      end in
      negb required || option_eqb hunks_eqb (c_parsed c) (Some hs)
  end.

Definition check_case (c : case) : N :=
  let n := files_sides c in
  let L := case_len c in
  let d1 := bytes_eqb (model_out c) (c_out c) in
  let d2 := N.eqb (N.of_nat (choose_marker_len (c_files c))) (c_chosen c) in
  let d3 := option_eqb hunks_eqb (parse_conflict (c_out c) n L) (c_parsed c) in
  let d4 := option_eqb hunks_eqb
              (parse_conflict (c_probe c) (N.to_nat (c_probe_sides c)) (N.to_nat (c_probe_len c)))
              (c_probe_parsed c) in
  (* the theorem's hypotheses hold on every real line-level merge at the chosen length,
     and hunk terms of line-level merges consist of lines of the inputs *)
  let d5 := match c_merged c, c_len c with
            | inr hs, None => c_word c || hyps_b n L c hs
            | _, _ => true
            end in
  let d6 := match c_merged c with
            | inr hs => c_word c || forallb (forallb (lines_ofb (c_files c))) hs
            | inl _ => true
            end in
  let corr := d1 && d2 && d3 && d4 && d5 && d6 && negb (c_panicked c) in
  let detail : N := if negb d1 then 1%N else if negb d2 then 2%N else if negb d3 then 3%N
                else if negb d4 then 4%N else if negb d5 then 5%N else if negb d6 then 6%N
                else 7%N in
  verdict corr (okb c) (known_class c && corr && negb (okb c)) detail.
