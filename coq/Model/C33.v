(** C33 — Git ref names <-> jj bookmark/tag symbols (lib/src/git.rs).
    Names are byte strings ([list N]); the Rust code works on [&str], and every operation
    used ([strip_prefix] with an ASCII literal, [split_once('/')], [==], [contains('/')],
    [format!]) acts on the UTF-8 bytes exactly as the byte-level operations below, because
    '/' and the namespace literals are ASCII and UTF-8 is self-synchronising.
    All literals come from Gen/Tables.v (scraped from the source on every run).
    Definitions only; proofs are in Proofs/C33.v. *)
From Verif Require Import Base.Prelude Gen.Tables.
Local Open Scope N_scope.

(** [GitRefKind] (git.rs:183). *)
Inductive kind := Bookmark | Tag.
Definition kind_eqb (a b : kind) : bool :=
  match a, b with Bookmark, Bookmark | Tag, Tag => true | _, _ => false end.

(** [RemoteRefSymbol { name, remote }]. *)
Definition symbol := (bytes * bytes)%type.
Definition sym_name (s : symbol) : bytes := fst s.
Definition sym_remote (s : symbol) : bytes := snd s.
Definition symbol_eqb (a b : symbol) : bool :=
  bytes_eqb (fst a) (fst b) && bytes_eqb (snd a) (snd b).
Definition ksym_eqb (a b : kind * symbol) : bool :=
  kind_eqb (fst a) (fst b) && symbol_eqb (snd a) (snd b).

(** [str::strip_prefix]. *)
Fixpoint strip_prefix (p s : bytes) : option bytes :=
  match p, s with
  | [], _ => Some s
  | a :: p', b :: s' => if N.eqb a b then strip_prefix p' s' else None
  | _ :: _, [] => None
  end.

(** [str::split_once(c)] for a one-byte (ASCII) separator: split at the FIRST occurrence. *)
Fixpoint split_once (c : N) (s : bytes) : option (bytes * bytes) :=
  match s with
  | [] => None
  | b :: t =>
      if N.eqb b c then Some ([], t)
      else match split_once c t with
           | Some (l, r) => Some (b :: l, r)
           | None => None
           end
  end.

(** [str::contains(c)]. *)
Definition contains (c : N) (s : bytes) : bool := existsb (N.eqb c) s.

(** A scraped [char] literal; every such literal in the anchored code is one ASCII byte
    (a longer one would make the model differ from the code: correspondence alarm). *)
Definition char_of (l : list N) : N := match l with [c] => c | _ => 256 end.

Definition LOCAL : bytes := C33_LOCAL_REMOTE.        (* REMOTE_NAME_FOR_LOCAL_GIT_REPO = "git" *)
Definition REMOTES : bytes := C33_REMOTE_BOOKMARK_NS. (* "refs/remotes/" *)
Definition RTAGS : bytes := C33_REMOTE_TAG_NS.        (* "refs/jj/remote-tags/" *)

(** [parse_git_ref] (git.rs:339-367), arm by arm, in the source's order. *)
Definition parse_git_ref (full : bytes) : option (kind * symbol) :=
  match strip_prefix C33_PARSE_HEADS_NS full with
  | Some name =>
      (* Git CLI says 'HEAD' is not a valid branch name *)
      if bytes_eqb name C33_PARSE_LOCAL_HEAD then None
      else Some (Bookmark, (name, LOCAL))
  | None =>
      match strip_prefix REMOTES full with
      | Some remote_and_name =>
          match split_once (char_of C33_SPLIT_CHAR) remote_and_name with
          | None => None                                      (* the [?] *)
          | Some (remote, name) =>
              if bytes_eqb remote LOCAL || bytes_eqb name C33_PARSE_REMOTE_HEAD then None
              else Some (Bookmark, (name, remote))
          end
      | None =>
          match strip_prefix C33_PARSE_TAGS_NS full with
          | Some name => Some (Tag, (name, LOCAL))
          | None => None
          end
      end
  end.

(** [parse_remote_tag_ref] (git.rs:369-378). *)
Definition parse_remote_tag_ref (full : bytes) : option (kind * symbol) :=
  match strip_prefix RTAGS full with
  | None => None
  | Some remote_and_name =>
      match split_once (char_of C33_SPLIT2_CHAR) remote_and_name with
      | None => None
      | Some (remote, name) =>
          if bytes_eqb remote LOCAL then None else Some (Tag, (name, remote))
      end
  end.

Definition is_empty (s : bytes) : bool := match s with [] => true | _ => false end.

(** [to_git_ref_name] (git.rs:380-403). *)
Definition to_git_ref_name (k : kind) (s : symbol) : option bytes :=
  let name := sym_name s in
  let remote := sym_remote s in
  if is_empty name || is_empty remote then None
  else match k with
       | Bookmark =>
           if bytes_eqb name C33_EXPORT_HEAD then None
           else if bytes_eqb remote LOCAL then Some (C33_EXPORT_HEADS_NS ++ name)
           else Some (REMOTES ++ remote ++ C33_EXPORT_SEP ++ name)
       | Tag =>
           (* Only local tags are mapped. *)
           if bytes_eqb remote LOCAL then Some (C33_EXPORT_TAGS_NS ++ name) else None
       end.

(** [to_git_or_remote_tag_ref_name] (git.rs:405-414). *)
Definition to_git_or_remote_tag_ref_name (s : symbol) : bytes :=
  let name := sym_name s in
  let remote := sym_remote s in
  if bytes_eqb remote LOCAL then C33_EXPORT2_TAGS_NS ++ name
  else RTAGS ++ remote ++ C33_EXPORT2_SEP ++ name.

(** [validate_remote_name] (git.rs:160-169). The first step,
    [gix::remote::name::validated], is code jj does not own: its verdict is an input. *)
Inductive remote_verdict := RvOk | RvInvalidName | RvReserved | RvWithSlash.
Definition rv_eqb (a b : remote_verdict) : bool :=
  match a, b with
  | RvOk, RvOk | RvInvalidName, RvInvalidName | RvReserved, RvReserved
  | RvWithSlash, RvWithSlash => true
  | _, _ => false
  end.
Definition validate_remote_name (gix_ok : bool) (name : bytes) : remote_verdict :=
  if negb gix_ok then RvInvalidName
  else if bytes_eqb name LOCAL then RvReserved
  else if contains (char_of C33_VALIDATE_SLASH) name then RvWithSlash
  else RvOk.

(** The separator as a byte, and "no empty path component" (what every ref name Git
    itself accepts satisfies: no leading, trailing or doubled '/'). [prev_sep] says the
    previous byte was a separator (or we are at the start). *)
Definition SLASH : N := 47.
Definition no_slash (s : bytes) : bool := negb (contains SLASH s).
Fixpoint wf_from (prev_sep : bool) (s : bytes) : bool :=
  match s with
  | [] => negb prev_sep
  | b :: t => if N.eqb b SLASH then negb prev_sep && wf_from true t else wf_from false t
  end.
Definition no_empty_component (r : bytes) : bool := wf_from true r.

(** * Correspondence case: a list of observations of the real functions. *)
Inductive obs :=
| OExport (k : kind) (s : symbol) (res : option bytes)          (* verif_to_git_ref_name *)
| OParse (r : bytes) (res : option (kind * symbol))              (* parse_git_ref *)
| OValidate (remote : bytes) (gix_ok : bool) (res : remote_verdict)
                                                                 (* gix verdict, verif_validate_remote_name *)
| ORtagExport (s : symbol) (res : bytes)                         (* verif_to_git_or_remote_tag_ref_name *)
| ORtagParse (r : bytes) (res : option (kind * symbol))          (* verif_parse_remote_tag_ref *)
| OGitValid (r : bytes).                                         (* gix_validate accepts [r] as a full ref name *)

Record case := mk_case {
  c_obs : list obs;
  c_panicked : bool;
}.

Definition obs_corr (o : obs) : bool :=
  match o with
  | OExport k s res => option_eqb bytes_eqb (to_git_ref_name k s) res
  | OParse r res => option_eqb ksym_eqb (parse_git_ref r) res
  | OValidate rm g res => rv_eqb (validate_remote_name g rm) res
  | ORtagExport s res => bytes_eqb (to_git_or_remote_tag_ref_name s) res
  | ORtagParse r res => option_eqb ksym_eqb (parse_remote_tag_ref r) res
  | OGitValid r => true
  end.

(** Recorded answers, looked up by input (first observation wins). *)
Fixpoint lookup_parse (l : list obs) (r : bytes) : option (option (kind * symbol)) :=
  match l with
  | [] => None
  | OParse r' res :: t => if bytes_eqb r r' then Some res else lookup_parse t r
  | _ :: t => lookup_parse t r
  end.
Fixpoint lookup_export (l : list obs) (k : kind) (s : symbol) : option (option bytes) :=
  match l with
  | [] => None
  | OExport k' s' res :: t =>
      if ksym_eqb (k, s) (k', s') then Some res else lookup_export t k s
  | _ :: t => lookup_export t k s
  end.
Fixpoint lookup_rtag_parse (l : list obs) (r : bytes) : option (option (kind * symbol)) :=
  match l with
  | [] => None
  | ORtagParse r' res :: t => if bytes_eqb r r' then Some res else lookup_rtag_parse t r
  | _ :: t => lookup_rtag_parse t r
  end.

(** The property, evaluated on the implementation's recorded answers only (the model's
    functions do not occur):
    - an exported name (remote without '/') was parsed back to the same kind and symbol;
    - a parsed symbol of a ref without empty components was exported to the same ref;
    - two observed exports with slash-free remotes giving the same ref are of one symbol;
    - two observed parses giving the same symbol are of one ref;
    - an accepted remote name has no '/' and is not the reserved one;
    - a remote-tag ref built for a slash-free non-reserved remote parses back, and
      [parse_git_ref] does not import it;
    - a ref Git accepts has no empty component. *)
Definition obs_okb (all : list obs) (o : obs) : bool :=
  match o with
  | OExport k s (Some r) =>
      negb (no_slash (sym_remote s))
      || (option_eqb (option_eqb ksym_eqb) (lookup_parse all r) (Some (Some (k, s)))
          && forallb (fun o' => match o' with
                                | OExport k' s' (Some r') =>
                                    negb (no_slash (sym_remote s')) || negb (bytes_eqb r r')
                                    || ksym_eqb (k, s) (k', s')
                                | _ => true
                                end) all)
  | OExport _ _ None => true
  | OParse r (Some ks) =>
      (negb (no_empty_component r)
       || option_eqb (option_eqb bytes_eqb) (lookup_export all (fst ks) (snd ks)) (Some (Some r)))
      && forallb (fun o' => match o' with
                            | OParse r' (Some ks') => negb (ksym_eqb ks ks') || bytes_eqb r r'
                            | _ => true
                            end) all
  | OParse _ None => true
  | OValidate rm _ RvOk => no_slash rm && negb (bytes_eqb rm LOCAL)
  | OValidate _ _ _ => true
  | ORtagExport s r =>
      negb (no_slash (sym_remote s)) || bytes_eqb (sym_remote s) LOCAL
      || (option_eqb (option_eqb ksym_eqb) (lookup_rtag_parse all r) (Some (Some (Tag, s)))
          && option_eqb (option_eqb ksym_eqb) (lookup_parse all r) (Some None))
  | ORtagParse _ _ => true
  | OGitValid r => no_empty_component r
  end.

Definition okb (c : case) : bool :=
  negb (c_panicked c) && forallb (obs_okb (c_obs c)) (c_obs c).

Definition check_case (c : case) : N :=
  let corr := negb (c_panicked c) && forallb obs_corr (c_obs c) in
  verdict corr (okb c) false 1.
