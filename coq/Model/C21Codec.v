(** C21 — byte codec of a stacked-table segment (definitions only).
    MutableTable::serialize (lib/src/stacked_table.rs:288-312) and ReadonlyTable::load_from /
    segment_value_by_pos (stacked_table.rs:87-159): u32-LE parent-name length, parent name,
    u32-LE entry count, the index (key || u32-LE offset into the value area per entry), then
    the concatenated values; the value of entry i is values[off i .. off (i+1)], the last one
    running to the end of the file. *)
From Verif Require Import Base.Prelude.
From Coq Require Import Arith.

Definition u32le (n : N) : bytes :=
  [n mod 256; (n / 256) mod 256; (n / 65536) mod 256; (n / 16777216) mod 256]%N.

Definition rd_u32 (b : bytes) : option (N * bytes) :=
  match b with
  | b0 :: b1 :: b2 :: b3 :: r => Some (b0 + 256 * b1 + 65536 * b2 + 16777216 * b3, r)%N
  | _ => None
  end.

Definition blen {A} (b : list A) : N := N.of_nat (length b).

(** index entries with the running value offset *)
Fixpoint ser_index (off : N) (es : list (bytes * bytes)) : bytes :=
  match es with
  | [] => []
  | (k, v) :: r => k ++ u32le off ++ ser_index (off + blen v)%N r
  end.

Definition serialize (parent : bytes) (es : list (bytes * bytes)) : bytes :=
  u32le (blen parent) ++ parent ++ u32le (blen es)
  ++ ser_index 0 es ++ concat (map snd es).

(** the index as (key, offset) pairs *)
Fixpoint rd_index (ks n : nat) (b : bytes) : option (list (bytes * N)) :=
  match n with
  | O => Some []
  | S n' =>
    match rd_u32 (skipn ks b) with
    | None => None
    | Some (off, r) =>
      match rd_index ks n' r with
      | None => None
      | Some l => Some ((firstn ks b, off) :: l)
      end
    end
  end.

(** segment_value_by_pos for every position *)
Fixpoint cut_values (idx : list (bytes * N)) (values : bytes) : list (bytes * bytes) :=
  match idx with
  | [] => []
  | (k, off) :: r =>
    let stop := match r with [] => blen values | (_, off') :: _ => off' end in
    (k, firstn (N.to_nat (stop - off)) (skipn (N.to_nat off) values)) :: cut_values r values
  end.

Definition load (ks : nat) (b : bytes) : option (bytes * list (bytes * bytes)) :=
  match rd_u32 b with
  | None => None
  | Some (plen, r1) =>
    let parent := firstn (N.to_nat plen) r1 in
    match rd_u32 (skipn (N.to_nat plen) r1) with
    | None => None
    | Some (n, r2) =>
      let isz := (N.to_nat n * (ks + 4))%nat in
      match rd_index ks (N.to_nat n) (firstn isz r2) with
      | None => None
      | Some idx => Some (parent, cut_values idx (skipn isz r2))
      end
    end
  end.
