(** C22 — changed-path index (lib/src/default_index/changed_path.rs, store.rs, mutable.rs).
    Trees are flat maps from a fixed, sorted path universe to small value numbers
    (0 = absent); the merged-parents tree of every commit is DATA (recorded from the real
    [merge_commit_trees]).  The index is modelled abstractly as a start position and the
    list of stored path sets (the on-disk segment format, the segment stack and its
    squashing are NOT modelled; they are tied by correspondence through
    [Index::changed_paths_in_commit]).  Definitions only. *)
From Verif Require Import Base.Prelude.
From Coq Require Import Arith.
Local Open Scope nat_scope.

(** A commit: value of every path of the universe in its tree and in the merge of its
    parents' trees. *)
Record commit := mk_commit { k_tree : list N; k_ptree : list N }.

Definition value_at (t : list N) (p : nat) : N := nth p t 0%N.

(** [collect_changed_paths] (changed_path.rs:566): the sorted paths whose value in the
    commit differs from the (resolved) value in the merged parents. *)
Definition changed_at (c : commit) (p : nat) : bool :=
  negb (N.eqb (value_at (k_tree c) p) (value_at (k_ptree c) p)).
Definition changed_paths (npaths : nat) (c : commit) : list nat :=
  filter (changed_at c) (seq 0 npaths).

(** [CompositeChangedPathIndex], abstractly: [None] = the null index (disabled);
    [Some (start, entries)]: entry [i] is the stored path set of position [start + i]. *)
Definition cpindex := option (nat * list (list nat)).

(** [changed_paths(global_pos)] (changed_path.rs:493). *)
Definition cp_lookup (ix : cpindex) (pos : nat) : option (list nat) :=
  match ix with
  | None => None
  | Some (start, es) =>
      if Nat.leb start pos then nth_error es (pos - start) else None
  end.

(** [next_mutable_commit_pos] of a mutable index. *)
Definition cp_next (ix : cpindex) : option nat :=
  match ix with None => None | Some (start, es) => Some (start + length es) end.

Section Repo.
  Variable npaths : nat.
  (** the commits in index order (position = list position) *)

  (** [DefaultMutableIndex::add_commit] (mutable.rs:489): the new commit takes position
      [n]; its changed paths are recorded iff the index is enabled and contiguous. *)
  Definition add_commit (n : nat) (ix : cpindex) (c : commit) : cpindex :=
    match ix with
    | Some (start, es) =>
        if Nat.eqb (start + length es) n then Some (start, es ++ [changed_paths npaths c]) else ix
    | None => None
    end.

  Definition slice {A} (lo hi : nat) (l : list A) : list A := firstn (hi - lo) (skipn lo l).

  (** [build_changed_path_index_at_operation] (store.rs:353): [commits] are all commits of
      the index in position order, [maxc] is [max_commits] (a u32; [saturating_add] /
      [saturating_sub] as in the source). *)
  Definition U32MAX : N := 4294967295.
  Definition build (commits : list commit) (ix : cpindex) (maxc : N) : cpindex :=
    let n := length commits in
    let cps lo hi := map (changed_paths npaths) (slice lo hi commits) in
    match ix with
    | Some (pos, es) =>
        let post_start := pos + length es in
        let post_end_N := N.min (N.min (N.of_nat post_start + maxc) U32MAX) (N.of_nat n) in
        let post_end := N.to_nat post_end_N in
        let pre_start :=
          N.to_nat (N.of_nat pos - (maxc - (post_end_N - N.of_nat post_start))) in
        Some (pre_start, cps pre_start pos ++ es ++ cps post_start post_end)
    | None =>
        let pre_start := N.to_nat (N.of_nat n - maxc) in
        Some (pre_start, cps pre_start n)
    end.

  (** One step of a repository history. *)
  Inductive step :=
  | SCommit (c : commit)          (* a commit is written (and indexed) *)
  | SBuild (maxc : N).            (* changed-path index (re)built for the current operation *)

  Definition run_step (st : list commit * cpindex) (s : step) : list commit * cpindex :=
    let (cs, ix) := st in
    match s with
    | SCommit c => (cs ++ [c], add_commit (length cs) ix c)
    | SBuild m => (cs, build cs ix m)
    end.
  Definition run (steps : list step) : list commit * cpindex :=
    fold_left run_step steps ([], None).

  (** Two concurrent operations [a], [b] started from the same state and then merged
      ([DefaultMutableIndex::merge_in], mutable.rs:529): the first operation's index is kept,
      the other side's new commits are appended, and their stored path sets are copied from
      the other index for as long as it has them — provided the kept index is enabled and
      contiguous up to its end. *)
  Fixpoint while_some {A} (l : list (option A)) : list A :=
    match l with
    | Some x :: t => x :: while_some t
    | _ => []
    end.
  Definition merge_in (n1 : nat) (ix1 : cpindex) (n0 : nat) (ix2 : cpindex) (nb : nat) : cpindex :=
    match ix1 with
    | Some (s, es) =>
        if Nat.eqb (s + length es) n1
        then Some (s, es ++ while_some (map (fun j => cp_lookup ix2 (n0 + j)) (seq 0 nb)))
        else ix1
    | None => None
    end.

  Inductive tstep :=
  | TOne (s : step)
  | TFork (a b : list step).

  Definition run_tstep (st : list commit * cpindex) (t : tstep) : list commit * cpindex :=
    match t with
    | TOne s => run_step st s
    | TFork a b =>
        let (cs1, ix1) := fold_left run_step a st in
        let (cs2, ix2) := fold_left run_step b st in
        let n0 := length (fst st) in
        let B := skipn n0 cs2 in
        (cs1 ++ B, merge_in (length cs1) ix1 n0 ix2 (length B))
    end.
  Definition run_t (steps : list tstep) : list commit * cpindex :=
    fold_left run_tstep steps ([], None).

  (** The [files(matcher)] filter (revset_engine.rs:1375): through the index when the
      commit is indexed, through the tree diff otherwise ([has_diff_from_parent]). *)
  Definition pred_index (m : nat -> bool) (paths : list nat) : bool := existsb m paths.
  Definition pred_diff (m : nat -> bool) (c : commit) : bool :=
    existsb (fun p => m p && changed_at c p) (seq 0 npaths).
  Definition files_pred (m : nat -> bool) (ix : cpindex) (pos : nat) (c : commit) : bool :=
    match cp_lookup ix pos with
    | Some paths => pred_index m paths
    | None => pred_diff m c
    end.
End Repo.

(* ------------------------------------------------------------------ the case *)

Inductive cstep := CCommit (tree ptree : list N) | CBuild (maxc : N).
Inductive ctstep := CT (s : cstep) | CF (a b : list cstep).

Record case := mk_case {
  c_npaths : N;                                  (* size of the sorted path universe *)
  c_steps : list ctstep;                         (* what was done to the repository *)
  c_stored : list (option (list N));             (* impl: changed_paths_in_commit per position *)
  c_range : option (N * N);                      (* impl: stats().changed_path_commits_range *)
  c_matchers : list (list N);                    (* path-set matchers (members) *)
  c_enabled : list (list N);                     (* impl: positions matching files(m), index as built *)
  c_disabled : list (list N);                    (* impl: the same with the index removed *)
}.

Definition to_step (s : cstep) : step :=
  match s with
  | CCommit t p => SCommit (mk_commit t p)
  | CBuild m => SBuild m
  end.
Definition to_tstep (t : ctstep) : tstep :=
  match t with
  | CT s => TOne (to_step s)
  | CF a b => TFork (map to_step a) (map to_step b)
  end.
Definition case_run (c : case) := run_t (N.to_nat (c_npaths c)) (map to_tstep (c_steps c)).
Definition natl (l : list N) : list nat := map N.to_nat l.
Definition lnat_eqb := list_eqb Nat.eqb.
Definition matcher_of (l : list N) (p : nat) : bool := existsb (Nat.eqb p) (natl l).

Definition positions_where (n : nat) (f : nat -> bool) : list nat := filter f (seq 0 n).

(** The property on the implementation's outputs: every stored set is exactly the commit's
    changed paths; the indexed positions form the reported contiguous range; for every
    matcher the index-accelerated and the diff-based evaluations of [files()] agree. *)
Definition okb (c : case) : bool :=
  let np := N.to_nat (c_npaths c) in
  let cs := fst (case_run c) in
  Nat.eqb (length (c_stored c)) (length cs)
  && forallb (fun pc => match fst pc with
                        | Some l => lnat_eqb (natl l) (changed_paths np (snd pc))
                        | None => true
                        end) (combine (c_stored c) cs)
  && match c_range c with
     | Some (lo, hi) =>
         forallb (fun ps => Bool.eqb (match snd ps with Some _ => true | None => false end)
                                     (Nat.leb (N.to_nat lo) (fst ps) && Nat.ltb (fst ps) (N.to_nat hi)))
                 (combine (seq 0 (length cs)) (c_stored c))
     | None => forallb (fun s => match s with Some _ => false | None => true end) (c_stored c)
     end
  && list_eqb (list_eqb N.eqb) (c_enabled c) (c_disabled c).

Definition check_case (c : case) : N :=
  let np := N.to_nat (c_npaths c) in
  let (cs, ix) := case_run c in
  let n := length cs in
  let c1 := list_eqb (option_eqb lnat_eqb)
              (map (cp_lookup ix) (seq 0 n)) (map (option_map natl) (c_stored c)) in
  let c2 := option_eqb (pair_eqb Nat.eqb Nat.eqb)
              (match ix with Some (s, es) => Some (s, s + length es) | None => None end)
              (option_map (fun r => (N.to_nat (fst r), N.to_nat (snd r))) (c_range c)) in
  let model_files (use_ix : bool) (m : list N) : list nat :=
      positions_where n (fun pos =>
        match nth_error cs pos with
        | Some k => if use_ix then files_pred np (matcher_of m) ix pos k
                    else pred_diff np (matcher_of m) k
        | None => false
        end) in
  let c3 := list_eqb lnat_eqb (map (model_files true) (c_matchers c)) (map natl (c_enabled c)) in
  let c4 := list_eqb lnat_eqb (map (model_files false) (c_matchers c)) (map natl (c_disabled c)) in
  verdict (c1 && c2 && c3 && c4) (okb c) false
          (if negb c1 then 1 else if negb c2 then 2 else if negb c3 then 3 else 4).
