(** C42 — immutable commits are never rewritten: protocol model and trace acceptor.

    Anchors (cli/src/cli_util.rs unless said otherwise):
    - [immutable_expression] = [immutable_heads_expression.ancestors()] (l.1085-1090) and the
      root commit ([revset-aliases."immutable()" = ::(immutable_heads() | root())]);
    - [check_rewritable_expr] (l.2030-2074): refuse iff [immutable ∩ targets] is non-empty;
    - callers: describe.rs:104, abandon.rs:85 (visible targets), rebase.rs:441/487/552
      (-r targets, -s sources, -b roots of [onto..branch]), squash.rs:234 (sources and
      destination), edit.rs:63, compute_commit_location l.3654 (children of --insert-before);
      commit.rs and lib/src/repo.rs [maybe_abandon_wc_commit] (l.1644) have NO such check;
    - [snapshot_working_copy] l.2124-2155: working-copy commit immutable => new child commit,
      otherwise the working-copy commit is rewritten (and its descendants rebased);
    - [finish_transaction] l.2345-2371: a working-copy commit of the invoking workspace that is
      immutable after the transaction gets a new child commit.

    Commits are positions in an append-only store (parents at smaller positions, position 0
    is the root commit); the view holds visible heads, bookmarks, tags and the working-copy
    commit of each workspace.  The real CLI is observed step by step; [accept] replays each
    observed step against the decisions of the model.  Definitions only. *)
From Verif Require Import Base.Prelude.
From Coq Require Import Arith.
Import ListNotations.

(** * Commit graph *)
Definition graph := list (list nat).
Definition parents (g : graph) (c : nat) : list nat := nth c g [].

Fixpoint wf_from (news : graph) (i : nat) : bool :=
  match news with
  | [] => true
  | ps :: t => forallb (fun p => p <? i) ps && wf_from t (S i)
  end.
Definition wf_graphb (g : graph) : bool := wf_from g 0.

(** [ancb g fuel a d]: [a] is an ancestor of [d] (reflexive), following at most [fuel]
    parent edges.  Parents are smaller, so fuel [d] always suffices. *)
Fixpoint ancb (g : graph) (fuel a d : nat) : bool :=
  Nat.eqb a d ||
  match fuel with
  | O => false
  | S f => existsb (fun p => ancb g f a p) (parents g d)
  end.
Definition is_anc (g : graph) (a d : nat) : bool := ancb g d a d.

(** [c] is one of [ts] or a descendant of one of them. *)
Definition descb (g : graph) (ts : list nat) (c : nat) : bool :=
  existsb (fun t => is_anc g t c) ts.

Definition memn (x : nat) (l : list nat) : bool := existsb (Nat.eqb x) l.
Definition subsetn (a b : list nat) : bool := forallb (fun x => memn x b) a.
Definition seteqn (a b : list nat) : bool := subsetn a b && subsetn b a.

(** * View and repository state *)
Record view := mk_view {
  v_heads : list nat;          (* visible heads *)
  v_bms : list (N * nat);      (* local bookmarks *)
  v_tags : list (N * nat);     (* local tags *)
  v_wcs : list (N * nat);      (* workspace -> working-copy commit *)
}.

Record repo := mk_repo {
  r_graph : graph;
  r_view : view;
  r_disc : list nat;           (* commits that are empty and have no description *)
}.

Definition visb (g : graph) (v : view) (c : nat) : bool :=
  existsb (fun h => is_anc g c h) (v_heads v).
Definition vis_list (g : graph) (v : view) : list nat :=
  filter (visb g v) (seq 0 (length g)).

Definition wc_of (v : view) (ws : N) : option nat :=
  match filter (fun p => N.eqb (fst p) ws) (v_wcs v) with
  | p :: _ => Some (snd p)
  | [] => None
  end.

(** * The configured immutable heads ([revset-aliases."immutable_heads()"]) *)
Inductive hexpr :=
| HNone                          (* none() *)
| HCommit (c : nat)              (* a commit id *)
| HBookmark (b : N)              (* bookmarks(exact:b) *)
| HBookmarks                     (* bookmarks() *)
| HTags                          (* tags(); the builtin default when there are no remotes *)
| HUnion (x y : hexpr).

Fixpoint heval (v : view) (e : hexpr) : list nat :=
  match e with
  | HNone => []
  | HCommit c => [c]
  | HBookmark b => map snd (filter (fun p => N.eqb (fst p) b) (v_bms v))
  | HBookmarks => map snd (v_bms v)
  | HTags => map snd (v_tags v)
  | HUnion x y => heval v x ++ heval v y
  end.

(** [immutable() = ::(immutable_heads() | root())] *)
Definition immb (g : graph) (v : view) (e : hexpr) (c : nat) : bool :=
  Nat.eqb c 0 || existsb (fun h => is_anc g c h) (heval v e).

(** * Commands *)

(** --insert-after / --insert-before locations ([compute_commit_location] l.3584-3668). *)
Inductive loc := LAfter (x : nat) | LBefore (y : nat) | LBoth (x y : nat).

Inductive cmd :=
| CDescribe (ts : list nat)          (* jj describe -r ts -m <fresh text> *)
| CAbandon (ts : list nat)           (* jj abandon ts *)
| CRebaseS (ss : list nat) (d : nat) (* jj rebase -s ss -d d *)
| CRebaseR (ts : list nat) (d : nat) (* jj rebase -r ts -d d *)
| CRebaseB (b d : nat)               (* jj rebase -b b -d d *)
| CSquash (from into : nat)          (* jj squash --from --into *)
| CEdit (c : nat)                    (* jj edit c *)
| CNew (ps : list nat)               (* jj new ps *)
| CNewBefore (x : nat)               (* jj new --insert-before x *)
| CCommit                            (* jj commit -m <text> *)
| CBookmarkSet (b : N) (c : nat)     (* jj bookmark set b -r c --allow-backwards *)
| CTagSet (t : N) (c : nat)          (* jj tag set t -r c --allow-move *)
| CNewLoc (l : loc)                  (* jj new -A x [-B y] *)
| CRebaseLoc (z : nat) (l : loc)     (* jj rebase -r z -A x / -B y / -A x -B y *)
| CDupLoc (z : nat) (l : loc)        (* jj duplicate z -A x / -B y / -A x -B y *)
| CRestore (from into : nat)         (* jj restore --from --into *)
| CMetaedit (ts : list nat)          (* jj metaedit --update-author-timestamp ts *)
| CSnapshot                          (* a command that only snapshots a modified working copy *)
| CWorkspaceAdd                      (* jj workspace add *)
| CObserve.                          (* no command: re-observation after a config edit *)

(** roots of [d..b] (rebase.rs:548-552) *)
Definition range_roots (g : graph) (d b : nat) : list nat :=
  let inr := fun c => is_anc g c b && negb (is_anc g c d) in
  filter (fun c => inr c && negb (existsb inr (parents g c))) (seq 0 (S b)).

(** The new children of an inserted commit, which [compute_commit_location] passes to
    [check_rewritable] (l.3652-3655): the visible children of [x] for -A alone, [y] for -B and
    for the combined form. *)
Definition loc_children (g : graph) (v : view) (l : loc) : list nat :=
  match l with
  | LAfter x => filter (fun c => visb g v c && memn x (parents g c)) (seq 0 (length g))
  | LBefore y => [y]
  | LBoth _ y => [y]
  end.

(** The commits a command passes to [check_rewritable]. *)
Definition check_targets (g : graph) (v : view) (c : cmd) : list nat :=
  match c with
  | CNewLoc l => loc_children g v l
  | CRebaseLoc z l => z :: loc_children g v l
  | CDupLoc _ l => loc_children g v l
  | CDescribe ts => ts
  | CAbandon ts => ts
  | CRebaseS ss _ => ss
  | CRebaseR ts _ => ts
  | CRebaseB b d => range_roots g d b
  | CSquash f i => [f; i]
  | CEdit c => [c]
  | CNewBefore x => [x]
  | CRestore _ i => [i]
  | CMetaedit ts => ts
  | CNew _ | CCommit | CBookmarkSet _ _ | CTagSet _ _ | CSnapshot | CWorkspaceAdd | CObserve => []
  end.

(** [check_rewritable]: true = refused. *)
Definition refuses (g : graph) (v : view) (e : hexpr) (c : cmd) : bool :=
  existsb (immb g v e) (check_targets g v c).

(** Commits whose descendants (inclusive) the command may rewrite or abandon.  [jj commit] and
    a snapshot of a mutable working-copy commit rewrite the working-copy commit without
    consulting [check_rewritable]. *)
Definition rewrite_roots (g : graph) (v : view) (wc : option nat) (c : cmd) : list nat :=
  match c with
  | CCommit | CSnapshot => match wc with Some w => [w] | None => [] end
  | _ => check_targets g v c
  end.

(** lib/src/repo.rs [maybe_abandon_wc_commit]: leaving a working-copy commit abandons it when
    it is discardable, not referenced by a bookmark, tag or other workspace, and a head. *)
Definition leaves_wc (c : cmd) (w : nat) : bool :=
  match c with
  | CEdit x => negb (Nat.eqb x w)
  | CNew ps => negb (memn w ps)        (* a child of [w] keeps it from being a head *)
  | CNewBefore _ | CCommit => true
  | CNewLoc l => match l with LAfter x | LBoth x _ => negb (Nat.eqb x w) | LBefore _ => true end
  | _ => false
  end.
Definition wc_abandoned (r : repo) (ws : N) (c : cmd) (w : nat) : bool :=
  let v := r_view r in
  leaves_wc c w && memn w (r_disc r) && memn w (v_heads v)
  && negb (memn w (map snd (v_bms v))) && negb (memn w (map snd (v_tags v)))
  && negb (memn w (map snd (filter (fun p => negb (N.eqb (fst p) ws)) (v_wcs v)))).

(** * Observed steps *)
Record event := mk_event {
  e_ws : N;                     (* invoking workspace *)
  e_cfg : hexpr;                (* immutable_heads() in effect *)
  e_override : bool;            (* the command was given --ignore-immutable *)
  e_cmd : cmd;
  e_status : N;                 (* 0 = ok; 1 = refused "... is immutable"; 2 = other error *)
  e_nops : nat;                 (* operations added by the command *)
  e_new : graph;                (* parents of the commits first seen after the command *)
  e_newdisc : list nat;         (* those of them that are empty and undescribed *)
  e_rewritten : list nat;       (* predecessors recorded by the added operations *)
  e_view : view;                (* view after the command *)
  e_imm_pre : list nat;         (* visible commits shown as immutable before the command *)
  e_vis_post : list nat;        (* visible commits after the command *)
}.

(** [resolve_immutable_expression] (l.1142-1164): with [--ignore-immutable] only the root
    commit counts as immutable, in [check_rewritable], in the snapshot and in
    [finish_transaction] alike. *)
Definition eff_cfg (ev : event) : hexpr := if e_override ev then HNone else e_cfg ev.

(** [jj duplicate] records the copied commit as predecessor of the copy although it is not
    rewritten (it stays visible, unchanged): such an entry is not a rewrite. *)
Definition dup_source (c : cmd) (x : nat) : bool :=
  match c with CDupLoc z _ => Nat.eqb x z | _ => false end.
Definition rew_eff (ev : event) : list nat :=
  filter (fun x => negb (dup_source (e_cmd ev) x && memn x (e_vis_post ev))) (e_rewritten ev).

Definition pair_nat_eqb (p q : N * nat) : bool := N.eqb (fst p) (fst q) && Nat.eqb (snd p) (snd q).
Definition view_eqb (a b : view) : bool :=
  list_eqb Nat.eqb (v_heads a) (v_heads b) && list_eqb pair_nat_eqb (v_bms a) (v_bms b)
  && list_eqb pair_nat_eqb (v_tags a) (v_tags b) && list_eqb pair_nat_eqb (v_wcs a) (v_wcs b).

Definition is_fresh (g : graph) (c : nat) : bool := length g <=? c.

(** Commands for which every visible descendant of the roots is rewritten (the rest may
    skip commits that are already in place). *)
Definition exact_kind (c : cmd) : bool :=
  match c with
  | CDescribe _ | CAbandon _ | CCommit | CSnapshot | CNewBefore _ | CMetaedit _ => true
  | _ => false
  end.

(** The working-copy commit the transaction asks for, before [finish_transaction]'s
    immutability fix-up: [None] = some commit created by the command. *)
Definition nominal_wc (c : cmd) (w : nat) (hidden : list nat) : option nat :=
  match c with
  | CEdit x => Some x
  | CNew _ | CNewBefore _ | CNewLoc _ | CCommit | CSnapshot | CWorkspaceAdd => None
  | _ => if memn w hidden then None else Some w
  end.

(** Checks on a successful step.  [g], [v]: state before; [g'], [v']: after. *)
Definition accept_ok (r : repo) (ev : event) : bool :=
  let g := r_graph r in
  let v := r_view r in
  let e := eff_cfg ev in
  let c := e_cmd ev in
  let g' := g ++ e_new ev in
  let v' := e_view ev in
  let wc := wc_of v (e_ws ev) in
  let pre := vis_list g v in
  let hidden := filter (fun x => negb (visb g' v' x)) pre in
  let rew := rew_eff ev in
  let roots := rewrite_roots g v wc c in
  let snap_child := match c, wc with CSnapshot, Some w => immb g v e w | _, _ => false end in
  (* [rebase_mutable_descendants] (l.2960-2978): the descendant rebase skips commits that are
     immutable in the base repo, so below the roots only mutable commits are rewritten *)
  let allowed := fun x => visb g v x && descb g roots x && (memn x roots || negb (immb g v e x)) in
  let no_imm_desc :=
    forallb (fun x => negb (descb g roots x && immb g v e x && negb (memn x roots))) pre in
  negb (refuses g v e c)
  && wf_from (e_new ev) (length g)
  (* rewritten commits were visible and descend from the checked roots *)
  && (if snap_child then match rew with [] => true | _ => false end else forallb allowed rew)
  (* commits that disappeared: rewritten/abandoned below the roots, or the left-behind @ *)
  && forallb (fun x => (negb snap_child && allowed x)
                       || match wc with Some w => Nat.eqb x w && wc_abandoned r (e_ws ev) c w
                          | None => false end) hidden
  (* a rewritten commit disappears unless an immutable descendant, left in place, keeps it *)
  && (if no_imm_desc then subsetn rew hidden else true)
  && (if exact_kind c && negb snap_child && (0 <? e_nops ev) && no_imm_desc
      then subsetn (filter allowed pre) hidden else true)
  && match wc with
     | Some w => if wc_abandoned r (e_ws ev) c w && (0 <? e_nops ev) then memn w hidden else true
     | None => true
     end
  (* working-copy commit after the command *)
  && match c, wc, wc_of v' (e_ws ev) with
     | CWorkspaceAdd, _, _ => true
     | CObserve, _, _ => true
     | _, Some w, Some w' =>
         if (e_nops ev =? 0)%nat then Nat.eqb w' w
         else if snap_child then is_fresh g w' && list_eqb Nat.eqb (parents g' w') [w]
         else match nominal_wc c w hidden with
              | Some n =>
                  if immb g' v' e n
                  then is_fresh g w' && list_eqb Nat.eqb (parents g' w') [n]
                  else Nat.eqb w' n
              | None => is_fresh g w'
              end
     | _, _, _ => true
     end
  && match c with
     | CObserve => (e_nops ev =? 0)%nat && view_eqb v v' && match e_new ev with [] => true | _ => false end
     | _ => true
     end
  && seteqn (e_vis_post ev) (vis_list g' v')
  (* no operation: nothing new, same view *)
  && (if (e_nops ev =? 0)%nat then view_eqb v v' && match e_new ev with [] => true | _ => false end
      else true)
  (* [snapshot_working_copy] / [finish_transaction] leave the invoking workspace on a mutable
     commit *)
  && match c with
     | CWorkspaceAdd | CObserve => true
     | _ => if (0 <? e_nops ev) then
              match wc_of v' (e_ws ev) with Some w' => negb (immb g' v' e w') | None => true end
            else true
     end.

(** A refused or failed command changes nothing. *)
Definition unchanged (r : repo) (ev : event) : bool :=
  (e_nops ev =? 0)%nat && view_eqb (r_view r) (e_view ev)
  && match e_new ev with [] => true | _ => false end
  && match e_rewritten ev with [] => true | _ => false end
  && seteqn (e_vis_post ev) (vis_list (r_graph r) (r_view r)).

Definition accept (r : repo) (ev : event) : option repo :=
  let g := r_graph r in
  let v := r_view r in
  let pre_ok := seteqn (e_imm_pre ev) (filter (immb g v (e_cfg ev)) (vis_list g v)) in
  let step_ok :=
    if (e_status ev =? 0)%N then accept_ok r ev
    else if (e_status ev =? 1)%N then refuses g v (eff_cfg ev) (e_cmd ev) && unchanged r ev
    else unchanged r ev in
  if pre_ok && step_ok
  then Some (mk_repo (g ++ e_new ev) (e_view ev) (r_disc r ++ e_newdisc ev))
  else None.

Fixpoint run (r : repo) (evs : list event) : option repo :=
  match evs with
  | [] => Some r
  | ev :: t => match accept r ev with Some r' => run r' t | None => None end
  end.

(** * The property on the observations alone *)

(** The known class [wc-commit-immutable-at-start]: the commit is the invoking workspace's
    working-copy commit at command start and the command acts on it implicitly. *)
Definition implicit_wc_cmd (c : cmd) : bool :=
  match c with CCommit | CNew _ | CNewBefore _ | CNewLoc _ | CEdit _ => true | _ => false end.
Definition exempt (g : graph) (wc : option nat) (c : cmd) (imm_pre : list nat) (x : nat) : bool :=
  match wc with
  | Some w => implicit_wc_cmd c && memn w imm_pre
              && Nat.eqb x w
  | None => false
  end.

(** [viol ev x]: [x] was shown immutable before the command and is a recorded predecessor,
    or no longer visible afterwards. *)
Definition viol (ev : event) (x : nat) : bool :=
  memn x (e_imm_pre ev) && (memn x (rew_eff ev) || negb (memn x (e_vis_post ev))).

Definition event_okb (strict : bool) (g : graph) (v : view) (ev : event) : bool :=
  (e_override ev
   || forallb (fun x => negb (viol ev x)
                        || (negb strict && exempt g (wc_of v (e_ws ev)) (e_cmd ev) (e_imm_pre ev) x))
              (e_imm_pre ev ++ e_rewritten ev))
  && (if (e_status ev =? 0)%N then true
      else (e_nops ev =? 0)%nat && view_eqb v (e_view ev)).

Fixpoint run_okb (strict : bool) (g : graph) (v : view) (evs : list event) : bool :=
  match evs with
  | [] => true
  | ev :: t => event_okb strict g v ev && run_okb strict (g ++ e_new ev) (e_view ev) t
  end.

(** * Correspondence case: one CLI session *)
Record case := mk_case {
  c_init : repo;              (* state observed after the set-up commands *)
  c_events : list event;
  c_final_vis : list nat;     (* visible commits observed at the very end *)
}.

Definition okb (c : case) : bool :=
  run_okb true (r_graph (c_init c)) (r_view (c_init c)) (c_events c).
Definition known_class (c : case) : bool :=
  negb (okb c) && run_okb false (r_graph (c_init c)) (r_view (c_init c)) (c_events c).

(** Detail: 1 + index of the first event the model does not accept (0 = all accepted). *)
Fixpoint first_reject (r : repo) (evs : list event) (i : N) : N :=
  match evs with
  | [] => 0
  | ev :: t => match accept r ev with Some r' => first_reject r' t (i + 1) | None => i + 1 end
  end.

Definition check_case (c : case) : N :=
  let init_ok := wf_graphb (r_graph (c_init c)) in
  let corr :=
    init_ok &&
    match run (c_init c) (c_events c) with
    | Some r => seteqn (c_final_vis c) (vis_list (r_graph r) (r_view r))
    | None => false
    end in
  let p := okb c in
  (* A touched immutable commit inside the known class is reported as known only if the model
     accepts the whole trace; if the model rejects the trace, the case is reported as a
     correspondence break (never as a violation with a failing input: the only rejected
     observations are inside the known class). *)
  let k := known_class c in
  verdict corr (p || k) (k && corr)
          (if p || k then first_reject (c_init c) (c_events c) 0 else 100).
