(** Model of lib/src/rewrite.rs: find_recursive_merge_commits, merge_commit_trees,
    CommitRewriter::rebase_with_empty_behavior (EmptyBehavior::Keep, as used by
    rebase_commit). Shared by C08 and C09. Definitions only.

    Commits are numbers (their index position: parents have smaller numbers, 0 is the root
    commit with the empty tree). The index query common_ancestors belongs to the index
    model (C18); here it is a Section variable. For running, [graph_common_ancestors]
    computes the graph specification of that query (greatest common ancestors, descending
    position) from the parent table of the case. *)
From Verif Require Import Base.Prelude Model.Merge Model.TreeMerge.

Section Rebase.
  Context (accept : bool) (content_merge : list N -> option N).
  (** Index::common_ancestors(set1, set2) *)
  Context (common_ancestors : list nat -> list nat -> list nat).
  (** commit -> its tree (a MergedTree: an odd number of trees) *)
  Context (tree_of : nat -> list tree).
  Context (root : nat).

  (** find_recursive_merge_commits (rewrite.rs:104-178). The source runs the recursion
      documented in its comment with an explicit stack:
        result = [ids[0]];
        for pos in 1..len { ancestor = recurse(common_ancestors(ids[0..pos], [ids[pos]]));
                            result = flatten [result; ancestor; [ids[pos]]] }
      with 0 ids -> [root], 1 id -> [id]. [fuel] bounds the recursion depth; [None] = fuel
      exhausted (Proofs: enough fuel when common ancestors lie strictly below). *)
  Fixpoint find_recursive_merge_commits (fuel : nat) (ids : list nat) : option (list nat) :=
    match ids with
    | [] => Some [root]
    | [c] => Some [c]
    | c0 :: rest =>
        match fuel with
        | O => None
        | S f =>
            (fix loop (result seen rest : list nat) {struct rest} : option (list nat) :=
               match rest with
               | [] => Some result
               | c :: rest' =>
                   match find_recursive_merge_commits f (common_ancestors seen [c]) with
                   | None => None
                   | Some ancestor => loop (flatten [result; ancestor; [c]]) (seen ++ [c]) rest'
                   end
               end) [c0] [c0] rest
        end
    end.

  (** merge_commit_trees (rewrite.rs:61-72) with merge_commit_trees_no_resolve(_without_repo):
      a single commit's tree is returned as it is (not resolved again). *)
  Definition merge_commit_trees (fuel : nat) (commits : list nat) : option (list tree) :=
    match commits with
    | [c] => Some (tree_of c)
    | _ =>
        match find_recursive_merge_commits fuel commits with
        | Some m => Some (resolve accept content_merge (merge_no_resolve (map tree_of m)))
        | None => None
        end
    end.

  (** rebase_with_empty_behavior (rewrite.rs:361-444), EmptyBehavior::Keep: the new tree. *)
  Definition rebase_tree (new_base old_base old_tree : list tree) : list tree :=
    merged_tree_merge accept content_merge [new_base; old_base; old_tree].
  Definition rebase (fuel : nat) (old_parents new_parents : list nat) (old_tree : list tree)
    : option (list tree) :=
    if list_eqb (list_eqb tree_eqb) (map tree_of new_parents) (map tree_of old_parents)
    then Some old_tree
    else
      match merge_commit_trees fuel old_parents, merge_commit_trees fuel new_parents with
      | Some old_base, Some new_base => Some (rebase_tree new_base old_base old_tree)
      | _, _ => None
      end.
End Rebase.

(** * executable side conditions of the there-and-back law (C08, C09) *)
Fixpoint sortedb (l : list N) : bool :=
  match l with
  | a :: (b :: _) as r => (a <? b)%N && sortedb r
  | _ => true
  end.
(** Names strictly ascending and no empty directory, at every level (what backends store). *)
Fixpoint wfb (fuel : nat) (t : tree) : bool :=
  sortedb (map fst t)
  && forallb (fun e => match snd e with
                       | Tree s => match fuel with
                                   | O => false
                                   | S f => negb (match s with [] => true | _ => false end) && wfb f s
                                   end
                       | _ => true
                       end) t.
(** The changes [b -> b'] and [b -> t] touch disjoint entries: at every name one of them left
    the entry alone, or both changed a directory, not trivially mergeable, recursively
    disjoint. *)
Fixpoint disjb (accept : bool) (fuel : nat) (b' b t : tree) : bool :=
  forallb (fun n =>
             let x' := lookup n b' in
             let x := lookup n b in
             let y := lookup n t in
             oval_eqb y x || oval_eqb x' x
             || match fuel with
                | O => false
                | S f =>
                    match tm accept [x'; x; y] with
                    | Some _ => false
                    | None => is_tree [x'; x; y] && disjb accept f (to_tree x') (to_tree x) (to_tree y)
                    end
                end)
          (names [b'; b; t]).

(** * the graph specification of common_ancestors, executable *)
Section Graph.
  (** parents of commit [i] = [nth i parents []], all smaller than [i] *)
  Context (parents : list (list nat)).

  Definition mark (s : list nat) (n : nat) : list bool :=
    fold_left (fun acc i => set_nth i true acc) s (repeat false n).
  (** closure under parents, scanning positions from the top *)
  Definition close_down (m : list bool) : list bool :=
    fold_left (fun acc i => if nth i acc false
                            then fold_left (fun a p => set_nth p true a) (nth i parents []) acc
                            else acc)
              (rev (seq 0 (length m))) m.
  Definition ancestors (s : list nat) : list bool := close_down (mark s (length parents)).
  Definition strict_ancestors (s : list nat) : list bool :=
    ancestors (flat_map (fun i => nth i parents []) s).
  Definition members (m : list bool) : list nat :=
    filter (fun i => nth i m false) (rev (seq 0 (length m))).
  (** heads of a set, descending *)
  Definition heads_of (s : list nat) : list nat :=
    let below := strict_ancestors s in
    filter (fun i => negb (nth i below false)) (members (mark s (length parents))).
  (** Every parent has a smaller position than its child (the index's own invariant). *)
  Definition wf_parentsb : bool :=
    forallb (fun i => forallb (fun p => Nat.ltb p i) (nth i parents [])) (seq 0 (length parents)).
  Definition graph_common_ancestors (s1 s2 : list nat) : list nat :=
    let a1 := ancestors s1 in
    let a2 := ancestors s2 in
    heads_of (filter (fun i => nth i a2 false) (members a1)).
End Graph.
