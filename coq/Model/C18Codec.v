(** C18 — model of the commit index segment file
    (lib/src/default_index/mutable.rs:200-345 serialize_parent_filename /
    serialize_local_entries / save_in; readonly.rs:131-260, :410-470, :571-610 the reader).
    Bytes are [N] < 256; u32 fields are little endian. Definitions only. *)
From Verif Require Import Base.Prelude Gen.Tables.
Local Open Scope N_scope.

Definition le32 (x : N) : list N :=
  [x mod 256; (x / 256) mod 256; (x / 65536) mod 256; (x / 16777216) mod 256].
Definition de32 (l : list N) : N :=
  match l with
  | a :: b :: c :: d :: _ => a + 256 * b + 65536 * c + 16777216 * d
  | _ => 0
  end.
Definition rd32 (data : list N) (off : nat) : N := de32 (skipn off data).
Definition U32MAX : N := 4294967295.
Definition not32 (x : N) : N := U32MAX - x.             (* !x on u32 *)

(** one graph entry as the mutable segment holds it (mutable.rs:75), ids as bytes *)
Record centry := mk_centry {
  ce_id : list N;            (* commit id *)
  ce_change : list N;        (* change id *)
  ce_gen : N;
  ce_parents : list N;       (* global positions *)
}.

(** lexicographic order on byte strings (BTreeMap<CommitId, _> / <ChangeId, _>) *)
Fixpoint bytes_ltb (a b : list N) : bool :=
  match a, b with
  | _, [] => false
  | [], _ :: _ => true
  | x :: a', y :: b' => (x <? y) || ((x =? y) && bytes_ltb a' b')
  end.
Fixpoint insert_sorted {V} (k : list N) (v : V) (merge : V -> V -> V) (l : list (list N * V))
    : list (list N * V) :=
  match l with
  | [] => [(k, v)]
  | (k', v') :: r =>
    if bytes_ltb k k' then (k, v) :: l
    else if bytes_eqb k k' then (k', merge v' v) :: r
    else (k', v') :: insert_sorted k v merge r
  end.
Fixpoint index_of (k : list N) (l : list (list N)) (i : N) : N :=
  match l with
  | [] => i
  | k' :: r => if bytes_eqb k k' then i else index_of k r (i + 1)
  end.

(** mutable.rs:236-262: the two parent fields and what goes to the overflow table *)
Definition enc_parents (ps : list N) (ovf_len : N) : list N * list N :=
  match ps with
  | [] => (le32 U32MAX ++ le32 U32MAX, [])
  | [p1] => (le32 p1 ++ le32 U32MAX, [])
  | [p1; p2] => (le32 p1 ++ le32 p2, [])
  | _ => (le32 (not32 ovf_len) ++ le32 (not32 (N.of_nat (length ps))), ps)
  end.
Fixpoint enc_entries (change_ids : list (list N)) (es : list centry) (ovf : list N)
    : list N * list N :=
  match es with
  | [] => ([], ovf)
  | e :: r =>
    let '(pb, extra) := enc_parents (ce_parents e) (N.of_nat (length ovf)) in
    let '(rest, ovf') := enc_entries change_ids r (ovf ++ extra) in
    (le32 (ce_gen e) ++ pb ++ le32 (index_of (ce_change e) change_ids 0) ++ ce_id e ++ rest, ovf')
  end.

(** the lookup tables of a segment *)
Definition commit_lookup (es : list centry) : list (list N * N) :=
  snd (fold_left (fun st e => (fst st + 1, insert_sorted (ce_id e) (fst st) (fun a _ => a) (snd st)))
                 es (0, [])).
Definition change_lookup (es : list centry) : list (list N * list N) :=
  snd (fold_left (fun st e => (fst st + 1, insert_sorted (ce_change e) [fst st] (@app N) (snd st)))
                 es (0, [])).
(** mutable.rs:285-300: one u32 per change id: the local position, or !overflow_pos *)
Fixpoint enc_change_pos (l : list (list N * list N)) (ovf : list N) : list N * list N :=
  match l with
  | [] => ([], ovf)
  | (_, [p]) :: r => let '(b, o) := enc_change_pos r ovf in (le32 p ++ b, o)
  | (_, ps) :: r =>
    let '(b, o) := enc_change_pos r (ovf ++ ps) in (le32 (not32 (N.of_nat (length ovf))) ++ b, o)
  end.

(** mutable.rs:210-312 serialize_local_entries *)
Definition encode_local (es : list centry) : list N :=
  let cl := commit_lookup es in
  let hl := change_lookup es in
  let '(graph, povf) := enc_entries (map fst hl) es [] in
  let '(cpos, covf) := enc_change_pos hl [] in
  le32 (N.of_nat (length es)) ++ le32 (N.of_nat (length hl)) ++
  le32 (N.of_nat (length povf)) ++ le32 (N.of_nat (length covf)) ++
  graph ++ flat_map (fun e => le32 (snd e)) cl ++ flat_map fst hl ++ cpos ++
  flat_map le32 povf ++ flat_map le32 covf.
(** mutable.rs:349-363 save_in: version, parent file name (hex, as ASCII), local entries *)
Definition encode_file (parent_name : list N) (es : list centry) : list N :=
  le32 C18_SEGMENT_FORMAT_VERSION ++ le32 (N.of_nat (length parent_name)) ++ parent_name ++
  encode_local es.

(** the reader: readonly.rs:135-147 as_inlined / as_overflow, :596 parent_positions *)
Definition as_inlined (x : N) : option N := if x <? C18_OVERFLOW_FLAG then Some x else None.
Definition dec_parents (p1 p2 : N) (ovf : list N) : list N :=
  match as_inlined p1 with
  | Some a => match as_inlined p2 with Some b => [a; b] | None => [a] end
  | None => firstn (N.to_nat (not32 p2)) (skipn (N.to_nat (not32 p1)) ovf)
  end.
(** graph entry [i] of the graph table [data] (entry size 16 + id length), overflow table
    already decoded to positions *)
Definition dec_entry (idlen : nat) (data : list N) (ovf : list N) (i : nat)
    : N * list N * N * list N :=
  let off := (i * (C18_GRAPH_ENTRY_FIXED_SIZE + idlen))%nat in
  (rd32 data off,
   dec_parents (rd32 data (off + 4)) (rd32 data (off + 8)) ovf,
   rd32 data (off + 12),
   firstn idlen (skipn (off + 16) data)).

(** reading a whole file back: header fields, then every graph entry as
    (generation, parents, commit id); [None] on a size mismatch (readonly.rs:369) *)
Definition decode_file (idlen chlen : nat) (bytes : list N)
    : option (list N * list (N * list N * list N)) :=
  let version := rd32 bytes 0 in
  let plen := N.to_nat (rd32 bytes 4) in
  let parent := firstn plen (skipn 8 bytes) in
  let loc := skipn (8 + plen) bytes in
  let n := N.to_nat (rd32 loc 0) in
  let nch := N.to_nat (rd32 loc 4) in
  let npo := N.to_nat (rd32 loc 8) in
  let nco := N.to_nat (rd32 loc 12) in
  let data := skipn 16 loc in
  let graph_size := (n * (C18_GRAPH_ENTRY_FIXED_SIZE + idlen))%nat in
  let povf_base := (graph_size + n * 4 + nch * chlen + nch * 4)%nat in
  if negb (version =? C18_SEGMENT_FORMAT_VERSION) then None
  else if negb (length data =? povf_base + npo * 4 + nco * 4)%nat then None
  else
    let povf := map (fun j => rd32 data (povf_base + j * 4)) (seq 0 npo) in
    Some (parent,
          map (fun i => let '(g, ps, _, id) := dec_entry idlen data povf i in (g, ps, id)) (seq 0 n)).
