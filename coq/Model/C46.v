(** C46 — model of lib/src/evolution.rs [walk_predecessors] (lines 86-194) and of the
    iterative DFS core/src/dag_walk.rs [topo_order_forward_ok]/[topo_order_reverse_ok]
    (lines 100-179).  Definitions only; all proofs are in Proofs/C46*.v.

    Commit ids are [N].  An operation is [Some m] with [m] its [commit_predecessors] map
    (BTreeMap as an association list; [lookup] takes the first match) or [None] for an
    operation written without predecessor records ([stores_commit_predecessors() = false]).
    The list of operations is the order in which [op_walk::walk_ancestors] yields them
    (position 0 = the repo's operation); that order is an input of the model. *)
From Verif Require Import Base.Prelude.

Definition pmap := list (N * list N).

Fixpoint lookup (m : pmap) (c : N) : option (list N) :=
  match m with
  | [] => None
  | (k, v) :: t => if N.eqb k c then Some v else lookup t c
  end.

(** [op.predecessors_for_commit(id).into_iter().flatten()] *)
Definition nbrs (m : pmap) (c : N) : list N :=
  match lookup m c with Some l => l | None => [] end.

Definition is_key (m : pmap) (c : N) : bool :=
  match lookup m c with Some _ => true | None => false end.

Definition memN (x : N) (l : list N) : bool := existsb (N.eqb x) l.

(** One iteration of a [while]/[loop]: either a new state or the loop's result. *)
Inductive step_res (S R : Type) : Type :=
| Continue (s : S)
| Stop (r : R).
Arguments Continue {S R} s.
Arguments Stop {S R} r.

Fixpoint run {S R : Type} (step : S -> step_res S R) (fuel : nat) (s : S) : option R :=
  match fuel with
  | O => None
  | Datatypes.S f =>
      match step s with
      | Stop r => Some r
      | Continue s' => run step f s'
      end
  end.

(** ** The in-place splice loop of [visit_op] (evolution.rs:135-149).
    [sc_done] is [to_visit[..i]] reversed, [sc_rest] is [to_visit[i..]]. *)
Record scan_st := mk_scan {
  sc_emit : list N;       (* to_emit *)
  sc_dup : bool;          (* has_dup *)
  sc_done : list N;
  sc_rest : list N;
}.

Definition scan_step (m : pmap) (s : scan_st) : step_res scan_st (list N * bool * list N) :=
  match sc_rest s with
  | [] => Stop (sc_emit s, sc_dup s, rev (sc_done s))             (* to_visit.get(i) = None *)
  | cur :: rest =>
      match lookup m cur with
      | Some next =>
          if memN cur (sc_emit s)
          then Continue (mk_scan (sc_emit s) true (sc_done s) rest)            (* remove(i) *)
          else Continue (mk_scan (sc_emit s ++ [cur]) (sc_dup s) (sc_done s) (next ++ rest))
                                                                 (* splice(i..=i, next_ids) *)
      | None => Continue (mk_scan (sc_emit s) (sc_dup s) (cur :: sc_done s) rest)  (* i += 1 *)
      end
  end.

Definition sum_list (l : list nat) : nat := fold_right Nat.add O l.

(** Every iteration disposes of one element instance of [to_visit]; instances are the
    initial ones plus those spliced in, and every key is spliced at most once. *)
Definition scan_fuel (m : pmap) (to_visit : list N) : nat :=
  S (length to_visit + sum_list (map (fun kv => length (nbrs m (fst kv))) m)).

Definition scan (m : pmap) (to_visit : list N) : option (list N * bool * list N) :=
  run (scan_step m) (scan_fuel m to_visit) (mk_scan [] false [] to_visit).

(** ** [topo_order_forward_ok] (dag_walk.rs:100-137), then [reverse] (176-178).
    [t_stack] has its top at the head; [t_result] is kept newest-first, which is exactly
    the reversed vector that [topo_order_reverse_ok] returns. *)
Record topo_st := mk_topo {
  t_stack : list (N * bool);
  t_visiting : list N;
  t_emitted : list N;
  t_result : list N;
}.

Definition push_nbrs (l : list N) : list (N * bool) := rev (map (fun x => (x, false)) l).

Definition topo_step (m : pmap) (s : topo_st) : step_res topo_st (N + list N) :=
  match t_stack s with
  | [] => Stop (inr (t_result s))
  | (node, visited) :: stk =>
      if memN node (t_emitted s)
      then Continue (mk_topo stk (t_visiting s) (t_emitted s) (t_result s))
      else if negb visited then
        if memN node (t_visiting s) then Stop (inl node)                   (* cycle_fn(node) *)
        else Continue (mk_topo (push_nbrs (nbrs m node) ++ (node, true) :: stk)
                               (node :: t_visiting s) (t_emitted s) (t_result s))
      else Continue (mk_topo stk (filter (fun x => negb (N.eqb x node)) (t_visiting s))
                             (node :: t_emitted s) (node :: t_result s))
  end.

Definition topo_univ (m : pmap) (start : list N) : list N := start ++ flat_map snd m.

Definition topo_fuel (m : pmap) (start : list N) : nat :=
  S (length start + sum_list (map (fun u => S (length (nbrs m u))) (topo_univ m start))).

Definition topo_reverse (m : pmap) (start : list N) : option (N + list N) :=
  run (topo_step m) (topo_fuel m start) (mk_topo (push_nbrs start) [] [] []).

(** ** [visit_op] (evolution.rs:134-180): the commits to emit for this operation, in
    emission order, and the new [to_visit]. *)
Inductive vres :=
| VOk (emitted : list N) (to_visit : list N)
| VCycle (c : N)
| VFuel.

Definition visit_general (m : pmap) (to_emit to_visit' : list N) : vres :=
  match topo_reverse m to_emit with
  | None => VFuel
  | Some (inl c) => VCycle c
  | Some (inr sorted) => VOk (filter (is_key m) sorted) to_visit'
  end.

Definition visit_op (m : pmap) (to_visit : list N) : vres :=
  match scan m to_visit with
  | None => VFuel
  | Some (to_emit, has_dup, to_visit') =>
      match to_emit with
      | [] => VOk [] to_visit'
      | [c] => if negb has_dup then VOk [c] to_visit' else visit_general m to_emit to_visit'
      | _ => visit_general m to_emit to_visit'
      end
  end.

(** ** [try_next_impl] unrolled into the whole stream (evolution.rs:114-131, 183-193).
    An entry is (commit, position of the operation that recorded it) or (commit, None) for
    commits flushed without an operation. *)
Inductive status := Done | Cycle (c : N) | OutOfFuel.

Definition entry := (N * option N)%type.

(** [Itertools::unique]: first occurrences, order preserved. *)
Fixpoint unique_from (seen : list N) (l : list N) : list N :=
  match l with
  | [] => []
  | x :: t => if memN x seen then unique_from seen t else x :: unique_from (x :: seen) t
  end.
Definition unique (l : list N) : list N := unique_from [] l.

(** [flush_commits] (evolution.rs:183-196): every remaining commit once. *)
Definition flush (to_visit : list N) : list entry := map (fun c => (c, None)) (unique to_visit).

(** The flush before repair 77438d6 (no de-duplication), kept for [C46_once_old_refuted]. *)
Definition flush_old (to_visit : list N) : list entry := map (fun c => (c, None)) to_visit.

Fixpoint walk_with (fl : list N -> list entry) (k : N) (ops : list (option pmap))
  (to_visit : list N) : list entry * status :=
  match to_visit with
  | [] => ([], Done)                                   (* while !self.to_visit.is_empty() *)
  | _ :: _ =>
      match ops with
      | [] => (fl to_visit, Done)                      (* op_ancestors exhausted *)
      | None :: _ => (fl to_visit, Done)               (* !op.stores_commit_predecessors() *)
      | Some m :: rest =>
          match visit_op m to_visit with
          | VOk em tv =>
              let r := walk_with fl (k + 1) rest tv in
              (map (fun c => (c, Some k)) em ++ fst r, snd r)
          | VCycle c => ([], Cycle c)
          | VFuel => ([], OutOfFuel)
          end
      end
  end.

Definition walk := walk_with flush.

Definition walk_predecessors (ops : list (option pmap)) (start : list N) : list entry * status :=
  walk 0 ops start.

Definition walk_predecessors_old (ops : list (option pmap)) (start : list N)
  : list entry * status := walk_with flush_old 0 ops start.

(** ** Correspondence case and the boolean checkers. *)
Record case := mk_case {
  c_ops : list (option pmap);   (* walk_ancestors order, each op's commit_predecessors *)
  c_start : list N;             (* start_commits *)
  c_out : list entry;           (* impl: entries yielded before the first error *)
  c_cycle : option N;           (* impl: Some c = CycleDetected(c) *)
  c_panicked : bool;            (* impl: panic or any other error *)
}.

Definition status_eqb (s : status) (c : option N) : bool :=
  match s, c with
  | Done, None => true
  | Cycle a, Some b => N.eqb a b
  | _, _ => false
  end.

Definition entry_eqb : entry -> entry -> bool := pair_eqb N.eqb (option_eqb N.eqb).

(** Operations before the first one without predecessor records. *)
Fixpoint some_prefix (ops : list (option pmap)) : list pmap :=
  match ops with
  | Some m :: r => m :: some_prefix r
  | _ => []
  end.

Definition key_anyb (ms : list pmap) (c : N) : bool := existsb (fun m => is_key m c) ms.

(** All predecessor ids mentioned by the association list (shadowed entries included). *)
Definition all_preds (m : pmap) : list N := flat_map snd m.

(** Decidable sufficient condition for the well-formedness [WF] of Proofs/C46.v:
    (1) a commit is a key of at most one operation, (2) a predecessor recorded by an
    operation is never a key of an operation walked earlier (newer), (3) every recorded
    predecessor is numerically smaller than the commit (a rank: acyclicity). *)
Fixpoint wfb (ms : list pmap) : bool :=
  match ms with
  | [] => true
  | m :: rest =>
      forallb (fun kv => negb (key_anyb rest (fst kv))) m
      && forallb (fun m' => forallb (fun p => negb (is_key m p)) (all_preds m')) rest
      && forallb (fun kv => forallb (fun p => N.ltb p (fst kv)) (snd kv)) m
      && wfb rest
  end.

(** Every start commit and every recorded predecessor is a key of some operation. *)
Definition closedb (ms : list pmap) (start : list N) : bool :=
  forallb (key_anyb ms) start && forallb (fun m => forallb (key_anyb ms) (all_preds m)) ms.

Fixpoint nodupb (l : list N) : bool :=
  match l with
  | [] => true
  | x :: t => negb (memN x t) && nodupb t
  end.

Fixpoint nth_map (ms : list pmap) (k : nat) : pmap :=
  match ms, k with
  | [], _ => []
  | m :: _, O => m
  | _ :: r, S k' => nth_map r k'
  end.

(** Each entry: tagged entries are keys of their operation and all their recorded
    predecessors come strictly later in the list; untagged entries are keys nowhere. *)
Fixpoint entries_okb (ms : list pmap) (out : list entry) : bool :=
  match out with
  | [] => true
  | (c, Some k) :: t =>
      is_key (nth_map ms (N.to_nat k)) c
      && (N.to_nat k <? length ms)%nat
      && forallb (fun p => memN p (map fst t)) (nbrs (nth_map ms (N.to_nat k)) c)
      && entries_okb ms t
  | (c, None) :: t => negb (key_anyb ms c) && entries_okb ms t
  end.

Definition tagged (e : entry) : bool := match snd e with Some _ => true | None => false end.

(** The property checker run on the implementation's output: no operation-tagged commit
    twice, every start commit listed, every entry locally fine. *)
Definition out_okb (ms : list pmap) (start : list N) (out : list entry) : bool :=
  nodupb (map fst (filter tagged out))
  && forallb (fun s => memN s (map fst out)) start
  && entries_okb ms out.

(** Full property on a well-formed history: no cycle error, the list is accepted by
    [out_okb], NO commit is listed twice, and (when every reachable commit is recorded by
    some operation) every entry is attributed to an operation. *)
Definition okb (c : case) : bool :=
  negb (c_panicked c) &&
  (let ms := some_prefix (c_ops c) in
   if wfb ms
   then match c_cycle c with
        | None => out_okb ms (c_start c) (c_out c)
                  && nodupb (map fst (c_out c))
                  && (if closedb ms (c_start c) then forallb tagged (c_out c) else true)
        | Some _ => false
        end
   else true).

Definition check_case (c : case) : N :=
  let r := walk_predecessors (c_ops c) (c_start c) in
  let corr := list_eqb entry_eqb (fst r) (c_out c) && status_eqb (snd r) (c_cycle c)
              && negb (c_panicked c) in
  verdict corr (okb c) false 1.
