(** Model of the file content merge, lib/src/files.rs:285-488 ([merge], [merge_hunks],
    [try_merge] = [merge_inner] collected three ways), on top of the diff model
    (Model/Diff.v) and [trivial_merge] (Model/Merge.v). A [Merge<T>] is the alternating
    term vector [add0; remove0; add1; ...] as in Model/Merge.v. Definitions only. *)
From Coq Require Import Arith.
From Verif Require Import Base.Prelude Model.Merge Model.Diff.

(** [Merge::from_removes_adds] (lib/src/merge.rs:213-226). *)
Fixpoint interleave_ra {A} (removes adds' : list A) : list A :=
  match removes, adds' with
  | r :: rs, a :: az => r :: a :: interleave_ra rs az
  | _, _ => []
  end.
Definition from_removes_adds {A} (removes adds : list A) : list A :=
  match adds with
  | [] => []
  | a0 :: adds' => a0 :: interleave_ra removes adds'
  end.

Definition is_resolved {A} (m : list A) : bool :=
  match m with [_] => true | _ => false end.

Section Files.
  (** The matching function of the diff (Layer B of Model/Diff.v, or any other). *)
  Variable M : list bytes -> list bytes -> list (nat * nat).

  Definition line_steps : steps := [(TokLine, CmpExact)].
  Definition word_steps : steps := [(TokWord, CmpExact); (TokNonword, CmpExact)].

  (** The inputs handed to [ContentDiff]: [inputs.removes().chain(inputs.adds())]. *)
  Definition diff_inputs (terms : list bytes) : list bytes := odds terms ++ evens terms.

  (** One hunk of [resolve_diff_hunks] (lib/src/files.rs:467-488). *)
  Definition resolve_hunk (accept : bool) (num_diffs : nat) (inputs : list bytes) (h : hunk)
    : list bytes :=
    let cs := contents inputs (snd h) in
    if fst h then [hd [] cs]
    else
      let m := from_removes_adds (firstn num_diffs cs) (skipn num_diffs cs) in
      match trivial_merge bytes_eqb accept m with
      | Some c => [c]
      | None => m
      end.

  Definition resolve_diff_hunks (accept : bool) (s : steps) (terms : list bytes) : list (list bytes) :=
    let ins := diff_inputs terms in
    map (resolve_hunk accept (length (odds terms)) ins) (hunks (run_steps M s ins)).

  (** [collect_resolved] *)
  Fixpoint collect_resolved (hs : list (list bytes)) : option bytes :=
    match hs with
    | [] => Some []
    | [c] :: t => match collect_resolved t with Some r => Some (c ++ r) | None => None end
    | _ :: _ => None
    end.

  (** [merge_hunk_by_word] (lib/src/files.rs:328-345) *)
  Definition merge_hunk_by_word (accept : bool) (m : list bytes) : list bytes :=
    if is_resolved m then m
    else
      match collect_resolved (resolve_diff_hunks accept word_steps m) with
      | Some content => [content]
      | None => m
      end.

  (** The hunk stream of [merge_inner]. *)
  Definition merge_stream (accept word : bool) (terms : list bytes) : list (list bytes) :=
    let hs := resolve_diff_hunks accept line_steps terms in
    if word then map (merge_hunk_by_word accept) hs else hs.

  (** [collect_merged] (lib/src/files.rs:436-455) *)
  Definition merged_step (st : list bytes) (h : list bytes) : list bytes :=
    match h with
    | [c] => map (fun buf => buf ++ c) st
    | _ =>
        let st' := match st with [c0] => repeat c0 (length h) | _ => st end in
        map2 (@app N) st' h
    end.
  Definition collect_merged (hs : list (list bytes)) : list bytes :=
    fold_left merged_step hs [[]].

  (** [collect_hunks] (lib/src/files.rs:409-432) *)
  Inductive merge_result :=
  | Resolved (content : bytes)
  | Conflict (hunks : list (list bytes)).

  Fixpoint collect_hunks_go (hs : list (list bytes)) (buf : bytes) (acc : list (list bytes))
    : bytes * list (list bytes) :=
    match hs with
    | [] => (buf, acc)
    | [c] :: t => collect_hunks_go t (buf ++ c) acc
    | h :: t =>
        collect_hunks_go t [] ((if is_nil buf then acc else acc ++ [[buf]]) ++ [h])
    end.
  Definition collect_hunks (hs : list (list bytes)) : merge_result :=
    let '(buf, acc) := collect_hunks_go hs [] [] in
    match acc with
    | [] => Resolved buf
    | _ => Conflict (if is_nil buf then acc else acc ++ [[buf]])
    end.

  Definition merge (accept word : bool) (terms : list bytes) : list bytes :=
    collect_merged (merge_stream accept word terms).
  Definition merge_hunks (accept word : bool) (terms : list bytes) : merge_result :=
    collect_hunks (merge_stream accept word terms).
  Definition try_merge (accept word : bool) (terms : list bytes) : option bytes :=
    collect_resolved (merge_stream accept word terms).
End Files.
