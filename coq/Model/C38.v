(** C38 — file annotation (lib/src/annotate.rs): the line-map propagation of
    [process_commits] / [process_commit] over the graph stream of the searched revset.
    The by-line matching of every (commit, edge target) pair and the graph stream itself are
    DATA of the case (recorded from the real [ContentDiff::by_line] and [stream_graph]);
    their validity conditions are decidable and checked per case.  Definitions only. *)
From Verif Require Import Base.Prelude Base.DagR.
Local Open Scope nat_scope.

Definition line := list N.                 (* bytes of one line, newline included *)
Definition text := list line.              (* split_inclusive(b'\n') *)
Definition line_eqb : line -> line -> bool := list_eqb N.eqb.

(** [split_inclusive(|b| *b == b'\n')] *)
Fixpoint split_lines_acc (bs : list N) (cur : line) : text :=
  match bs with
  | [] => match cur with [] => [] | _ => [rev cur] end
  | b :: t => if N.eqb b 10 then rev (b :: cur) :: split_lines_acc t []
              else split_lines_acc t (b :: cur)
  end.
Definition lines_of (bs : list N) : text := split_lines_acc bs [].

(** [LineOrigin] inside [Result]: [o_ok = true] is [Ok]. *)
Record origin := mk_origin { o_ok : bool; o_commit : nat; o_line : nat }.
Definition origin_eqb (a b : origin) : bool :=
  Bool.eqb (o_ok a) (o_ok b) && Nat.eqb (o_commit a) (o_commit b) && Nat.eqb (o_line a) (o_line b).

(** [Source] (annotate.rs:243): the text is looked up by commit, so only the line map
    [(line in this commit, line in the starting file)] is stored. *)
Definition lmap := list (nat * nat).
Record state := mk_state {
  st_olm : list origin;                    (* original_line_map *)
  st_srcs : list (nat * lmap);             (* commit_source_map (association list) *)
  st_unres : nat;                          (* num_unresolved_roots *)
}.

(** Edge kinds of [GraphEdgeType]: 0 = Direct, 1 = Indirect, 2 = Missing. *)
Definition edge := (nat * nat)%type.       (* (target, kind) *)
Definition is_missing (e : edge) : bool := Nat.eqb (snd e) 2.
Definition node := (nat * list edge)%type.

(** A matching hunk as [copy(current_start, parent_start, count)] (annotate.rs:414). *)
Definition range3 := (nat * nat * nat)%type.
Definition r_cs (r : range3) := fst (fst r).
Definition r_ps (r : range3) := snd (fst r).
Definition r_cnt (r : range3) := snd r.

Fixpoint lookup {A} (k : nat) (l : list (nat * A)) : option A :=
  match l with
  | [] => None
  | (k', v) :: t => if Nat.eqb k k' then Some v else lookup k t
  end.
Fixpoint remove_key {A} (k : nat) (l : list (nat * A)) : list (nat * A) :=
  match l with
  | [] => []
  | (k', v) :: t => if Nat.eqb k k' then remove_key k t else (k', v) :: remove_key k t
  end.
Definition set_key {A} (k : nat) (v : A) (l : list (nat * A)) : list (nat * A) :=
  (k, v) :: remove_key k l.

(** [peeking_take_while(|(cur,_)| cur < bound)]: the longest prefix below [bound] and the rest. *)
Fixpoint take_below (bound : nat) (l : lmap) : lmap * lmap :=
  match l with
  | (cur, s) :: t =>
      if Nat.ltb cur bound then let (a, b) := take_below bound t in ((cur, s) :: a, b)
      else ([], l)
  | [] => ([], [])
  end.

(** The closure passed to [copy_same_lines_with] (annotate.rs:362-372), folded over the
    matching hunks: returns (rest of current_lines, new_current_line_map, new_parent_line_map). *)
Fixpoint split_lines (rs : list range3) (cur : lmap) (newcur newpar : lmap)
  : lmap * lmap * lmap :=
  match rs with
  | [] => (cur, newcur, newpar)
  | r :: rs' =>
      let (below, rest) := take_below (r_cs r) cur in
      let (inside, rest') := take_below (r_cs r + r_cnt r) rest in
      split_lines rs' rest' (newcur ++ below)
        (newpar ++ map (fun cs => (r_ps r + (fst cs - r_cs r), snd cs)) inside)
  end.

(** [itertools::merge] of two sorted line maps (lexicographic order on pairs, left first on
    ties). *)
Definition pair_leb (a b : nat * nat) : bool :=
  Nat.ltb (fst a) (fst b) || (Nat.eqb (fst a) (fst b) && Nat.leb (snd a) (snd b)).
Fixpoint merge_maps (a : lmap) : lmap -> lmap :=
  fix inner (b : lmap) : lmap :=
    match a, b with
    | [], _ => b
    | _, [] => a
    | x :: a', y :: b' => if pair_leb x y then x :: merge_maps a' b else y :: inner b'
    end.

Fixpoint set_origins (o : list origin) (upd : list (nat * origin)) : list origin :=
  match upd with
  | [] => o
  | (s, v) :: t => set_origins (set_nth s v o) t
  end.

Section Run.
  (** matching hunks of (commit, edge target), as recorded from the real diff *)
  Variable matching : nat -> nat -> list range3.
  (** [old = true]: the behaviour before the repair of /repo (fix 26901e2): an omitted
      parent was counted in [num_unresolved_roots] once per missing edge reaching it. *)
  Variable old : bool.

  (** One parent edge of [process_commit] (annotate.rs:345-396). *)
  Definition process_edge (c : nat) (acc : state * lmap) (e : edge) : state * lmap :=
    let (st, curmap) := acc in
    let p := fst e in
    let pmap := match lookup p (st_srcs st) with Some m => m | None => [] end in
    let '(rest, newcur, newpar) := split_lines (matching c p) curmap [] [] in
    let curmap' := newcur ++ rest in
    let pmap' := match pmap with [] => newpar | _ => merge_maps pmap newpar end in
    match pmap' with
    | [] => (mk_state (st_olm st) (remove_key p (st_srcs st)) (st_unres st), curmap')
    | _ =>
        let srcs' := set_key p pmap' (st_srcs st) in
        if is_missing e
        then (mk_state
                (set_origins (st_olm st)
                   (map (fun ps => (snd ps, mk_origin false p (fst ps))) pmap'))
                srcs'
                (* [parent_was_pending]: the parent already had lines before this edge *)
                (match pmap with
                 | [] => S (st_unres st)
                 | _ => if old then S (st_unres st) else st_unres st
                 end), curmap')
        else (mk_state (st_olm st) srcs' (st_unres st), curmap')
    end.

  (** [process_commit] (annotate.rs:330). *)
  Definition process_commit (st : state) (nd : node) : state :=
    let c := fst nd in
    match lookup c (st_srcs st) with
    | None => st
    | Some curmap =>
        let st0 := mk_state (st_olm st) (remove_key c (st_srcs st)) (st_unres st) in
        let (st1, rest) := fold_left (process_edge c) (snd nd) (st0, curmap) in
        mk_state (set_origins (st_olm st1)
                    (map (fun cs => (snd cs, mk_origin true c (fst cs))) rest))
                 (st_srcs st1) (st_unres st1)
    end.

  (** The loop of [process_commits] (annotate.rs:313-320) with its early exit. *)
  Fixpoint process_nodes (st : state) (nodes : list node) : state :=
    match nodes with
    | [] => st
    | nd :: t =>
        let st' := process_commit st nd in
        if Nat.eqb (length (st_srcs st')) (st_unres st') then st' else process_nodes st' t
    end.

  (** [FileAnnotator::with_source] + [compute]. *)
  Definition init_state (start nlines : nat) : state :=
    mk_state (map (fun i => mk_origin false start i) (seq 0 nlines))
             [(start, map (fun i => (i, i)) (seq 0 nlines))] 0.
  (** One call of [FileAnnotator::compute] = [process_commits]: the count of unresolved
      roots is reset, then the graph stream of this call is walked. *)
  Definition run_phase (st : state) (nodes : list node) : state :=
    process_nodes (mk_state (st_olm st) (st_srcs st) 0) nodes.
  (** Successive [compute] calls on the same annotator (each with its own stream); the state
      after every call. *)
  Fixpoint run_phases (st : state) (phases : list (list node)) : list state :=
    match phases with
    | [] => []
    | ns :: t => let st' := run_phase st ns in st' :: run_phases st' t
    end.
  Definition annotate (start nlines : nat) (nodes : list node) : list origin :=
    st_olm (run_phase (init_state start nlines) nodes).
End Run.

(* ------------------------------------------------------------------ the case *)

Record case := mk_case {
  c_graph : list (list N);                 (* parents per commit, creation order, 0 = root *)
  c_texts : list (list N);                 (* file content (bytes) of every commit *)
  c_start : N;                             (* starting commit *)
  c_phases : list (list (N * list (N * N)));  (* impl: per compute() call, the graph stream of
                                                 the revset that call searches *)
  c_match : list ((N * N) * list (N * N * N));  (* impl: by-line matching per (commit, target) *)
  c_origins : list (list (bool * N * N));  (* impl: line_origins() after every call *)
  c_pending : list (list N);               (* impl: pending_commits() after every call *)
  c_text : list N;                         (* impl: FileAnnotation::text *)
}.

Definition n2 (p : N * N) : nat * nat := (N.to_nat (fst p), N.to_nat (snd p)).
Definition case_graph (c : case) : graph := map (map N.to_nat) (c_graph c).
Definition to_nodes (l : list (N * list (N * N))) : list node :=
  map (fun nd => (N.to_nat (fst nd), map n2 (snd nd))) l.
Definition case_phases (c : case) : list (list node) := map to_nodes (c_phases c).
(** all nodes of all calls *)
Definition case_nodes (c : case) : list node := concat (case_phases c).
Definition case_text (c : case) (x : nat) : text := lines_of (nth x (c_texts c) []).
Definition case_matching (c : case) (x p : nat) : list range3 :=
  match find (fun e => Nat.eqb (N.to_nat (fst (fst e))) x && Nat.eqb (N.to_nat (snd (fst e))) p)
             (c_match c) with
  | Some e => map (fun r => (N.to_nat (fst (fst r)), N.to_nat (snd (fst r)), N.to_nat (snd r))) (snd e)
  | None => []
  end.
Definition to_origins (l : list (bool * N * N)) : list origin :=
  map (fun o => mk_origin (fst (fst o)) (N.to_nat (snd (fst o))) (N.to_nat (snd o))) l.
Definition case_origins (c : case) : list (list origin) := map to_origins (c_origins c).
Definition case_pending (c : case) : list (list nat) := map (map N.to_nat) (c_pending c).

Definition nth_line (t : text) (i : nat) : option line := nth_error t i.

(** A recorded matching is valid: hunks ascend without overlap on both sides and pair equal
    lines of the two texts. *)
Fixpoint ranges_ok (tc tp : text) (lo_c lo_p : nat) (rs : list range3) : bool :=
  match rs with
  | [] => true
  | r :: t =>
      Nat.leb lo_c (r_cs r) && Nat.leb lo_p (r_ps r)
      && forallb (fun i => match nth_line tc (r_cs r + i), nth_line tp (r_ps r + i) with
                           | Some a, Some b => line_eqb a b
                           | _, _ => false
                           end) (seq 0 (r_cnt r))
      && ranges_ok tc tp (r_cs r + r_cnt r) (r_ps r + r_cnt r) t
  end.
Definition in_ranges (l : nat) (rs : list range3) : bool :=
  existsb (fun r => Nat.leb (r_cs r) l && Nat.ltb l (r_cs r + r_cnt r)) rs.

Definition is_anc (G : graph) (a d : nat) : bool :=
  bmem (anc_full G (bsingle (length G) d)) a.

(** Validity of the recorded inputs (hypotheses of the theorems, checked per case): the
    graph is well formed, every edge of the stream points to a proper ancestor, missing
    targets are not nodes, and every recorded matching is valid. *)
Definition inputs_ok (c : case) : bool :=
  let G := case_graph c in
  wf_graphb G && pc_okb G && (N.of_nat (length G) <=? U32MAX)%N
  && Nat.ltb (N.to_nat (c_start c)) (length G)
  && forallb (fun nd =>
       Nat.ltb (fst nd) (length G) &&
       forallb (fun e => negb (Nat.eqb (fst e) (fst nd)) && is_anc G (fst e) (fst nd)
                         && ranges_ok (case_text c (fst nd)) (case_text c (fst e)) 0 0
                                      (case_matching c (fst nd) (fst e)))
               (snd nd)) (case_nodes c).

(** The property, on a list of origins (the implementation's or the model's): one origin
    per line of the starting text; the blamed commit's text has that line at the blamed
    line number; the blamed commit is an ancestor of the starting commit; an [Ok] origin is
    a node of the searched graph and its line is unmatched by the diff with every edge
    target of that node; an [Err] origin is the target of a missing edge (outside the
    domain) or the starting commit itself. *)
Definition origin_ok (c : case) (s : nat) (o : origin) : bool :=
  let G := case_graph c in
  let start := N.to_nat (c_start c) in
  match nth_line (case_text c (o_commit o)) (o_line o), nth_line (case_text c start) s with
  | Some a, Some b => line_eqb a b
  | _, _ => false
  end
  && is_anc G (o_commit o) start
  && (if o_ok o
      then existsb (fun nd => Nat.eqb (fst nd) (o_commit o) &&
                     forallb (fun e => negb (in_ranges (o_line o)
                                               (case_matching c (o_commit o) (fst e))))
                             (snd nd)) (case_nodes c)
      else Nat.eqb (o_commit o) start ||
           existsb (fun nd => existsb (fun e => is_missing e && Nat.eqb (fst e) (o_commit o))
                                      (snd nd)) (case_nodes c)).

Fixpoint origins_ok_from (c : case) (s : nat) (os : list origin) : bool :=
  match os with
  | [] => true
  | o :: t => origin_ok c s o && origins_ok_from c (S s) t
  end.

Definition prop_ok (c : case) (os : list origin) (txt : text) : bool :=
  let start := N.to_nat (c_start c) in
  Nat.eqb (length os) (length (case_text c start))
  && list_eqb line_eqb txt (case_text c start)
  && origins_ok_from c 0 os.

Definition is_mtb (nodes : list node) (p : nat) : bool :=
  existsb (fun nd => existsb (fun e => is_missing e && Nat.eqb (fst e) p) (snd nd)) nodes.

(** Strict form of the last clause, per call: an unresolved origin is the target of a
    missing edge of THIS call's stream — a commit outside the range this call searched (never
    the placeholder naming the start, never a root left over from an earlier, narrower
    call) — and every commit still pending is such a target. *)
Definition strict_ok (nodes : list node) (os : list origin) : bool :=
  forallb (fun o => o_ok o || is_mtb nodes (o_commit o)) os.
Definition pending_ok (nodes : list node) (pend : list nat) : bool :=
  forallb (is_mtb nodes) pend.

Fixpoint phases_okb (c : case) (phases : list (list node)) (oss : list (list origin))
         (pends : list (list nat)) : bool :=
  match phases, oss, pends with
  | [], [], [] => true
  | ns :: pt, os :: ot, pd :: dt =>
      prop_ok c os (lines_of (c_text c)) && strict_ok ns os && pending_ok ns pd
      && phases_okb c pt ot dt
  | _, _, _ => false
  end.
Definition okb (c : case) : bool :=
  phases_okb c (case_phases c) (case_origins c) (case_pending c).

(** Further validity of the recorded streams (hypotheses of the strict theorem, checked per
    case along the model's run): in every call the node commits are pairwise distinct, no
    node is the target of a missing edge, every non-missing edge target appears later in the
    stream, and every commit pending at the start of the call (the starting commit for the
    first call) is a node of the call's stream. *)
Fixpoint nodupb (l : list nat) : bool :=
  match l with
  | [] => true
  | x :: t => negb (existsb (Nat.eqb x) t) && nodupb t
  end.
Fixpoint closedb (l : list node) : bool :=
  match l with
  | [] => true
  | nd :: t =>
      forallb (fun e => is_missing e || existsb (fun nd' => Nat.eqb (fst nd') (fst e)) t) (snd nd)
      && closedb t
  end.
Definition phase_okb (st : state) (nodes : list node) : bool :=
  nodupb (map fst nodes)
  && forallb (fun nd => negb (is_mtb nodes (fst nd))) nodes
  && closedb nodes
  && forallb (fun kv => existsb (fun nd => Nat.eqb (fst nd) (fst kv)) nodes) (st_srcs st).

(** The shape on which the behaviour before the repair went wrong: two nodes of a searched
    graph have a missing edge to the same omitted parent. *)
Definition shared_omitted_parent (c : case) : bool :=
  let missing_targets nd := map fst (filter is_missing (snd nd)) in
  existsb (fun nd1 => existsb (fun nd2 =>
      negb (Nat.eqb (fst nd1) (fst nd2)) &&
      existsb (fun p => existsb (Nat.eqb p) (missing_targets nd2)) (missing_targets nd1))
    (case_nodes c)) (case_nodes c).

Definition case_init (c : case) : state :=
  let start := N.to_nat (c_start c) in init_state start (length (case_text c start)).
Definition model_states (c : case) : list state :=
  run_phases (case_matching c) false (case_init c) (case_phases c).
(** what the code computed before the repair 26901e2 (kept for the refuted witness) *)
Definition model_states_old (c : case) : list state :=
  run_phases (case_matching c) true (case_init c) (case_phases c).
Definition model_origins (c : case) : list (list origin) := map st_olm (model_states c).
Definition model_origins_old (c : case) : list (list origin) := map st_olm (model_states_old c).

Fixpoint stream_okb_from (m : nat -> nat -> list range3) (st : state) (phases : list (list node)) : bool :=
  match phases with
  | [] => true
  | ns :: t => phase_okb st ns && stream_okb_from m (run_phase m false st ns) t
  end.
Definition stream_okb (c : case) : bool :=
  stream_okb_from (case_matching c) (case_init c) (case_phases c).

Definition set_eqb (a b : list nat) : bool :=
  forallb (fun x => existsb (Nat.eqb x) b) a && forallb (fun x => existsb (Nat.eqb x) a) b
  && Nat.eqb (length a) (length b).

Definition check_case (c : case) : N :=
  let c1 := inputs_ok c && stream_okb c in
  let c2 := list_eqb (list_eqb origin_eqb) (model_origins c) (case_origins c) in
  let c3 := list_eqb set_eqb (map (fun st => map fst (st_srcs st)) (model_states c)) (case_pending c) in
  verdict (c1 && c2 && c3) (okb c) false (if negb c1 then 1 else if negb c2 then 2 else 3).
