(** C23 — Snapshots record exactly what is on disk.
    Model of lib/src/local_working_copy.rs:
      TreeState::snapshot (:1292-1423): walk, then tree entries / deleted files / file states
      FileSnapshotter::visit_directory (:1554-1593), process_dir_entry (:1595-1722),
      visit_tracked_files (:1725-1760), process_present_file (:1762-1786),
      emit_deleted_files (:1789-1819), get_updated_tree_value (:1821-1878).
    Not modelled (fixed by the harness configuration): fsmonitor (None), force_tracking_matcher
    (NothingMatcher, as in every command except `jj file track`), conflicted tree values,
    exec-bit policy other than Respect, non-UTF-8 names. Ignore decisions
    (GitIgnoreFile::matches_file / matches_dir under the chain of the ancestors' .gitignore
    files, see C28) and the clean verdict of each tracked path (see C26) are inputs. *)
From Verif Require Import Base.Prelude Gen.Tables.
From Verif Require Export Base.FsS.
Local Open Scope N_scope.

(** Tree values at file paths (conflicts excluded). *)
Inductive tvalue :=
| TFile (content : N) (exec : bool)
| TSymlink (target : N)
| TSubmodule.

Definition tvalue_eqb (a b : tvalue) : bool :=
  match a, b with
  | TFile c x, TFile d y => (c =? d) && Bool.eqb x y
  | TSymlink s, TSymlink t => s =? t
  | TSubmodule, TSubmodule => true
  | _, _ => false
  end.

(** A recorded file state, as far as the walk looks at it: is it a GitSubmodule state, and
    would the stat of the file now on disk be judged clean against it (C26's verdict). *)
Record tstate := mk_tstate { ts_sub : bool; ts_clean : bool }.

Record cfg := mk_cfg {
  c_sparse : list path;            (* TreeState::sparse_patterns (prefixes) *)
  c_auto : list path;              (* start_tracking_matcher, as prefixes ([[]] = everything) *)
  c_max_size : N;                  (* max_new_file_size *)
  c_ign_file : list path;          (* paths p with git_ignore.matches_file(p) *)
  c_ign_dir : list path;           (* paths p with git_ignore.matches_dir(p) *)
  c_tracked : list (path * tstate);(* file_states *)
  c_old : list (path * tvalue);    (* current tree, flattened to its file paths *)
}.

(** RESERVED_DIR_NAMES, scraped from the source. *)
Definition reserved (nm : string) : bool :=
  String.eqb nm WC_RESERVED_NAME_1 || String.eqb nm WC_RESERVED_NAME_2.

(** The nested-repo test of process_dir_entry (:1638-1642): the directory has an entry named
    like a reserved directory (of any type). *)
Definition nested_repo (es : list (string * dnode)) : bool :=
  existsb (fun e => reserved (fst e)) es.

(** What file_state(metadata) + write_path_to_store / write_symlink_to_store record. *)
Definition leaf_value (n : dnode) : option tvalue :=
  match n with
  | DFile c x _ => Some (TFile c x)
  | DSymlink t _ => Some (TSymlink t)
  | _ => None
  end.

(** Output of the walk: the messages sent on the channels. *)
Record out := mk_out {
  o_upd : list (path * tvalue);   (* tree_entries_tx *)
  o_del : list path;              (* deleted_files_tx *)
  o_seen : list path;             (* paths that went through process_present_file *)
}.
Definition out_empty : out := mk_out [] [] [].
Definition out_app (a b : out) : out :=
  mk_out (o_upd a ++ o_upd b) (o_del a ++ o_del b) (o_seen a ++ o_seen b).

(** An entry the directory scan reports as present (PresentDirEntryKind + name). *)
Inductive pres := PDir (nm : string) | PFile (nm : string).
Definition pres_eqb (a b : pres) : bool :=
  match a, b with
  | PDir x, PDir y => String.eqb x y
  | PFile x, PFile y => String.eqb x y
  | _, _ => false
  end.

Section Walk.
  Context (c : cfg) (root : dnode).

  Definition st_at (p : path) : option tstate := plookup p (c_tracked c).
  Definition is_sub (p : path) : bool :=
    match st_at p with Some s => ts_sub s | None => false end.
  Definition is_tracked (p : path) : bool :=
    match st_at p with Some _ => true | None => false end.
  Definition sparse_matches (p : path) : bool := prefix_matches (c_sparse c) p.
  Definition old_at (p : path) : option tvalue := plookup p (c_old c).

  (** process_present_file + get_updated_tree_value for a regular file or symlink. *)
  Definition present_file (p : path) (v : tvalue) : out :=
    let clean := match st_at p with Some s => ts_clean s | None => false end in
    let upd :=
      if clean then []
      else if option_eqb tvalue_eqb (old_at p) (Some v) then [] else [(p, v)] in
    mk_out upd [] [p].

  (** visit_tracked_files (:1725-1760) over the states below an ignored directory [p]: one
      tracked path. *)
  Definition tracked_step (p : path) (e : path * tstate) : out :=
    let tp := fst e in
    if negb (is_prefix p tp) then out_empty
    else if ts_sub (snd e) then out_empty
    else if negb (sparse_matches tp) then out_empty
    else
      match dstat root tp with
      | SFound n =>
          match leaf_value n with
          | Some v => present_file tp v
          | None => mk_out [] [tp] []
          end
      | SNotFound | SNotDir =>
          (* NotFound | NotADirectory: the tracked file is gone (other errors abort the
             snapshot and are not modelled) *)
          mk_out [] [tp] []
      end.

  Definition visit_tracked (p : path) : out :=
    fold_right (fun e acc => out_app (tracked_step p e) acc) out_empty (c_tracked c).

  (** process_dir_entry (:1595-1722), first half: what kind of entry is [nm -> ch] at path [p]
      (= dir/nm)? The branches are tested in the source's order. *)
  Inductive eclass :=
  | CSkip                      (* Ok(None): not reported as present, nothing recorded *)
  | CIgnoredDir                (* ignored directory: only tracked files below it are visited *)
  | CPrunedDir                 (* matcher.visit(path) is nothing: not entered *)
  | CDescend                   (* visit_directory *)
  | CPresentFile (v : tvalue). (* process_present_file *)

  Definition classify (p : path) (nm : string) (ch : dnode) : eclass :=
    if reserved nm then CSkip                                   (* :1616 *)
    else if is_sub p then CSkip                                 (* :1622-1626 *)
    else
      match ch with
      | DDir es =>
          if nested_repo es then CSkip                          (* :1638-1642 *)
          else if pmem p (c_ign_dir c) then CIgnoredDir         (* :1644-1654 *)
          else if prefix_visit_nothing (c_sparse c) p then CPrunedDir   (* :1655 *)
          else CDescend
      | _ =>
          if sparse_matches p then                              (* :1669 *)
            if negb (is_tracked p) && pmem p (c_ign_file c) then CSkip            (* :1673-1678 *)
            else if negb (is_tracked p) && negb (prefix_matches (c_auto c) p) then CSkip  (* :1679-1686 *)
            else if negb (is_tracked p) && (c_max_size c <? node_size ch) then CSkip     (* :1692-1702 *)
            else
              match leaf_value ch with
              | Some v => CPresentFile v                        (* :1703-1713 *)
              | None => CSkip              (* special file: not considered present *)
              end
          else CSkip
      end.

  (** process_dir_entry, second half: the output and the reported presence. [sub] is the result
      of visiting [ch] as a directory (used only when the walk descends). *)
  Definition entry (dir : path) (nm : string) (ch : dnode) (sub : out) : out * list pres :=
    let p := dir ++ [nm] in
    match classify p nm ch with
    | CSkip => (out_empty, [])
    | CIgnoredDir => (visit_tracked p, [PDir nm])
    | CPrunedDir => (out_empty, [PDir nm])
    | CDescend => (sub, [PDir nm])
    | CPresentFile v => (present_file p v, [PFile nm])
    end.

  (** emit_deleted_files: tracked paths below [dir] whose next component is not present. *)
  Definition rel_kind (dir p : path) : pres :=
    match skipn (length dir) p with
    | [] => PFile EmptyString
    | [nm] => PFile nm
    | nm :: _ => PDir nm
    end.

  Definition emit_deleted (dir : path) (present : list pres) : out :=
    mk_out []
      (map fst
         (filter (fun e =>
                    is_prefix dir (fst e)
                    && negb (mem pres_eqb (rel_kind dir (fst e)) present)
                    && negb (ts_sub (snd e))
                    && sparse_matches (fst e))
                 (c_tracked c)))
      [].

  (** The scan of one directory's entries, given how sub-directories are visited. *)
  Definition scan (vis : path -> dnode -> out) (dir : path) : list (string * dnode) -> out * list pres :=
    fix go (l : list (string * dnode)) : out * list pres :=
      match l with
      | [] => (out_empty, [])
      | e :: rest =>
          let a := entry dir (fst e) (snd e) (vis (dir ++ [fst e]) (snd e)) in
          let b := go rest in
          (out_app (fst a) (fst b), snd a ++ snd b)
      end.

  (** visit_directory *)
  Fixpoint visit (dir : path) (n : dnode) : out :=
    match n with
    | DDir es =>
        let r := scan visit dir es in
        out_app (fst r) (emit_deleted dir (snd r))
    | _ => out_empty
    end.

  Definition walk : out := visit [] root.

  (** The new tree (flattened): tree entries are set first, then deleted files removed
      (snapshot :1371-1384); the new file-state keys (merge_in). *)
  Definition tree_of (w : out) (p : path) : option tvalue :=
    if pmem p (o_del w) then None
    else match plookup p (o_upd w) with
         | Some v => Some v
         | None => old_at p
         end.

  Definition tracked_of (w : out) (p : path) : bool :=
    (is_tracked p && negb (pmem p (o_del w))) || pmem p (o_seen w).

  Definition new_tree_at (p : path) : option tvalue := tree_of walk p.
  Definition new_tracked (p : path) : bool := tracked_of walk p.

  (** ** The declarative per-path reading of the walk (the specification). *)
  Inductive action :=
  | APresent (v : tvalue)   (* a file/symlink the walk looks at: recorded (or kept if clean) *)
  | ADelete                 (* tracked, but the walk finds nothing it accepts at the path *)
  | ANone.                  (* the walk leaves the path alone *)

  (** A tracked path at which nothing acceptable is found. *)
  Definition gone (p : path) : action :=
    match st_at p with
    | Some s => if negb (ts_sub s) && sparse_matches p then ADelete else ANone
    | None => ANone
    end.

  (** A tracked path below an ignored directory: looked up by its absolute path
      (visit_tracked_files). *)
  Definition tracked_only (p : path) : action :=
    match st_at p with
    | Some s =>
        if negb (ts_sub s) && sparse_matches p then
          match dstat root p with
          | SFound leaf =>
              match leaf_value leaf with
              | Some v => APresent v
              | None => ADelete
              end
          | SNotFound | SNotDir => ADelete
          end
        else ANone
    | None => ANone
    end.

  (** What happens to path [dir ++ q], decided by descending from the directory node [n] (at
      [dir]) along [q]: at every level the entry named by the next component is classified
      exactly as the walk classifies it. Anything the walk does not accept at the path means
      [gone]: a tracked path is then reported deleted. *)
  Fixpoint act (dir : path) (n : dnode) (q : path) {struct q} : action :=
    match q with
    | [] => match n with DDir _ => gone dir | _ => ANone end
    | nm :: q' =>
        match n with
        | DDir es =>
            let p1 := dir ++ [nm] in
            let p := dir ++ q in
            match find_entry nm es with
            | None => gone p
            | Some ch =>
                match classify p1 nm ch, q' with
                | CPresentFile v, [] => APresent v
                | CIgnoredDir, _ :: _ => tracked_only p
                | CPrunedDir, _ :: _ => ANone
                | CDescend, _ :: _ => act p1 ch q'
                | _, _ => gone p
                end
            end
        | _ => ANone
        end
    end.

  (** The value the property demands at a path. *)
  Definition expected_at (p : path) : option tvalue :=
    match act [] root p with
    | APresent v => Some v
    | ADelete => None
    | ANone => old_at p
    end.

  Definition expected_tracked (p : path) : bool :=
    match act [] root p with
    | APresent _ => true
    | ADelete => false
    | ANone => is_tracked p
    end.
End Walk.

(** ** Correspondence cases *)

(** All file/symlink/special paths of a disk tree and all its directory paths. *)
Fixpoint disk_paths (dir : path) (n : dnode) : list path :=
  match n with
  | DDir es =>
      (fix go (l : list (string * dnode)) : list path :=
         match l with
         | [] => []
         | e :: rest => ((dir ++ [fst e]) :: disk_paths (dir ++ [fst e]) (snd e)) ++ go rest
         end) es
  | _ => []
  end.

Record case := mk_case {
  k_cfg : cfg;
  k_disk : dnode;                       (* the working-copy directory at snapshot time *)
  k_new_tree : list (path * tvalue);    (* impl: tree after the snapshot, flattened *)
  k_new_tracked : list path;            (* impl: keys of file_states after the snapshot *)
  k_failed : bool;                      (* impl: snapshot returned Err (or panicked) *)
}.

(** Paths at which model / property and implementation are compared. *)
Definition probe_paths (k : case) : list path :=
  disk_paths [] (k_disk k) ++ map fst (c_tracked (k_cfg k)) ++ map fst (c_old (k_cfg k))
  ++ map fst (k_new_tree k) ++ k_new_tracked k.

Definition okb (k : case) : bool :=
  negb (k_failed k) &&
  forallb (fun p =>
             option_eqb tvalue_eqb (plookup p (k_new_tree k)) (expected_at (k_cfg k) (k_disk k) p)
             && Bool.eqb (pmem p (k_new_tracked k)) (expected_tracked (k_cfg k) (k_disk k) p))
          (probe_paths k).

Definition check_case (k : case) : N :=
  let c := k_cfg k in
  let w := walk c (k_disk k) in
  let corr :=
    wf_node (k_disk k) && paths_unique (map fst (c_tracked c)) && negb (k_failed k) &&
    forallb (fun p =>
               option_eqb tvalue_eqb (plookup p (k_new_tree k)) (tree_of c w p)
               && Bool.eqb (pmem p (k_new_tracked k)) (tracked_of c w p))
            (probe_paths k) in
  verdict corr (okb k) false 1.
