(** C19 — revset expressions: the resolved expression language, its translation to the
    backend language (lib/src/revset.rs [resolve_visibility]), the set-theoretic meaning of
    backend expressions over a commit graph (what lib/src/default_index/revset_engine.rs
    [EvaluationContext::evaluate] must compute; its lazy walks are NOT modelled), and the
    optimizer passes of lib/src/revset.rs transcribed one by one.  Definitions only. *)
From Verif Require Import Base.Prelude Base.DagR.
Local Open Scope nat_scope.

(* ------------------------------------------------------------------ expressions *)

(** [RevsetExpression<ResolvedExpressionState>] (revset.rs:268).  Commit ids are index
    positions; [CommitRef] and [AtOperation] are uninhabited in the resolved state;
    [HasSize] (an assertion that raises an error) and [Divergent] (change-id lookup) are
    left out.  Filter predicates are abstract: [EFilter f] names the f-th predicate. *)
Inductive expr :=
| ENone | EAll | EVisibleHeads | EVisibleHeadsOrReferenced | ERoot
| ECommits (l : list nat)
| EAncestors (h : expr) (g : nrange) (p : nrange)
| EDescendants (r : expr) (g : nrange)
| ERange (r h : expr) (g : nrange) (p : nrange)
| EDagRange (r h : expr)
| EReachable (s d : expr)
| EHeads (c : expr)
| EHeadsRange (r h : expr) (p : nrange) (f : expr)
| ERoots (c : expr)
| EForks
| EForkPoint (c : expr)
| EMergePoint (c : expr)
| EBisect (c : expr)
| ELatest (c : expr) (k : N)
| EFilter (f : nat)
| EAsFilter (c : expr)
| EWithinReference (c : expr) (cs : list nat)
| EWithinVisibility (c : expr) (vh : list nat)
| ECoalesce (a b : expr)
| EPresent (c : expr)
| ENotIn (c : expr)
| EUnion (a b : expr)
| EIntersection (a b : expr)
| EDifference (a b : expr).

(** [ResolvedExpression] / [ResolvedPredicateExpression] (revset.rs:729-814).
    [HeadsRange]'s optional filter is split into two constructors. *)
Inductive bexpr :=
| BCommits (l : list nat)
| BAncestors (h : bexpr) (g p : nrange)
| BRange (r h : bexpr) (g p : nrange)
| BDagRange (r h : bexpr) (g : nrange)
| BReachable (s d : bexpr)
| BHeads (c : bexpr)
| BHeadsRange (r h : bexpr) (p : nrange)
| BHeadsRangeF (r h : bexpr) (p : nrange) (f : pexpr)
| BRoots (c : bexpr)
| BForks (h : bexpr)
| BForkPoint (c : bexpr)
| BMergePoint (r vh : bexpr)
| BBisect (c : bexpr)
| BLatest (c : bexpr) (k : N)
| BCoalesce (a b : bexpr)
| BUnion (a b : bexpr)
| BFilterWithin (c : bexpr) (p : pexpr)
| BIntersection (a b : bexpr)
| BDifference (a b : bexpr)
with pexpr :=
| PFilter (f : nat)
| PSet (b : bexpr)
| PNotIn (p : pexpr)
| PUnion (p q : pexpr)
| PIntersection (p q : pexpr).

(** [VisibilityResolutionContext] (revset.rs:3145); the root commit is position 0. *)
Record vctx := mk_vctx {
  x_refs : list nat;      (* referenced_commits *)
  x_vis : list nat;       (* visible_heads *)
  x_hn : bool;            (* is_heads_normalized *)
}.

Definition b_vis_or_ref (c : vctx) : bexpr := BCommits (x_refs c ++ x_vis c).
Definition b_all (c : vctx) : bexpr := BAncestors (b_vis_or_ref c) GEN_FULL PR_FULL.
Definition b_vis (c : vctx) : bexpr :=
  if x_hn c then BCommits (x_vis c) else BHeads (BCommits (x_vis c)).

(** [resolve] and [resolve_predicate] (revset.rs:3154, 3352) computed together: the first
    component is [self.resolve(e)], the second [self.resolve_predicate(e)]. *)
Fixpoint res (c : vctx) (e : expr) : bexpr * pexpr :=
  let set (b : bexpr) := (b, PSet b) in
  match e with
  | ENone => set (BCommits [])
  | EAll => set (b_all c)
  | EVisibleHeads => set (b_vis c)
  | EVisibleHeadsOrReferenced => set (b_vis_or_ref c)
  | ERoot => set (BCommits [0])
  | ECommits l => set (BCommits l)
  | EAncestors h g p => set (BAncestors (fst (res c h)) g p)
  | EDescendants r g => set (BDagRange (fst (res c r)) (b_vis_or_ref c) g)
  | ERange r h g p => set (BRange (fst (res c r)) (fst (res c h)) g p)
  | EDagRange r h => set (BDagRange (fst (res c r)) (fst (res c h)) GEN_FULL)
  | EReachable s d => set (BReachable (fst (res c s)) (fst (res c d)))
  | EHeads x => set (BHeads (fst (res c x)))
  | EHeadsRange r h p f =>
      set (match f with
           | EAll => BHeadsRange (fst (res c r)) (fst (res c h)) p
           | _ => BHeadsRangeF (fst (res c r)) (fst (res c h)) p (snd (res c f))
           end)
  | ERoots x => set (BRoots (fst (res c x)))
  | EForks => set (BForks (b_vis_or_ref c))
  | EForkPoint x => set (BForkPoint (fst (res c x)))
  | EMergePoint x => set (BMergePoint (fst (res c x)) (b_vis_or_ref c))
  | EBisect x => set (BBisect (fst (res c x)))
  | ELatest x k => set (BLatest (fst (res c x)) k)
  | EFilter f => (BFilterWithin (b_all c) (PFilter f), PFilter f)
  | EAsFilter x => let p := snd (res c x) in (BFilterWithin (b_all c) p, p)
  | EWithinReference x cs =>
      set (fst (res (mk_vctx cs (x_vis c) (x_hn c)) x))
  | EWithinVisibility x vh =>
      set (fst (res (mk_vctx (x_refs c) vh (x_hn c)) x))
  | ECoalesce a b => set (BCoalesce (fst (res c a)) (fst (res c b)))
  | EPresent x => res c x
  | ENotIn x => (BDifference (b_all c) (fst (res c x)), PNotIn (snd (res c x)))
  | EUnion a b =>
      (BUnion (fst (res c a)) (fst (res c b)), PUnion (snd (res c a)) (snd (res c b)))
  | EIntersection a b =>
      (match b with
       | EFilter _ | EAsFilter _ => BFilterWithin (fst (res c a)) (snd (res c b))
       | _ => BIntersection (fst (res c a)) (fst (res c b))
       end,
       PIntersection (snd (res c a)) (snd (res c b)))
  | EDifference a b =>
      (BDifference (fst (res c a)) (fst (res c b)),
       PIntersection (snd (res c a)) (PNotIn (snd (res c b))))
  end.
Definition resolve (c : vctx) (e : expr) : bexpr := fst (res c e).
Definition resolve_pred (c : vctx) (e : expr) : pexpr := snd (res c e).

(* ------------------------------------------------------------------ set semantics *)

(** The world a backend expression is evaluated in. *)
Record world := mk_world {
  w_graph : graph;            (* parents per index position *)
  w_ts : list Z;              (* committer timestamp per position (for latest()) *)
  w_filters : list bset;      (* the abstract filter predicates, as position sets *)
}.

Section Sem.
  Variable W : world.
  Let G := w_graph W.
  Let n := length G.

  Definition ts_of (x : nat) : Z := nth x (w_ts W) 0%Z.
  (** [Item { timestamp, pos }] ordering of [take_latest_revset] (revset_engine.rs:1211). *)
  Definition later (y x : nat) : bool :=
    (ts_of x <? ts_of y)%Z || ((ts_of x =? ts_of y)%Z && Nat.ltb x y).

  Definition sem_forks (A : bset) : bset :=
    tab n (fun x => bmem A x &&
      Nat.leb 2 (length (filter (fun y => bmem A y && memn x (parents G y)) (seq 0 n)))).
  Definition inter_over (S : bset) (f : nat -> bset) (start : bset) : bset :=
    fold_left (fun acc s => if bmem S s then binter n acc (f s) else acc) (seq 0 n) start.
  Definition sem_fork_point (S : bset) : bset :=
    if bis_empty (tab n (bmem S)) then bempty n
    else heads G (inter_over S (fun s => anc_full G (bsingle n s)) (bfull n)).
  Definition sem_merge_point (R VH : bset) : bset :=
    if bis_empty (tab n (bmem R)) then bempty n
    else roots G (inter_over R (fun r => desc_full G (bsingle n r)) (anc_full G VH)).
  Definition sem_bisect (S : bset) : bset :=
    let l := blist n S in
    match l with
    | [] => bempty n
    | _ => bsingle n (nth (Nat.div (length l) 2) l 0)
    end.
  Definition sem_latest (S : bset) (k : N) : bset :=
    tab n (fun x => bmem S x &&
      (N.of_nat (length (filter (fun y => bmem S y && later y x) (seq 0 n))) <? k)%N).
  (** Commits of [D] connected to a member of [S ∩ D] by parent/child edges inside [D]. *)
  Definition sem_reachable (S D : bset) : bset :=
    Nat.iter n (fun cur =>
      bunion n cur (binter n D (bunion n (pstep G PR_FULL cur) (cstep G cur))))
      (binter n S D).

  Fixpoint bden (b : bexpr) : bset :=
    match b with
    | BCommits l => bof_list n l
    | BAncestors h g p => anc_gen G p g (bden h)
    | BRange r h g p => bdiff n (anc_gen G p g (bden h)) (anc_full G (bden r))
    | BDagRange r h g => binter n (anc_full G (bden h)) (desc_gen G g (bden r))
    | BReachable s d => sem_reachable (bden s) (bden d)
    | BHeads c => heads G (bden c)
    | BHeadsRange r h p =>
        heads G (bdiff n (anc_gen G p GEN_FULL (bden h)) (anc_full G (bden r)))
    | BHeadsRangeF r h p f =>
        heads G (binter n (bdiff n (anc_gen G p GEN_FULL (bden h)) (anc_full G (bden r)))
                         (pbden f))
    | BRoots c => roots G (bden c)
    | BForks h => sem_forks (anc_full G (bden h))
    | BForkPoint c => sem_fork_point (bden c)
    | BMergePoint r vh => sem_merge_point (bden r) (bden vh)
    | BBisect c => sem_bisect (bden c)
    | BLatest c k => sem_latest (bden c) k
    | BCoalesce a b => if bis_empty (bden a) then bden b else bden a
    | BUnion a b => bunion n (bden a) (bden b)
    | BFilterWithin c p => binter n (bden c) (pbden p)
    | BIntersection a b => binter n (bden a) (bden b)
    | BDifference a b => bdiff n (bden a) (bden b)
    end
  with pbden (p : pexpr) : bset :=
    match p with
    | PFilter f => tab n (bmem (nth f (w_filters W) []))
    | PSet b => bden b
    | PNotIn q => bcompl n (pbden q)
    | PUnion q r => bunion n (pbden q) (pbden r)
    | PIntersection q r => binter n (pbden q) (pbden r)
    end.

  (** Evaluation raises "Lower bound of generation is too large" when a non-full generation
      range whose start exceeds [u32::MAX] reaches [to_u32_generation_range]
      (revset_engine.rs:745, called eagerly from [evaluate]). *)
  Definition gen_bad (g : nrange) : bool := negb (gen_is_full g) && (U32MAX <? fst g)%N.
  Definition GEN_CHILDREN : nrange := (1, 2)%N.
  Fixpoint berr (b : bexpr) : bool :=
    match b with
    | BCommits _ => false
    | BAncestors h g _ => berr h || gen_bad g
    | BRange r h g _ => berr r || berr h || gen_bad g
    | BDagRange r h g =>
        berr r || berr h || (negb (nrange_eqb g GEN_CHILDREN) && gen_bad g)
    | BReachable s d => berr d || berr s
    | BHeads c | BRoots c | BForks c | BForkPoint c | BBisect c | BLatest c _ => berr c
    | BHeadsRange r h _ => berr r || berr h
    | BHeadsRangeF r h _ f => berr r || berr h || perr f
    | BMergePoint r vh => berr r || (negb (bis_empty (bden r)) && berr vh)
    | BCoalesce a b => berr a || (bis_empty (bden a) && berr b)
    | BUnion a b | BIntersection a b | BDifference a b => berr a || berr b
    | BFilterWithin c p => berr c || perr p
    end
  with perr (p : pexpr) : bool :=
    match p with
    | PFilter _ => false
    | PSet b => berr b
    | PNotIn q => perr q
    | PUnion q r | PIntersection q r => perr q || perr r
    end.

  Definition den (c : vctx) (e : expr) : bset := bden (resolve c e).
  Definition pden (c : vctx) (e : expr) : bset := pbden (resolve_pred c e).
  (** What [Revset::stream] lists: the members in descending index position, or an error. *)
  Definition eval (c : vctx) (e : expr) : option (list nat) :=
    let b := resolve c e in if berr b then None else Some (blist n (bden b)).
End Sem.

(* ------------------------------------------------------------------ the optimizer *)

(** [transform_expression_bottom_up] (revset.rs:1507-1728): children first, then [post] on
    the rebuilt node; [None] keeps the node. *)
Fixpoint tr (post : expr -> option expr) (e : expr) : expr :=
  let e' :=
    match e with
    | ENone | EAll | EVisibleHeads | EVisibleHeadsOrReferenced | ERoot | ECommits _
    | EForks | EFilter _ => e
    | EAncestors h g p => EAncestors (tr post h) g p
    | EDescendants r g => EDescendants (tr post r) g
    | ERange r h g p => ERange (tr post r) (tr post h) g p
    | EDagRange r h => EDagRange (tr post r) (tr post h)
    | EReachable s d => EReachable (tr post s) (tr post d)
    | EHeads c => EHeads (tr post c)
    | EHeadsRange r h p f => EHeadsRange (tr post r) (tr post h) p (tr post f)
    | ERoots c => ERoots (tr post c)
    | EForkPoint c => EForkPoint (tr post c)
    | EMergePoint c => EMergePoint (tr post c)
    | EBisect c => EBisect (tr post c)
    | ELatest c k => ELatest (tr post c) k
    | EAsFilter c => EAsFilter (tr post c)
    | EWithinReference c cs => EWithinReference (tr post c) cs
    | EWithinVisibility c vh => EWithinVisibility (tr post c) vh
    | ECoalesce a b => ECoalesce (tr post a) (tr post b)
    | EPresent c => EPresent (tr post c)
    | ENotIn c => ENotIn (tr post c)
    | EUnion a b => EUnion (tr post a) (tr post b)
    | EIntersection a b => EIntersection (tr post a) (tr post b)
    | EDifference a b => EDifference (tr post a) (tr post b)
    end in
  match post e' with Some e'' => e'' | None => e' end.

Definition opt_or {A} (o : option A) (d : A) : A := match o with Some x => x | None => d end.

(** [resolve_referenced_commits] (revset.rs:1946-2021).  [rrc_walk e] returns the rewritten
    tree, the commits of [Commits] leaves in post-order ([outer_commits]) and the commits
    of trusted [WithinReference] / [WithinVisibility] scopes ([inner_commits]). *)
Fixpoint rrc_walk (e : expr) : expr * list nat * list nat :=
  match e with
  | ENone | EAll | EVisibleHeads | EVisibleHeadsOrReferenced | ERoot | EForks | EFilter _ =>
      (e, [], [])
  | ECommits l => (e, l, [])
  | EWithinReference _ cs => (e, [], cs)
  | EWithinVisibility c vh =>
      match c with
      | EWithinReference _ cs => (e, [], vh ++ cs)
      | _ => let '(c', o, i) := rrc_walk c in
             (EWithinVisibility (EWithinReference c' (o ++ i)) vh, [], vh ++ (o ++ i))
      end
  | EAncestors h g p => let '(h', o, i) := rrc_walk h in (EAncestors h' g p, o, i)
  | EDescendants r g => let '(r', o, i) := rrc_walk r in (EDescendants r' g, o, i)
  | ERange r h g p =>
      let '(r', o1, i1) := rrc_walk r in let '(h', o2, i2) := rrc_walk h in
      (ERange r' h' g p, o1 ++ o2, i1 ++ i2)
  | EDagRange r h =>
      let '(r', o1, i1) := rrc_walk r in let '(h', o2, i2) := rrc_walk h in
      (EDagRange r' h', o1 ++ o2, i1 ++ i2)
  | EReachable s d =>
      let '(s', o1, i1) := rrc_walk s in let '(d', o2, i2) := rrc_walk d in
      (EReachable s' d', o1 ++ o2, i1 ++ i2)
  | EHeads c => let '(c', o, i) := rrc_walk c in (EHeads c', o, i)
  | EHeadsRange r h p f =>
      let '(r', o1, i1) := rrc_walk r in let '(h', o2, i2) := rrc_walk h in
      let '(f', o3, i3) := rrc_walk f in
      (EHeadsRange r' h' p f', o1 ++ o2 ++ o3, i1 ++ i2 ++ i3)
  | ERoots c => let '(c', o, i) := rrc_walk c in (ERoots c', o, i)
  | EForkPoint c => let '(c', o, i) := rrc_walk c in (EForkPoint c', o, i)
  | EMergePoint c => let '(c', o, i) := rrc_walk c in (EMergePoint c', o, i)
  | EBisect c => let '(c', o, i) := rrc_walk c in (EBisect c', o, i)
  | ELatest c k => let '(c', o, i) := rrc_walk c in (ELatest c' k, o, i)
  | EAsFilter c => let '(c', o, i) := rrc_walk c in (EAsFilter c', o, i)
  | ECoalesce a b =>
      let '(a', o1, i1) := rrc_walk a in let '(b', o2, i2) := rrc_walk b in
      (ECoalesce a' b', o1 ++ o2, i1 ++ i2)
  | EPresent c => let '(c', o, i) := rrc_walk c in (EPresent c', o, i)
  | ENotIn c => let '(c', o, i) := rrc_walk c in (ENotIn c', o, i)
  | EUnion a b =>
      let '(a', o1, i1) := rrc_walk a in let '(b', o2, i2) := rrc_walk b in
      (EUnion a' b', o1 ++ o2, i1 ++ i2)
  | EIntersection a b =>
      let '(a', o1, i1) := rrc_walk a in let '(b', o2, i2) := rrc_walk b in
      (EIntersection a' b', o1 ++ o2, i1 ++ i2)
  | EDifference a b =>
      let '(a', o1, i1) := rrc_walk a in let '(b', o2, i2) := rrc_walk b in
      (EDifference a' b', o1 ++ o2, i1 ++ i2)
  end.

Definition rrc (e : expr) : expr :=
  match e with
  | EWithinReference _ _ => e
  | _ => let '(e', o, i) := rrc_walk e in
         match o ++ i with
         | [] => e'
         | cs => EWithinReference e' cs
         end
  end.

(** [unfold_difference] (revset.rs:2506). *)
Definition unfold_difference_post (e : expr) : option expr :=
  match e with
  | ERange r h g p =>
      Some (EIntersection (EAncestors h g p) (ENotIn (EAncestors r GEN_FULL PR_FULL)))
  | EDifference a b => Some (EIntersection a (ENotIn b))
  | _ => None
  end.

(** [fold_redundant_expression] (revset.rs:2194); match arms in source order. *)
Definition fold_redundant_post (e : expr) : option expr :=
  match e with
  | ECommits [] => Some ENone
  | ENotIn (ENotIn i) => Some i
  | ENotIn ENone => Some EAll
  | ENotIn EAll => Some ENone
  | EUnion a b =>
      match b with
      | ENone => Some a
      | _ => match a with
             | ENone => Some b
             | EAll => Some EAll
             | _ => match b with EAll => Some EAll | _ => None end
             end
      end
  | EIntersection a b =>
      match a with
      | ENone => Some ENone
      | _ => match b with
             | ENone => Some ENone
             | EAll => Some a
             | _ => match a with EAll => Some b | _ => None end
             end
      end
  | _ => None
  end.

(** [fold_generation] (revset.rs:2533) with [u64::saturating_add] written out. *)
Definition sat_add (a b : N) : N := N.min (a + b) U64MAX.
Definition gen_empty (g : nrange) : bool := (snd g <=? fst g)%N.
Definition add_generation (g1 g2 : nrange) : nrange :=
  if gen_empty g1 || gen_empty g2 then (0, 0)%N
  else (sat_add (fst g1) (fst g2), sat_add (snd g1) (snd g2 - 1)).
Definition fold_generation_post (e : expr) : option expr :=
  match e with
  | EAncestors (EAncestors h g2 p2) g1 p1 =>
      if nrange_eqb p2 p1 then Some (EAncestors h (add_generation g1 g2) p1) else None
  | EDescendants (EDescendants r g2) g1 => Some (EDescendants r (add_generation g1 g2))
  | _ => None
  end.

(** [flatten_intersections] (revset.rs:2025). *)
Fixpoint flatten (e1 e2 : expr) : option expr :=
  match e2 with
  | EIntersection i1 i2 =>
      Some (EIntersection (opt_or (flatten e1 i1) (EIntersection e1 i1)) i2)
  | _ => None
  end.
Definition flatten_intersections_post (e : expr) : option expr :=
  match e with EIntersection a b => flatten a b | _ => None end.

(** [sort_negations_and_ancestors] (revset.rs:2087): keys in the derive(Ord) order
    NegatedAncestors < Ancestors < Other < NegatedOther. *)
Definition sort_key (e : expr) : N :=
  match e with
  | EAncestors _ g _ => if (snd g =? U64MAX)%N then 1 else 2
  | ENotIn (EAncestors _ g p) =>
      if (snd g =? U64MAX)%N && nrange_eqb p PR_FULL then 0 else 3
  | ENotIn _ => 3
  | _ => 2
  end%N.
Fixpoint sort_helper (base expression : expr) (k : N) : option expr :=
  match base with
  | EIntersection i1 i2 =>
      if (k <? sort_key i2)%N
      then Some (EIntersection
                   (opt_or (sort_helper i1 expression k) (EIntersection i1 expression)) i2)
      else None
  | _ => if (k <? sort_key base)%N then Some (EIntersection expression base) else None
  end.
Definition sort_negations_post (e : expr) : option expr :=
  match e with EIntersection a b => sort_helper a b (sort_key b) | _ => None end.

(** [ancestors_to_heads_and_parents_range] / [ancestors_to_heads] (revset.rs:2230-2265). *)
Definition a2hp (e : expr) : option (expr * nrange) :=
  match e with
  | EAncestors h g p =>
      if gen_is_full g then Some (h, p)
      else if (snd g =? U64MAX)%N
           then Some (EAncestors h (fst g, sat_add (fst g) 1) p, p)
           else None
  | _ => None
  end.
Definition a2h (e : expr) : option expr :=
  match a2hp e with
  | Some (h, p) => if nrange_eqb p PR_FULL then Some h else None
  | None => None
  end.

(** [fold_ancestors_union] (revset.rs:2271). *)
Definition union_ancestors (a b : expr) : option expr :=
  match a2h a with
  | Some h1 => match a2h b with
               | Some h2 => Some (EAncestors (EUnion h1 h2) GEN_FULL PR_FULL)
               | None => None
               end
  | None => None
  end.
Definition fold_ancestors_union_post (e : expr) : option expr :=
  match e with
  | EUnion a b => union_ancestors a b
  | EIntersection (ENotIn c1) (ENotIn c2) => option_map ENotIn (union_ancestors c1 c2)
  | _ => None
  end.

(** [internalize_filter] (revset.rs:2131). *)
Definition get_filter (e : expr) : option expr :=
  match e with
  | EFilter _ => Some e
  | EAsFilter c => Some c
  | _ => None
  end.
Definition internalize_filter_post (e : expr) : option expr :=
  match e with
  | EPresent x => option_map (fun f => EAsFilter (EPresent f)) (get_filter x)
  | ENotIn x => option_map (fun f => EAsFilter (ENotIn f)) (get_filter x)
  | EUnion e1 e2 =>
      match get_filter e1, get_filter e2 with
      | None, None => None
      | f1, f2 => Some (EAsFilter (EUnion (opt_or f1 e1) (opt_or f2 e2)))
      end
  | EIntersection e1 e2 =>
      match get_filter e1, get_filter e2 with
      | Some f1, Some f2 => Some (EAsFilter (EIntersection f1 f2))
      | Some _, None => Some (EIntersection e2 e1)
      | None, Some f2 =>
          match e1 with
          | EIntersection e1a e1b =>
              option_map (fun f1b => EIntersection e1a (EAsFilter (EIntersection f1b f2)))
                         (get_filter e1b)
          | _ => None
          end
      | None, None =>
          match e1 with
          | EIntersection e1a e1b =>
              option_map (fun _ => EIntersection (EIntersection e1a e2) e1b) (get_filter e1b)
          | _ => None
          end
      end
  | _ => None
  end.

(** [fold_heads_range] (revset.rs:2307). *)
Record frange := mk_frange {
  fr_roots : expr;
  fr_hp : option (expr * nrange);
  fr_filter : expr;
}.
Definition fr_new (roots : expr) : frange := mk_frange roots None EAll.
Definition fr_add_filter (fr : frange) (e : expr) : frange :=
  mk_frange (fr_roots fr) (fr_hp fr)
            (match fr_filter fr with EAll => e | f => EIntersection f e end).
Definition fr_add (fr : frange) (e : expr) : frange :=
  match fr_hp fr with
  | None => match a2hp e with
            | Some hp => mk_frange (fr_roots fr) (Some hp) (fr_filter fr)
            | None => fr_add_filter fr e
            end
  | Some _ => fr_add_filter fr e
  end.
Fixpoint to_filtered_range (e : expr) : option frange :=
  match a2hp e with
  | Some hp => Some (mk_frange ENone (Some hp) EAll)
  | None =>
      match e with
      | ENotIn c =>
          match a2h c with
          | Some roots => Some (fr_new roots)
          | None => Some (fr_add_filter (fr_new ENone) e)
          end
      | EAll | EFilter _ | EAsFilter _ => Some (fr_add_filter (fr_new ENone) e)
      | EIntersection e1 e2 =>
          option_map (fun fr => fr_add fr e2) (to_filtered_range e1)
      | _ => None
      end
  end.
Definition to_heads_range (c : expr) : option expr :=
  option_map (fun fr =>
    let hp := opt_or (fr_hp fr) (EVisibleHeadsOrReferenced, PR_FULL) in
    EHeadsRange (fr_roots fr) (fst hp) (snd hp) (fr_filter fr)) (to_filtered_range c).
Definition fold_heads_range_post (e : expr) : option expr :=
  match e with
  | EAncestors h g p =>
      if gen_is_full g && nrange_eqb p PR_FULL
      then option_map (fun h' => EAncestors h' GEN_FULL PR_FULL) (to_heads_range h)
      else None
  | EHeads c => to_heads_range c
  | _ => None
  end.

(** [to_difference_range] / [fold_difference] / [fold_not_in_ancestors] (revset.rs:2427-2500). *)
Definition to_difference_range (e c : expr) : option expr :=
  match e with
  | EAncestors h g p => option_map (fun roots => ERange roots h g p) (a2h c)
  | _ => None
  end.
Definition to_difference (e c : expr) : expr :=
  opt_or (to_difference_range e c) (EDifference e c).
Definition fold_difference_post (e : expr) : option expr :=
  match e with
  | EIntersection e1 e2 =>
      match e2 with
      | EFilter _ | EAsFilter _ => None
      | ENotIn c => Some (to_difference e1 c)
      | _ => match e1 with
             | ENotIn c => Some (to_difference e2 c)
             | _ => None
             end
      end
  | _ => None
  end.
Definition fold_not_in_ancestors_post (e : expr) : option expr :=
  match e with
  | ENotIn c =>
      match c with
      | EAncestors _ _ _ =>
          to_difference_range (EAncestors EVisibleHeadsOrReferenced GEN_FULL PR_FULL) c
      | _ => None
      end
  | _ => None
  end.

(** The passes of [optimize] (revset.rs:2594) after [resolve_referenced_commits], in the
    source's order (the order is also scraped into Gen/Tables.v, see Props/C19.v). *)
Definition passes : list (expr -> option expr) :=
  [ unfold_difference_post; fold_redundant_post; fold_generation_post;
    flatten_intersections_post; sort_negations_post; fold_ancestors_union_post;
    internalize_filter_post; fold_heads_range_post; fold_difference_post;
    fold_not_in_ancestors_post ].
Definition run_passes (ps : list (expr -> option expr)) (e : expr) : expr :=
  fold_left (fun acc post => tr post acc) ps e.
Definition optimize (e : expr) : expr := run_passes passes (rrc e).

(** Expressions without pre-existing scope nodes (what symbol resolution produces when no
    [at_operation()] is involved). *)
Fixpoint no_scope (e : expr) : bool :=
  match e with
  | ENone | EAll | EVisibleHeads | EVisibleHeadsOrReferenced | ERoot | EForks | EFilter _
  | ECommits _ => true
  | EAncestors x _ _ | EDescendants x _ | EHeads x | ERoots x | EForkPoint x | EMergePoint x
  | EBisect x | ELatest x _ | EAsFilter x | EPresent x | ENotIn x => no_scope x
  | ERange a b _ _ | EDagRange a b | EReachable a b | ECoalesce a b | EUnion a b
  | EIntersection a b | EDifference a b => no_scope a && no_scope b
  | EHeadsRange a b _ f => no_scope a && no_scope b && no_scope f
  | EWithinReference _ _ | EWithinVisibility _ _ => false
  end.

(** Decidable forms of the scoping hypotheses of the soundness theorem (Proofs/C19.v
    [wfs], [pre_ok]): [n] is the number of index positions. *)
Definition inclb (a b : list nat) : bool := forallb (fun x => memn x b) a.
Definition has_pos (n : nat) (l : list nat) : bool := existsb (fun v => Nat.ltb v n) l.
Fixpoint wfsb (n : nat) (r : list nat) (e : expr) : bool :=
  match e with
  | ENone | EAll | EVisibleHeads | EVisibleHeadsOrReferenced | ERoot | EForks | EFilter _ => true
  | ECommits l => inclb l r
  | EAncestors x _ _ | EDescendants x _ | EHeads x | ERoots x | EForkPoint x | EMergePoint x
  | EBisect x | ELatest x _ | EAsFilter x | EPresent x | ENotIn x => wfsb n r x
  | ERange a b _ _ | EDagRange a b | EReachable a b | ECoalesce a b | EUnion a b
  | EIntersection a b | EDifference a b => wfsb n r a && wfsb n r b
  | EHeadsRange a b _ f => wfsb n r a && wfsb n r b && wfsb n r f
  | EWithinReference x cs => inclb cs r && wfsb n cs x
  | EWithinVisibility x vh => inclb vh r && has_pos n vh && wfsb n r x
  end.
Fixpoint pre_okb (n : nat) (e : expr) : bool :=
  match e with
  | ENone | EAll | EVisibleHeads | EVisibleHeadsOrReferenced | ERoot | EForks | EFilter _
  | ECommits _ => true
  | EAncestors x _ _ | EDescendants x _ | EHeads x | ERoots x | EForkPoint x | EMergePoint x
  | EBisect x | ELatest x _ | EAsFilter x | EPresent x | ENotIn x => pre_okb n x
  | ERange a b _ _ | EDagRange a b | EReachable a b | ECoalesce a b | EUnion a b
  | EIntersection a b | EDifference a b => pre_okb n a && pre_okb n b
  | EHeadsRange a b _ f => pre_okb n a && pre_okb n b && pre_okb n f
  | EWithinReference x cs => wfsb n cs x
  | EWithinVisibility x vh => has_pos n vh && pre_okb n x
  end.

(** Every commit except the root (position 0) has a parent. *)
Definition rootedb (G : graph) : bool :=
  forallb (fun x => Nat.eqb x 0 || negb (match parents G x with [] => true | _ => false end))
          (seq 0 (length G)).

(* ------------------------------------------------------------------ structural equality *)

Definition lnat_eqb := list_eqb Nat.eqb.
Fixpoint expr_eqb (a b : expr) : bool :=
  match a, b with
  | ENone, ENone | EAll, EAll | EVisibleHeads, EVisibleHeads
  | EVisibleHeadsOrReferenced, EVisibleHeadsOrReferenced | ERoot, ERoot | EForks, EForks => true
  | ECommits l, ECommits l' => lnat_eqb l l'
  | EAncestors h g p, EAncestors h' g' p' =>
      expr_eqb h h' && nrange_eqb g g' && nrange_eqb p p'
  | EDescendants r g, EDescendants r' g' => expr_eqb r r' && nrange_eqb g g'
  | ERange r h g p, ERange r' h' g' p' =>
      expr_eqb r r' && expr_eqb h h' && nrange_eqb g g' && nrange_eqb p p'
  | EDagRange r h, EDagRange r' h' => expr_eqb r r' && expr_eqb h h'
  | EReachable r h, EReachable r' h' => expr_eqb r r' && expr_eqb h h'
  | EHeads c, EHeads c' => expr_eqb c c'
  | EHeadsRange r h p f, EHeadsRange r' h' p' f' =>
      expr_eqb r r' && expr_eqb h h' && nrange_eqb p p' && expr_eqb f f'
  | ERoots c, ERoots c' => expr_eqb c c'
  | EForkPoint c, EForkPoint c' => expr_eqb c c'
  | EMergePoint c, EMergePoint c' => expr_eqb c c'
  | EBisect c, EBisect c' => expr_eqb c c'
  | ELatest c k, ELatest c' k' => expr_eqb c c' && N.eqb k k'
  | EFilter f, EFilter f' => Nat.eqb f f'
  | EAsFilter c, EAsFilter c' => expr_eqb c c'
  | EWithinReference c l, EWithinReference c' l' => expr_eqb c c' && lnat_eqb l l'
  | EWithinVisibility c l, EWithinVisibility c' l' => expr_eqb c c' && lnat_eqb l l'
  | ECoalesce x y, ECoalesce x' y' => expr_eqb x x' && expr_eqb y y'
  | EPresent c, EPresent c' => expr_eqb c c'
  | ENotIn c, ENotIn c' => expr_eqb c c'
  | EUnion x y, EUnion x' y' => expr_eqb x x' && expr_eqb y y'
  | EIntersection x y, EIntersection x' y' => expr_eqb x x' && expr_eqb y y'
  | EDifference x y, EDifference x' y' => expr_eqb x x' && expr_eqb y y'
  | _, _ => false
  end.

(* ------------------------------------------------------------------ the case *)

(** Smart constructors used by the harness (positions are emitted as [N] literals). *)
Definition P (l : list N) : list nat := map N.to_nat l.
Definition eCommits (l : list N) : expr := ECommits (P l).
Definition eFilter (f : N) : expr := EFilter (N.to_nat f).
Definition eWithinReference (c : expr) (l : list N) : expr := EWithinReference c (P l).
Definition eWithinVisibility (c : expr) (l : list N) : expr := EWithinVisibility c (P l).

Record case := mk_case {
  c_graph : list (list N);          (* parents of every index position; position 0 = root *)
  c_ts : list Z;                    (* committer timestamps (ms) per position *)
  c_filters : list (list N);        (* members of each abstract filter predicate *)
  c_vis : list N;                   (* view heads *)
  c_hn : bool;                      (* view.is_heads_normalized() *)
  c_expr : expr;                    (* the expression as built *)
  c_opt : option expr;              (* impl: optimize(expr), read back from the Rust enum *)
  c_res_opt : option (list N);      (* impl: expr.evaluate(repo) listed; None = Err *)
  c_res_unopt : option (list N);    (* impl: expr.evaluate_unoptimized(repo) listed *)
  c_order : list N;                 (* impl: listing of Commits(all ids) (position sanity) *)
}.

Definition case_world (c : case) : world :=
  let g := map P (c_graph c) in
  mk_world g (c_ts c) (map (fun l => bof_list (length g) (P l)) (c_filters c)).
Definition case_ctx (c : case) : vctx := mk_vctx [] (P (c_vis c)) (c_hn c).

Definition olist_eqb (a : option (list nat)) (b : option (list N)) : bool :=
  option_eqb lnat_eqb a (option_map P b).

Fixpoint sorted_desc (l : list nat) : bool :=
  match l with
  | x :: ((y :: _) as t) => Nat.ltb y x && sorted_desc t
  | _ => true
  end.

(** The property on the implementation's outputs: both evaluations succeed with the same
    listing, it is strictly descending (hence duplicate-free), stays inside the index, and
    its members are exactly the denotation of the expression after reference collection
    ([rrc], what [evaluate_unoptimized] evaluates). *)
Definition set_ok (W : world) (s : bset) (l : list nat) : bool :=
  let n := length (w_graph W) in
  sorted_desc l && forallb (fun x => Nat.ltb x n) l
  && forallb (fun x => Bool.eqb (memn x l) (bmem s x)) (seq 0 n).

Definition okb (c : case) : bool :=
  let W := case_world c in
  match c_res_opt c, c_res_unopt c with
  | Some l1, Some l2 =>
      lnat_eqb (P l1) (P l2) && set_ok W (den W (case_ctx c) (rrc (c_expr c))) (P l2)
  | None, None => true
  | _, _ => false
  end.

(** Known-finding class (fold-generation-lower-bound-overflow): optimized and unoptimized
    evaluation disagree on whether the generation-bound error is raised.  [fold_generation]
    adds two lower bounds past [u32::MAX] (optimized fails, unoptimized is empty), or folds
    an out-of-range lower bound away together with an empty outer range (unoptimized fails,
    optimized is empty).  The sets agree (C19_optimize_sound); only the error differs. *)
Definition known_class (c : case) : bool :=
  let W := case_world c in
  xorb (berr W (resolve (case_ctx c) (optimize (c_expr c))))
       (berr W (resolve (case_ctx c) (rrc (c_expr c)))).

Definition check_case (c : case) : N :=
  let W := case_world c in
  let n := length (w_graph W) in
  let x := case_ctx c in
  let o := optimize (c_expr c) in
  (* the hypotheses of C19_optimize_sound hold on this case, and position = creation order *)
  let c1 := wf_graphb (w_graph W) && rootedb (w_graph W)
            && has_pos n (x_vis x) && pre_okb n (c_expr c)
            && lnat_eqb (P (c_order c)) (rev (seq 0 n)) in
  let c2 := match c_opt c with Some o' => expr_eqb o o' | None => false end in
  let c3 := olist_eqb (eval W x o) (c_res_opt c) in
  let c4 := olist_eqb (eval W x (rrc (c_expr c))) (c_res_unopt c) in
  verdict (c1 && c2 && c3 && c4) (okb c) (known_class c)
          (if negb c1 then 1 else if negb c2 then 2 else if negb c3 then 3 else 4).
