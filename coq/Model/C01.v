(** C01 correspondence case: input merge(s) and what the implementation returned.
    Definitions only; the meaning of [okb] is proved in Proofs/C01Checker.v
    (theorem [C01_okb_spec] in Props/C01.v). *)
From Verif Require Import Base.Prelude Model.Merge.

(** * Conflicts nested to any depth.
    [nested n T]: [n] levels of [Merge<...>] around [T]. [flat_deep n] applies
    [Merge::flatten] [n] times (each call merges the two outermost levels).
    [wdeep n v x]: the signed count of [v] in [x], outer adds counting positively and outer
    removes negatively at every level ([wdeep 1 v m = den m v]). *)
Fixpoint nested (n : nat) (T : Type) : Type :=
  match n with O => T | S k => list (nested k T) end.

Fixpoint sden {X} (w : X -> Z) (s : bool) (l : list X) : Z :=
  match l with
  | [] => 0%Z
  | x :: t => ((if s then w x else - w x) + sden w (negb s) t)%Z
  end.

Section Deep.
  Context {T : Type} (eqb : T -> T -> bool).

  Fixpoint flat_deep (n : nat) : nested (S n) T -> list T :=
    match n return nested (S n) T -> list T with
    | O => fun m => m
    | S k => fun mm => flat_deep k (flatten mm)
    end.

  Fixpoint wdeep (n : nat) (v : T) : nested n T -> Z :=
    match n return nested n T -> Z with
    | O => fun x => if eqb x v then 1%Z else 0%Z
    | S k => fun l => sden (wdeep k v) true l
    end.

  (** Every merge at every level has an odd number of terms. *)
  Fixpoint wf_deep (n : nat) : nested n T -> Prop :=
    match n return nested n T -> Prop with
    | O => fun _ => True
    | S k => fun l => Nat.odd (length l) = true /\ Forall (wf_deep k) l
    end.
End Deep.

Record case := mk_case {
  c_m : list N;                 (* Merge<u8> terms *)
  c_simplified : list N;        (* impl: m.simplify() *)
  c_resimplified : list N;      (* impl: m.simplify().simplify() *)
  c_mapping : list N;           (* impl: get_simplified_mapping(), observed by writing pairwise
                                   distinct fresh terms back with update_from_simplified *)
  c_nested : list (list N);     (* Merge<Merge<u8>> *)
  c_flat : list N;              (* impl: nested.flatten() *)
  c_nested3 : list (list (list N)); (* Merge<Merge<Merge<u8>>> *)
  c_flat3 : list N;             (* impl: nested3.flatten().flatten() *)
  c_edit : list N;              (* an edited version of the simplified merge *)
  c_updated : list N;           (* impl: m.update_from_simplified(edit) *)
}.

Definition leqb := list_eqb N.eqb.

(** Positions where [l2] differs from [l1], as (parity, old, new) codes. The write-back
    law says: the multiset of changes between the original and the updated merge equals
    the multiset of changes between the simplified merge and its edited version (the
    mapping is injective, parity preserving and [m[mapping j] = simplified[j]]). *)
Fixpoint changes_s (sgn : bool) (l1 l2 : list N) : list N :=
  match l1, l2 with
  | x :: t1, y :: t2 =>
      if N.eqb x y then changes_s (negb sgn) t1 t2
      else ((if sgn then 0 else 1) + 2 * (x + 65536 * y))%N :: changes_s (negb sgn) t1 t2
  | _, _ => []
  end.
Definition changes := changes_s true.
Definition multiset_eqb (l1 l2 : list N) : bool :=
  forallb (fun x => Z.eqb (count N.eqb x l1) (count N.eqb x l2)) (l1 ++ l2).

Section Checker.
  Context {T : Type} (eqb : T -> T -> bool).

  Fixpoint nodupb (l : list nat) : bool :=
    match l with
    | [] => true
    | x :: t => negb (existsb (Nat.eqb x) t) && nodupb t
    end.

  (** Entry [k] of [mp] (simplified position [j + k]) is an in-range original index of the
      same parity holding the same term. *)
  Fixpoint map_okb_from (m s : list T) (j : nat) (mp : list nat) : bool :=
    match mp with
    | [] => true
    | i :: t =>
        Nat.ltb i (length m) && Bool.eqb (Nat.even i) (Nat.even j)
        && option_eqb eqb (nth_error s j) (nth_error m i)
        && map_okb_from m s (S j) t
    end.

  Definition mapping_okb (m s : list T) (mp : list nat) : bool :=
    Nat.eqb (length mp) (length s) && nodupb mp && map_okb_from m s 0 mp.

  Fixpoint index_of (i : nat) (l : list nat) : option nat :=
    match l with
    | [] => None
    | x :: t => if Nat.eqb x i then Some 0%nat else option_map S (index_of i t)
    end.

  (** [u] is [m] with [e] written to the positions listed in [mp], nothing else touched. *)
  Definition landsb (m : list T) (mp : list nat) (e u : list T) : bool :=
    Nat.eqb (length u) (length m) && Nat.eqb (length e) (length mp)
    && forallb (fun i => option_eqb eqb (nth_error u i)
                           (match index_of i mp with
                            | Some j => nth_error e j
                            | None => nth_error m i
                            end))
         (seq 0 (length m)).

  Definition flat_den_okb (flat : list T) (nested : list (list T)) : bool :=
    forallb (fun v => Z.eqb (den eqb flat v) (den_nested eqb nested v)) (flat ++ concat nested).
  Definition flat3_den_okb (flat : list T) (n3 : list (list (list T))) : bool :=
    forallb (fun v => Z.eqb (den eqb flat v) (wdeep eqb 3 v n3)) (flat ++ concat (concat n3)).
End Checker.

(** Property checker evaluated on the implementation's outputs. *)
Definition okb (c : case) : bool :=
  let mp := map N.to_nat (c_mapping c) in
  den_eqb N.eqb (c_m c) (c_simplified c)
  && Nat.odd (length (c_simplified c))
  && disjointb N.eqb (c_simplified c)
  && leqb (c_resimplified c) (c_simplified c)
  && mapping_okb N.eqb (c_m c) (c_simplified c) mp
  && flat_den_okb N.eqb (c_flat c) (c_nested c)
  && flat3_den_okb N.eqb (c_flat3 c) (c_nested3 c)
  && landsb N.eqb (c_m c) mp (c_edit c) (c_updated c)
  && multiset_eqb (changes (c_m c) (c_updated c)) (changes (c_simplified c) (c_edit c)).

Definition check_case (c : case) : N :=
  let corr :=
    leqb (simplify N.eqb (c_m c)) (c_simplified c)
    && leqb (simplify N.eqb (simplify N.eqb (c_m c))) (c_resimplified c)
    && leqb (map N.of_nat (simplified_mapping N.eqb (c_m c))) (c_mapping c)
    && leqb (flatten (c_nested c)) (c_flat c)
    && leqb (flat_deep 2 (c_nested3 c)) (c_flat3 c)
    && leqb (update_from_simplified N.eqb (c_m c) (c_edit c)) (c_updated c) in
  verdict corr (okb c) false 1.
