(** C01 correspondence case: input merge(s) and what the implementation returned. *)
From Verif Require Import Base.Prelude Model.Merge.

Record case := mk_case {
  c_m : list N;                 (* Merge<u8> terms *)
  c_simplified : list N;        (* impl: m.simplify() *)
  c_nested : list (list N);     (* Merge<Merge<u8>> *)
  c_flat : list N;              (* impl: nested.flatten() *)
  c_edit : list N;              (* an edited version of the simplified merge *)
  c_updated : list N;           (* impl: m.update_from_simplified(edit) *)
}.

Definition leqb := list_eqb N.eqb.

(** Positions where [l2] differs from [l1], as (parity, old, new) codes. The write-back
    law says: the multiset of changes between the original and the updated merge equals
    the multiset of changes between the simplified merge and its edited version (the
    mapping is injective, parity preserving and [m[mapping j] = simplified[j]]). *)
Fixpoint changes_s (sgn : bool) (l1 l2 : list N) : list N :=
  match l1, l2 with
  | x :: t1, y :: t2 =>
      if N.eqb x y then changes_s (negb sgn) t1 t2
      else ((if sgn then 0 else 1) + 2 * (x + 65536 * y))%N :: changes_s (negb sgn) t1 t2
  | _, _ => []
  end.
Definition changes := changes_s true.
Definition multiset_eqb (l1 l2 : list N) : bool :=
  Nat.eqb (length l1) (length l2)
  && forallb (fun x => Z.eqb (count N.eqb x l1) (count N.eqb x l2)) l1.

(** Property checker evaluated on the implementation's outputs (proved equivalent to the
    C01 statements in Proofs/C01.v). *)
Definition okb (c : case) : bool :=
  den_eqb N.eqb (c_m c) (c_simplified c)
  && disjointb N.eqb (c_simplified c)
  && forallb (fun v => Z.eqb (den N.eqb (c_flat c) v) (den_nested N.eqb (c_nested c) v))
       (c_flat c ++ concat (c_nested c))
  && Nat.eqb (length (c_updated c)) (length (c_m c))
  && multiset_eqb (changes (c_m c) (c_updated c)) (changes (c_simplified c) (c_edit c)).

Definition check_case (c : case) : N :=
  let corr :=
    leqb (simplify N.eqb (c_m c)) (c_simplified c)
    && leqb (flatten (c_nested c)) (c_flat c)
    && leqb (update_from_simplified N.eqb (c_m c) (c_edit c)) (c_updated c) in
  verdict corr (okb c) false 1.
