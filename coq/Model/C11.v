(** C11 correspondence case, domain, property checker and known-finding class:
    rewrites leave no orphans and references follow. Definitions only.

    A case is an operation sequence on a fresh repository that ends with
    [...; ORebase o; OCommit]: some transactions build a history, bookmarks and workspaces, the
    last one records rewrites / abandons / divergent rewrites and calls
    rebase_descendants_with_options. The checker looks at the state just before that rebase
    (graph, view, parent_mapping: reconstructed by the model from the operations, and tied to the
    implementation by the correspondence of every earlier commit) and at the implementation's
    final graph and view. *)
From Verif Require Export Base.Prelude Base.DagV Model.Merge Model.RepoV.
From Coq Require Import Arith.

Record case := mk_case {
  k_ops : list op;
  k_outcome : N;            (* impl: 0 all ok, 1 last op returned Err, 2 last op panicked *)
  k_views : list view;      (* impl: view of the repo returned by each Transaction::commit *)
  k_graph : list commit;    (* impl: every commit the driver saw, creation order *)
}.

(** ** Shape: the operations end with [ORebase o; OCommit] (or with [ORebase o] when the rebase
    did not return normally) *)
Definition split_case (ops : list op) : option (list op * rebase_opts) :=
  match rev ops with
  | OCommit :: ORebase o :: before => Some (rev before, o)
  | ORebase o :: before => Some (rev before, o)
  | _ => None
  end.

(** State just before the rebase, by the model. *)
Definition pre_state (before : list op) : res state := run_prefix init_state before (length before).

(** ** The final rewrite records, read off the implementation's output:
    the records present before the rebase, plus [x -> Rewritten n] for every commit [n] the rebase
    created with predecessor [x], plus [x -> Abandoned (parents x)] for every commit the emptiness
    policy abandoned (oracle kind 1). *)
Fixpoint rebased_records (G : graph) (n0 i : nat) (cs : list commit) (pm : list (nat * rewrite))
  : list (nat * rewrite) :=
  match cs with
  | [] => pm
  | c :: t =>
      let pm' := if Nat.leb n0 i
                 then match c_preds c with
                      | [x] => pm_set x (Rewritten i) pm
                      | _ => pm
                      end
                 else pm in
      rebased_records G n0 (S i) t pm'
  end.
Definition final_pm (G : graph) (n0 : nat) (pm0 : list (nat * rewrite)) (oracle : list (nat * N))
  : list (nat * rewrite) :=
  let pm1 := rebased_records G n0 0 G pm0 in
  fold_left (fun pm (p : nat * N) =>
               if N.eqb (snd p) 1 then pm_set (fst p) (Abandoned (c_parents (getc G (fst p)))) pm else pm)
            oracle pm1.

Definition nd_keys (pm : list (nat * rewrite)) : list nat :=
  map fst (filter (fun p => not_divergent (snd p)) pm).

Definition div_keys (pm : list (nat * rewrite)) : list nat :=
  map fst (filter (fun p => is_divergent (snd p)) pm).

(** Full resolution of a key through the final records ([[]] when the records are cyclic). *)
Definition resolve (pm : list (nat * rewrite)) (k : nat) : list nat :=
  match rewritten_ids_with pm (fun _ => true) [k] with Ok l => l | _ => [] end.

(** ** Taint: a commit is tainted when it is a rewritten/abandoned commit, or is not shielded
    ([imm]) and has a tainted parent. [taint_marks] returns the tainted positions. *)
Fixpoint taint_marks (keys imm : list nat) (i : nat) (rest : dag) (marked : list nat) : list nat :=
  match rest with
  | [] => marked
  | ps :: t =>
      let m := if memn i keys || (negb (memn i imm) && existsb (fun p => memn p marked) ps)
               then i :: marked else marked in
      taint_marks keys imm (S i) t m
  end.
Definition tainted (g : dag) (keys imm : list nat) : list nat := taint_marks keys imm 0 g [].

(** ** Domain of the property (conditions on the recorded rewrites, evaluated on the state before
    the rebase):
    - every id is in range, no record for the root, no empty replacement list;
    - every replacement target is visible (CommitBuilder::write makes it a head);
    - the immutable set is closed under ancestors;
    - the dependency relation of order_commits_for_rebase (parents to be rebased, and the
      to-be-rebased commits reached by following the replacements of a parent) is acyclic, i.e. no
      commit is asked to be rebased onto its own descendant. *)
Definition deps_full (G : graph) pm (T : list nat) (x : nat) : list nat := oc_deps G pm T [] x.

Definition dom_ok (s : state) (o : rebase_opts) : bool :=
  let G := s_g s in
  let g := pg G in
  let n := length G in
  let pm := s_pm s in
  let vis := ancs g (v_heads (s_v s)) in
  let T := find_descendants_for_rebase s (o_imm o) in
  forallb (fun p : nat * rewrite =>
             Nat.ltb 0 (fst p) && Nat.ltb (fst p) n
             && negb (match new_parent_ids (snd p) with [] => true | _ => false end)
             && forallb (fun t => Nat.ltb t n && memn t vis) (new_parent_ids (snd p))) pm
  && forallb (fun i => Nat.ltb i n && forallb (fun p => memn p (o_imm o)) (parents g i)) (o_imm o)
  && match topo_order_forward (fun (_ : unit) x => (tt, deps_full G pm T x)) (oc_fuel G pm T) tt (rev T) with
     | Ok _ => true
     | _ => false
     end.

(** ** Everything reachable from [p] through the replacement records (any kind), by a worklist
    with a seen set; [None] if the fuel does not suffice (never for [repl_fuel]). *)
Fixpoint clos (fuel : nat) (pm : list (nat * rewrite)) (stack seen pushed : list nat)
  : option (list nat * list nat) :=
  match fuel with
  | O => None
  | S f =>
      match stack with
      | [] => Some (seen, pushed)
      | id :: rest =>
          if memn id seen then clos f pm rest seen pushed
          else
            let ts := match pm_get pm id with Some r => new_parent_ids r | None => [] end in
            clos f pm (ts ++ rest) (id :: seen) (ts ++ pushed)
      end
  end.
Definition repl_closure (pm : list (nat * rewrite)) (p : nat) : option (list nat) :=
  match clos (repl_fuel pm) pm [p] [] [] with Some (_, pushed) => Some pushed | None => None end.

(** ** Side conditions of the change-id clause: the commits with a record and the immutable commits
    are visible, there is a head, and a change id is at most the position of a commit that carries
    it (change ids are numbered by first occurrence). *)
Definition uniq_dom_ok (s : state) (o : rebase_opts) : bool :=
  let g := pg (s_g s) in
  let vis := ancs g (v_heads (s_v s)) in
  forallb (fun k => memn k vis) (pm_keys (s_pm s))
  && forallb (fun i => memn i vis) (o_imm o)
  && negb (match v_heads (s_v s) with [] => true | _ => false end)
  && forallb (fun i => N.leb (c_change (getc (s_g s) i)) (N.of_nat i)) (seq 0 (length (s_g s))).

(** ** The processing order respects the dependencies (boolean form of [Proofs.C11Loop.valid_from]):
    a parent that is to be rebased, and every to-be-rebased commit reachable from a parent through
    the replacement records, was processed before. Checked per case on the order the model
    computes with the implementation's algorithm. *)
Fixpoint valid_fromb (G0 : graph) (pm0 : list (nat * rewrite)) (T done order : list nat) : bool :=
  match order with
  | [] => true
  | x :: t =>
      memn x T && negb (memn x done)
      && forallb (fun p =>
           (negb (memn p T) || memn p done)
           && match repl_closure pm0 p with
              | Some cl => forallb (fun t' => negb (memn t' T) || memn t' done) cl
              | None => false
              end) (c_parents (getc G0 x))
      && valid_fromb G0 pm0 T (done ++ [x]) t
  end.
Definition order_valid (s : state) (o : rebase_opts) : bool :=
  let T := find_descendants_for_rebase s (o_imm o) in
  match order_commits_for_rebase (s_g s) (s_pm s) T with
  | Ok order => valid_fromb (s_g s) (s_pm s) T [] order && forallb (fun x => memn x order) T
  | _ => false
  end.

(** ** The class of the former finding F5 (repaired in /repo by ad3bc19; kept as a definition for
    the refutation of the old ordering): a commit [x] that is to be rebased has a
    rewritten/abandoned parent [p] whose direct replacement [t] is itself a rewritten/abandoned key
    of parent_mapping, and following [t]'s replacements leads to a commit that is itself still to be
    rebased. The old order_commits_for_rebase looked one replacement level deep only. *)
Definition f5_class_state (s : state) (o : rebase_opts) : bool :=
  let G := s_g s in
  let pm := s_pm s in
  let nd := nd_keys pm in
  let T := find_descendants_for_rebase s (o_imm o) in
  existsb (fun x =>
    existsb (fun p =>
      memn p nd &&
      match pm_get pm p with
      | Some r =>
          existsb (fun t =>
            memn t nd &&
            match new_parents pm [t] with
            | Ok l => existsb (fun q => memn q T) l
            | _ => false
            end) (new_parent_ids r)
      | None => false
      end) (c_parents (getc G x))) T.

(** ** Known-finding class "wc-resolves-to-root": a workspace's working-copy commit has a
    Rewritten (or Divergent) record and the full resolution of that record starts with the root
    commit (its replacement was abandoned onto the root). update_wc_commits then calls
    edit(workspace, root), which fails, and the failure is turned into a panic. *)
Definition known_wc_root_state (s : state) (o : rebase_opts) : bool :=
  match rebase_loop s o with
  | Ok s1 =>
      match resolve_rewrite_mapping (s_pm s1) (fun _ => true) with
      | Ok mapping =>
          existsb (fun w : N * nat =>
            match aget Nat.eqb (snd w) mapping with
            | Some (O :: _) => negb (is_abandoned (pm_get (s_pm s1) (snd w)))
            | _ => false
            end) (v_wcs (s_v s1))
      | _ => false
      end
  | _ => false
  end.

(** ** The property, checked on the implementation's output *)
Definition rewrite_kind (r : option rewrite) : N :=
  match r with Some (Rewritten _) => 1 | Some (Divergent _) => 2 | Some (Abandoned _) => 3 | None => 0 end.

Section Checker.
  Variable s0 : state.           (* state before the rebase (model) *)
  Variable o : rebase_opts.
  Variable G : graph.            (* impl: final graph *)
  Variable v : view.             (* impl: final view *)

  Let n0 := length (s_g s0).
  Let g := pg G.
  Let pmF := final_pm G n0 (s_pm s0) (o_oracle o).
  Let vis := ancs g (v_heads v).

  (** (a) no visible commit is tainted, except the commits that are kept in place on purpose:
      the immutable ones and the ancestors of a commit with a divergent-rewrite record (its
      descendants are left where they are, so it has to stay, and so do its ancestors) *)
  Definition shield : list nat := ancs g (o_imm o ++ div_keys pmF).
  Definition no_orphans_b : bool :=
    let tn := tainted g (nd_keys pmF) shield in
    forallb (fun x => memn x shield || negb (memn x tn)) vis.

  (** (b) every commit created with a predecessor keeps its change id and description; the
      others (re-created working-copy commits) are fresh, empty and undescribed *)
  Definition identity_b : bool :=
    forallb (fun i =>
      let c := getc G i in
      match c_preds c with
      | [x] => Nat.ltb x n0 && N.eqb (c_change c) (c_change (getc G x)) && N.eqb (c_desc c) (c_desc (getc G x))
      | [] => N.eqb (c_change c) (N.of_nat i) && N.eqb (c_desc c) 0 && c_empty c
      | _ => false
      end) (seq n0 (length G - n0)).

  (** (c) bookmarks: an unconflicted bookmark at a rewritten/abandoned commit moves to the full
      resolution of that commit (a conflict of all of them, with the old commit as base, when
      there are several; deleted for an abandoned commit when requested); afterwards no bookmark
      adds a commit that has a rewrite record *)
  Definition expected_target (k : nat) : target :=
    if o_delete_abandoned o && N.eqb (rewrite_kind (pm_get pmF k)) 3 then absent_target
    else intersperse (map Some (resolve pmF k)) (Some k).
  Definition bookmarks_follow_b : bool :=
    forallb (fun b : N * target =>
      match snd b with
      | [Some k] => negb (memn k (pm_keys pmF)) || target_eqb (bm_get v (fst b)) (expected_target k)
      | _ => true
      end) (v_bms (s_v s0))
    && forallb (fun b : N * target =>
         forallb (fun x => negb (memn x (pm_keys pmF))) (added_ids (snd b))) (v_bms v).

  (** (d) working copies: at a rewritten commit -> the first commit of its resolution; at an
      abandoned commit -> a new empty commit on top of its resolution; none stays on a commit
      with a rewrite record *)
  Definition wc_follows_b : bool :=
    forallb (fun w : N * nat =>
      let k := snd w in
      negb (memn k (pm_keys pmF)) ||
      match wc_get v (fst w) with
      | None => false
      | Some c =>
          if N.eqb (rewrite_kind (pm_get pmF k)) 3
          then Nat.leb n0 c && list_nat_eqb (c_parents (getc G c)) (resolve pmF k)
               && list_nat_eqb (c_preds (getc G c)) []
          else match resolve pmF k with r :: _ => Nat.eqb c r | [] => false end
      end) (v_wcs (s_v s0))
    && forallb (fun w : N * nat => negb (memn (snd w) (pm_keys pmF))) (v_wcs v).

  (** (e) change ids: two visible commits that are not kept in place on purpose ([shield]) share a change id only if a divergent rewrite was
      recorded for that change, or two commits of it without rewrite record were already
      visible before *)
  Definition visible_of_change (gr : graph) (vs : list nat) (ch : N) (excl : list nat) : list nat :=
    filter (fun x => N.eqb (c_change (getc gr x)) ch && negb (memn x excl)) (norm_set vs).
  Definition change_ids_unique_b : bool :=
    let vis0 := ancs (pg (s_g s0)) (v_heads (s_v s0)) in
    forallb (fun x =>
      let ch := c_change (getc G x) in
      Nat.leb (length (visible_of_change G vis ch shield)) 1
      || existsb (fun p => is_divergent (snd p) && N.eqb (c_change (getc G (fst p))) ch) pmF
      || Nat.leb 2 (length (visible_of_change (s_g s0) vis0 ch (nd_keys (s_pm s0))))) vis.

  Definition prop_b : bool :=
    wf_dagb g && no_orphans_b && identity_b && bookmarks_follow_b && wc_follows_b && change_ids_unique_b.
  Definition prop_detail : N :=
    if negb (wf_dagb g) then 10 else if negb no_orphans_b then 11 else if negb identity_b then 12
    else if negb bookmarks_follow_b then 13 else if negb wc_follows_b then 14
    else if negb change_ids_unique_b then 15 else 0.
End Checker.

(** okb: the property holds of the implementation's output whenever the case is in the domain
    and the rebase succeeded. *)
Definition empty_view : view := mk_view [] [] [] true.
Definition case_parts (c : case) : option (state * rebase_opts * view) :=
  match split_case (k_ops c) with
  | Some (before, o) =>
      match pre_state before with
      | Ok s0 => Some (s0, o, match rev (k_views c) with v :: _ => v | [] => empty_view end)
      | _ => None
      end
  | None => None
  end.

(** In the domain: the records satisfy [dom_ok] and the rebase did not return an error
    (errors are returned for cyclic records only). *)
Definition in_domain (c : case) : bool :=
  negb (N.eqb (k_outcome c) 1) &&
  match case_parts c with Some (s0, o, _) => dom_ok s0 o | None => false end.

(** The property holds of the implementation's output: in the domain the rebase does not panic
    and its result satisfies [prop_b]. *)
Definition okb (c : case) : bool :=
  negb (in_domain c) ||
  (N.eqb (k_outcome c) 0 &&
   match case_parts c with
   | Some (s0, o, v) => prop_b s0 o (k_graph c) v
   | None => true
   end).

Definition known_wc_root (c : case) : bool :=
  N.eqb (k_outcome c) 2 &&
  match case_parts c with Some (s0, o, _) => known_wc_root_state s0 o | None => false end.

Definition outcome_code {A} (r : res A) : N :=
  match r with Ok _ => 0 | Err => 1 | Panic => 2 | Fuel => 3 end.

Definition check_case (c : case) : N :=
  let '(r, views) := run init_state (k_ops c) [] in
  let corr_views := list_eqb view_obs_eqb views (k_views c) in
  let corr_out := N.eqb (outcome_code r) (k_outcome c) in
  let corr_graph :=
    match r with
    | Ok s => list_eqb commit_eqb (s_g s) (k_graph c)
    | _ => true
    end in
  let ok := okb c in
  let corr_order :=
    negb (in_domain c) ||
    match case_parts c with Some (s0, o, _) => order_valid s0 o | None => true end in
  verdict (corr_views && corr_out && corr_graph && corr_order) ok (negb ok && known_wc_root c)
          (if negb corr_out then 1 else if negb corr_views then 2 else if negb corr_graph then 3
           else if negb corr_order then 5
           else match case_parts c with
                | Some (s0, o, v) => if N.eqb (k_outcome c) 2 then 20 else prop_detail s0 o (k_graph c) v
                | None => 4
                end).
