(** C31 — fileset expressions (lib/src/fileset.rs): pattern kinds, literal-prefix splitting,
    resolution of a parsed expression relative to (cwd, base) through the C32 path model,
    [to_matcher] (grouping into the four leaf matchers + balanced union) on the C30 matcher
    model, and the set semantics [den]. Component names are byte strings; a glob pattern is
    identified by (case_insensitive, normalized pattern text) and its verdicts are the
    oracle [gm] of C30. Definitions only; proofs in Proofs/C31.v. *)
From Verif Require Import Base.Prelude Gen.Tables.
From Verif Require Model.C30 Model.C32.
Local Open Scope N_scope.

Definition name := bytes.
Definition rpath := list name.                 (* a repository path as components *)
Definition pid := (bool * bytes)%type.         (* (case-insensitive?, glob text) *)
Definition neqb : name -> name -> bool := bytes_eqb.
Definition matcher := @C30.matcher name pid.

(** * Pattern kinds ([FilePattern::from_str_kind], fileset.rs:100-135) *)
Inductive kind :=
| KCwd | KCwdFile | KCwdGlob | KCwdGlobI | KCwdPrefixGlob | KCwdPrefixGlobI
| KRoot | KRootFile | KRootGlob | KRootGlobI | KRootPrefixGlob | KRootPrefixGlobI.

(** [FilePattern]; repository paths are internal strings. *)
Inductive fpattern :=
| FilePath (p : bytes)
| PrefixPath (p : bytes)
| FileGlob (dir : bytes) (icase : bool) (pat : bytes)
| PrefixGlob (dir : bytes) (icase : bool) (pat : bytes).

(** [FilesetExpression] *)
Inductive fexpr :=
| ENone
| EAll
| EPattern (p : fpattern)
| EUnionAll (l : list fexpr)
| EIntersection (a b : fexpr)
| EDifference (a b : fexpr).

(** The parsed expression ([fileset_parser::ExpressionKind] after alias expansion; bare
    identifiers and strings are [KCwdPrefixGlob] patterns, fileset.rs:556-565). *)
Inductive ast :=
| ANone                                   (* none() *)
| AAll                                    (* all() *)
| APattern (k : kind) (input : bytes)
| ANegate (a : ast)
| AIntersection (a b : ast)
| ADifference (a b : ast)
| AUnionAll (l : list ast).

(** * Literal directory prefix of a glob ([split_glob_path], fileset.rs:291-325) *)
Definition GLOB_CHARS : list N :=
  filter (fun b => negb (N.eqb b 39 || N.eqb b 44 || N.eqb b 32)) C31_GLOB_CHARS_RAW.
Definition is_glob_char (b : N) : bool := existsb (N.eqb b) GLOB_CHARS.
Definition is_ascii_alphabetic (b : N) : bool :=
  ((65 <=? b) && (b <=? 90)) || ((97 <=? b) && (b <=? 122)).

(** [str::split_inclusive('/')] *)
Fixpoint si_go (acc : bytes) (s : bytes) : list bytes :=
  match s with
  | [] => match acc with [] => [] | _ => [rev acc] end
  | b :: t => if C32.is_slash b then rev (b :: acc) :: si_go [] t else si_go (b :: acc) t
  end.
Definition split_inclusive (s : bytes) : list bytes := si_go [] s.

Definition split_glob_path_by (stop : N -> bool) (input : bytes) : bytes * bytes :=
  let pieces := C30.take_while (fun piece => negb (existsb stop piece)) (split_inclusive input) in
  let prefix_len := fold_left (fun n piece => (n + length piece)%nat) pieces 0%nat in
  (firstn prefix_len input, skipn prefix_len input).
Definition split_glob_path (icase : bool) : bytes -> bytes * bytes :=
  split_glob_path_by (fun c => if icase then is_ascii_alphabetic c || is_glob_char c
                               else is_glob_char c).

(** * Resolution of patterns *)
Definition E_GLOB : N := 5.   (* FilePatternParseError::GlobPattern *)

Definition rbind {A B} (r : C32.res A) (f : A -> C32.res B) : C32.res B :=
  match r with C32.Ok a => f a | C32.Err e => C32.Err e end.

Section Resolve.
  Variable cwd base : bytes.
  (** The glob compiler (globset) rejects these (case_insensitive, text) pairs: an oracle. *)
  Variable bad_glob : pid -> bool.

  (** [file_glob_at] / [prefix_glob_at] (fileset.rs:238-271). *)
  Definition glob_at (prefix_mode : bool) (dir input : bytes) (icase : bool) : C32.res fpattern :=
    if C32.is_nil input then C32.Ok (if prefix_mode then PrefixPath dir else FilePath dir)
    else rbind (C32.from_relative_path input) (fun normalized =>
           if bad_glob (icase, normalized) then C32.Err E_GLOB
           else C32.Ok ((if prefix_mode then PrefixGlob else FileGlob) dir icase normalized)).

  (** [RepoPathUiConverter::Fs::parse_file_path] = [parse_fs_path cwd base]. *)
  Definition cwd_path (input : bytes) : C32.res bytes := C32.parse_fs_path cwd base input.
  Definition root_path (input : bytes) : C32.res bytes := C32.from_relative_path input.

  Definition glob_pattern (cwd_rel prefix_mode icase : bool) (input : bytes) : C32.res fpattern :=
    let (dir, pattern) := split_glob_path icase input in
    rbind ((if cwd_rel then cwd_path else root_path) dir)
          (fun dir => glob_at prefix_mode dir pattern icase).

  Definition resolve_pattern (k : kind) (input : bytes) : C32.res fpattern :=
    match k with
    | KCwd => rbind (cwd_path input) (fun p => C32.Ok (PrefixPath p))
    | KCwdFile => rbind (cwd_path input) (fun p => C32.Ok (FilePath p))
    | KCwdGlob => glob_pattern true false false input
    | KCwdGlobI => glob_pattern true false true input
    | KCwdPrefixGlob => glob_pattern true true false input
    | KCwdPrefixGlobI => glob_pattern true true true input
    | KRoot => rbind (root_path input) (fun p => C32.Ok (PrefixPath p))
    | KRootFile => rbind (root_path input) (fun p => C32.Ok (FilePath p))
    | KRootGlob => glob_pattern false false false input
    | KRootGlobI => glob_pattern false false true input
    | KRootPrefixGlob => glob_pattern false true false input
    | KRootPrefixGlobI => glob_pattern false true true input
    end.

  (** [FilesetExpression::union_all] *)
  Definition union_all_expr (l : list fexpr) : fexpr :=
    match l with
    | [] => ENone
    | [x] => x
    | _ => EUnionAll l
    end.

  (** [nodes.iter().map(resolve).try_collect()]: stops at the first error. *)
  Definition collect_with (f : ast -> C32.res fexpr) : list ast -> C32.res (list fexpr) :=
    fix go (l : list ast) : C32.res (list fexpr) :=
      match l with
      | [] => C32.Ok []
      | x :: t => rbind (f x) (fun ex => rbind (go t) (fun et => C32.Ok (ex :: et)))
      end.

  (** [resolve_expression] (fileset.rs:546-603): the first failing leaf, left to right. *)
  Fixpoint resolve (a : ast) : C32.res fexpr :=
    match a with
    | ANone => C32.Ok ENone
    | AAll => C32.Ok EAll
    | APattern k input => rbind (resolve_pattern k input) (fun p => C32.Ok (EPattern p))
    | ANegate x => rbind (resolve x) (fun e => C32.Ok (EDifference EAll e))
    | AIntersection x y =>
        rbind (resolve x) (fun ex => rbind (resolve y) (fun ey => C32.Ok (EIntersection ex ey)))
    | ADifference x y =>
        rbind (resolve x) (fun ex => rbind (resolve y) (fun ey => C32.Ok (EDifference ex ey)))
    | AUnionAll l => rbind (collect_with resolve l) (fun es => C32.Ok (union_all_expr es))
    end.
End Resolve.

(** * [to_matcher] (fileset.rs:429-513) *)
Definition comps (p : bytes) : rpath := C32.repo_components p.

Inductive item := IPat (p : fpattern) | IMat (m : matcher).

Record acc := mk_acc {
  a_matchers : list matcher;
  a_file_paths : list rpath;
  a_prefix_paths : list rpath;
  a_file_globs : list (rpath * pid);
  a_prefix_globs : list (rpath * pid);
}.
Definition acc0 : acc := mk_acc [] [] [] [] [].

Definition acc_step (a : acc) (it : item) : acc :=
  match it with
  | IMat m => mk_acc (a_matchers a ++ [m]) (a_file_paths a) (a_prefix_paths a)
                     (a_file_globs a) (a_prefix_globs a)
  | IPat (FilePath p) => mk_acc (a_matchers a) (a_file_paths a ++ [comps p]) (a_prefix_paths a)
                                (a_file_globs a) (a_prefix_globs a)
  | IPat (PrefixPath p) => mk_acc (a_matchers a) (a_file_paths a) (a_prefix_paths a ++ [comps p])
                                  (a_file_globs a) (a_prefix_globs a)
  | IPat (FileGlob d ic pat) => mk_acc (a_matchers a) (a_file_paths a) (a_prefix_paths a)
                                       (a_file_globs a ++ [(comps d, (ic, pat))]) (a_prefix_globs a)
  | IPat (PrefixGlob d ic pat) => mk_acc (a_matchers a) (a_file_paths a) (a_prefix_paths a)
                                         (a_file_globs a) (a_prefix_globs a ++ [(comps d, (ic, pat))])
  end.

(** [union_all_matchers]: balanced tree; [fuel] bounds the recursion depth. *)
Fixpoint union_all_matchers (fuel : nat) (ms : list matcher) : matcher :=
  match ms with
  | [] => C30.BNothing
  | [m] => m
  | _ =>
      match fuel with
      | O => C30.BNothing
      | S f =>
          let k := Nat.div (length ms) 2 in
          C30.BUnion (union_all_matchers f (firstn k ms)) (union_all_matchers f (skipn k ms))
      end
  end.

Definition finalize (a : acc) : matcher :=
  let ms :=
    a_matchers a
    ++ (if C30.is_nil (a_file_paths a) then [] else [C30.BFiles (C30.files_tree neqb (a_file_paths a))])
    ++ (if C30.is_nil (a_prefix_paths a) then []
        else [C30.BPrefix (C30.prefix_tree neqb (a_prefix_paths a))])
    ++ (if C30.is_nil (a_file_globs a) then []
        else [C30.BGlobs false (C30.globs_tree neqb (a_file_globs a))])
    ++ (if C30.is_nil (a_prefix_globs a) then []
        else [C30.BGlobs true (C30.globs_tree neqb (a_prefix_globs a))]) in
  union_all_matchers (length ms) ms.

Definition assemble (items : list item) : matcher := finalize (fold_left acc_step items acc0).

(** One element of the list given to [build_union_matcher]; [top e] is
    [build_union_matcher(e.as_union_all())]. *)
Fixpoint item_of (x : fexpr) : item :=
  let top (e : fexpr) : matcher :=
    match e with
    | ENone => assemble []
    | EUnionAll l => assemble (map item_of l)
    | _ => assemble [item_of e]
    end in
  match x with
  | ENone => IMat C30.BNothing
  | EAll => IMat C30.BEverything
  | EPattern p => IPat p
  | EUnionAll l => IMat (assemble (map item_of l))
  | EIntersection a b => IMat (C30.BIntersection (top a) (top b))
  | EDifference a b => IMat (C30.BDifference (top a) (top b))
  end.

Definition to_matcher (e : fexpr) : matcher :=
  match e with
  | ENone => assemble []
  | EUnionAll l => assemble (map item_of l)
  | _ => assemble [item_of e]
  end.

(** * Set semantics *)
Section Den.
  Variable gm : bool -> pid -> rpath -> bool.

  Definition path_eqb : rpath -> rpath -> bool := list_eqb neqb.

  Definition den_glob (prefix_mode : bool) (dir : rpath) (g : pid) (p : rpath) : bool :=
    match C30.strip_prefix neqb dir p with
    | Some tail => negb (C30.is_nil tail) && gm prefix_mode g tail
    | None => false
    end.

  Definition den_pattern (pt : fpattern) (p : rpath) : bool :=
    match pt with
    | FilePath q => path_eqb (comps q) p
    | PrefixPath q => match C30.strip_prefix neqb (comps q) p with Some _ => true | None => false end
    | FileGlob d ic pat => den_glob false (comps d) (ic, pat) p
    | PrefixGlob d ic pat => den_glob true (comps d) (ic, pat) p
    end.

  Fixpoint den (e : fexpr) (p : rpath) : bool :=
    match e with
    | ENone => false
    | EAll => true
    | EPattern pt => den_pattern pt p
    | EUnionAll l => existsb (fun x => den x p) l
    | EIntersection a b => den a p && den b p
    | EDifference a b => den a p && negb (den b p)
    end.
End Den.

(** * Correspondence case *)
Definition pid_eqb (a b : pid) : bool := Bool.eqb (fst a) (fst b) && bytes_eqb (snd a) (snd b).

Definition fpattern_eqb (a b : fpattern) : bool :=
  match a, b with
  | FilePath p, FilePath q | PrefixPath p, PrefixPath q => bytes_eqb p q
  | FileGlob d i p, FileGlob e j q | PrefixGlob d i p, PrefixGlob e j q =>
      bytes_eqb d e && Bool.eqb i j && bytes_eqb p q
  | _, _ => false
  end.

Fixpoint fexpr_eqb (a b : fexpr) : bool :=
  match a, b with
  | ENone, ENone | EAll, EAll => true
  | EPattern p, EPattern q => fpattern_eqb p q
  | EUnionAll l, EUnionAll m =>
      (fix go (l m : list fexpr) : bool :=
         match l, m with
         | [], [] => true
         | x :: l', y :: m' => fexpr_eqb x y && go l' m'
         | _, _ => false
         end) l m
  | EIntersection a1 a2, EIntersection b1 b2 | EDifference a1 a2, EDifference b1 b2 =>
      fexpr_eqb a1 b1 && fexpr_eqb a2 b2
  | _, _ => false
  end.

Definition gm_table (tbl : list (bool * pid * rpath)) (pm : bool) (g : pid) (tail : rpath) : bool :=
  existsb (fun e => Bool.eqb (fst (fst e)) pm && pid_eqb (snd (fst e)) g
                    && list_eqb neqb (snd e) tail) tbl.

Record case := mk_case {
  c_cwd : bytes;
  c_base : bytes;
  c_ast : ast;                                   (* what the printed text denotes *)
  c_bad_globs : list pid;                        (* globs the real glob compiler rejects *)
  c_resolved : option fexpr;                     (* impl: fileset::parse(text), None = error *)
  c_globs : list (bool * pid * rpath);           (* glob oracle: the triples that match *)
  c_matches : list (bytes * bool);               (* impl: to_matcher().matches(path) *)
  c_panicked : bool;
}.

(** Every path inside the resolved expression is a valid repository path with good
    components (no empty, ".", ".." — the C32 guarantee carried through resolution). *)
Definition path_ok (p : bytes) : bool :=
  C32.is_valid_repo_path_str p && forallb C32.good_name (C32.repo_components p).
Definition fpattern_ok (pt : fpattern) : bool :=
  match pt with
  | FilePath p | PrefixPath p => path_ok p
  | FileGlob d _ _ | PrefixGlob d _ _ => path_ok d
  end.
Fixpoint fexpr_ok (e : fexpr) : bool :=
  match e with
  | ENone | EAll => true
  | EPattern pt => fpattern_ok pt
  | EUnionAll l => forallb fexpr_ok l
  | EIntersection a b | EDifference a b => fexpr_ok a && fexpr_ok b
  end.

(** The property on the implementation's answers: the real matcher's verdict at every
    recorded path equals the set semantics of the real resolved expression. *)
Definition okb (c : case) : bool :=
  negb (c_panicked c) &&
  match c_resolved c with
  | None => true
  | Some e =>
      fexpr_ok e
      && forallb (fun pb => Bool.eqb (den (gm_table (c_globs c)) e (comps (fst pb))) (snd pb))
                 (c_matches c)
  end.

Definition check_case (c : case) : N :=
  let bad := fun g => existsb (pid_eqb g) (c_bad_globs c) in
  let gm := gm_table (c_globs c) in
  let corr :=
    negb (c_panicked c) &&
    match resolve (c_cwd c) (c_base c) bad (c_ast c), c_resolved c with
    | C32.Ok e, Some e' =>
        fexpr_eqb e e'
        && forallb (fun pb => Bool.eqb (C30.matches neqb gm (to_matcher e) (comps (fst pb))) (snd pb))
                   (c_matches c)
    | C32.Err _, None => true
    | _, _ => false
    end in
  verdict corr (okb c) false 1.
