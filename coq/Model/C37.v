(** C37 — model of lib/src/bisect.rs (Bisector) over a [DagI.graph].

    Revset evaluation is modelled by its set semantics on index positions (the engine
    itself is C19's subject): [x..y] = ancestors of y minus ancestors of x, [heads] /
    [roots] = maximal / minimal elements, a revset lists its commits by descending index
    position, [bisect()] picks element [len/2] of that list (revset_engine.rs:1053-1063)
    and [latest(1)] of a singleton is that commit. Definitions only. *)
From Verif Require Import Base.Prelude Base.DagI.

Inductive evaluation := Good | Bad | Skip.        (* bisect.rs:49; Abort ends the run, not modelled *)

Inductive result :=                               (* bisect.rs:87 BisectionResult *)
| Found (bad : list nat)
| FoundDespiteSkips (bad possibly_bad : list nat)
| Indeterminate.

Record bstate := mk_bstate {                      (* bisect.rs:76: three HashSets *)
  st_good : list nat;
  st_bad : list nat;
  st_skipped : list nat;
}.

Definition pos_desc (g : graph) : list nat := rev (seq 0 (length g)).
(** a position set listed the way a revset lists it: descending, duplicate-free *)
Definition canon (g : graph) (l : list nat) : list nat := filter (fun x => memn x l) (pos_desc g).

Section Bisector.
  Variable g : graph.
  Variable t : list N.          (* ancsets g *)
  Variable R : list nat.        (* the input range, as a set of positions *)

  (** bisect.rs:122-127: the range's heads are assumed bad. *)
  Definition init_state : bstate := mk_bstate [] (heads_of_t t (canon g R)) [].

  (** bisect.rs:200-210 candidates():
      input_range & (heads(good)..roots(bad)) ~ bad ~ skipped *)
  Definition cand_with (rb hg : list nat) (st : bstate) (x : nat) : bool :=
    memn x R
    && anc_any_t t rb x
    && negb (anc_any_t t hg x)
    && negb (memn x (st_bad st))
    && negb (memn x (st_skipped st)).
  Definition is_candidate (st : bstate) (x : nat) : bool :=
    cand_with (roots_of_t t (st_bad st)) (heads_of_t t (st_good st)) st x.
  (** = filter (is_candidate st) (pos_desc g), with roots(bad) and heads(good) evaluated once *)
  Definition candidates (st : bstate) : list nat :=
    let rb := roots_of_t t (st_bad st) in
    let hg := heads_of_t t (st_good st) in
    filter (cand_with rb hg st) (pos_desc g).

  Definition mark (st : bstate) (x : nat) (e : evaluation) : bstate :=   (* bisect.rs:176 *)
    match e with
    | Good => mk_bstate (x :: st_good st) (st_bad st) (st_skipped st)
    | Bad => mk_bstate (st_good st) (x :: st_bad st) (st_skipped st)
    | Skip => mk_bstate (st_good st) (st_bad st) (x :: st_skipped st)
    end.

  (** bisect.rs:246-255: breadth-first walk from the bad roots through skipped parents; no
      visited set, so a skipped commit is listed once per path. [todo] is the VecDeque,
      [acc] the reversed [possibly_bad]. *)
  Fixpoint possibly_bad_loop (fuel : nat) (skipped : list nat) (todo acc : list nat)
      : option (list nat) :=
    match fuel with
    | O => None
    | S f =>
      match todo with
      | [] => Some (rev acc)
      | c :: rest =>
        let sp := filter (fun p => memn p skipped) (parents g c) in
        possibly_bad_loop f skipped (rest ++ sp) (rev sp ++ acc)
      end
    end.
  (** number of loop iterations a commit causes: itself plus those of its skipped parents *)
  Definition paths_of (skipped : list nat) (tbl : list nat) (ps : list nat) : nat :=
    S (list_sum (map (fun p => if memn p skipped then nth p tbl 0 else 0) ps)).
  Definition paths_tbl (skipped : list nat) : list nat :=
    fold_left (fun tbl ps => tbl ++ [paths_of skipped tbl ps]) g [].
  Definition possibly_bad_fuel (skipped todo : list nat) : nat :=
    S (list_sum (map (fun x => nth x (paths_tbl skipped) 0) todo)).

  (** bisect.rs:235-264: no candidate left. *)
  Definition finish (st : bstate) : option result :=
    let bad_roots := canon g (roots_of_t t (st_bad st)) in
    match bad_roots with
    | [] => Some Indeterminate
    | _ =>
      match possibly_bad_loop (possibly_bad_fuel (st_skipped st) bad_roots)
                              (st_skipped st) bad_roots [] with
      | None => None
      | Some [] => Some (Found bad_roots)
      | Some pb => Some (FoundDespiteSkips bad_roots pb)
      end
    end.

  (** bisect.rs:221-234 next_step: the middle element of the descending candidate list. *)
  Definition next_commit (st : bstate) : option nat :=
    match candidates st with
    | [] => None
    | l => Some (nth (length l / 2) l 0)
    end.

  (** A whole bisection against an evaluation function; returns the evaluated commits in
      order and the final result. *)
  Fixpoint run (fuel : nat) (oracle : nat -> evaluation) (st : bstate) (trace : list nat)
      : option (list nat * result) :=
    match fuel with
    | O => None
    | S f =>
      match next_commit st with
      | Some x => run f oracle (mark st x (oracle x)) (x :: trace)
      | None => match finish st with
                | Some r => Some (rev trace, r)
                | None => None
                end
      end
    end.
  Definition run_fuel : nat := S (length g).
  Definition bisect (oracle : nat -> evaluation) : option (list nat * result) :=
    run run_fuel oracle init_state [].
End Bisector.

(** The evaluation function of a case: skipped set first, then the true bad set. *)
Definition oracle_of (bad skip : list nat) (x : nat) : evaluation :=
  if memn x skip then Skip else if memn x bad then Bad else Good.

(** ** checker on the implementation's trace and result *)
Section Checker.
  Variable g : graph.
  Variable t : list N.
  Variable R : list nat.
  Variables bad skip : list nat.

  Definition Rc := canon g R.
  Definition bad_in_R : list nat := filter (fun x => memn x bad) Rc.
  (** the first bad commits: minimal elements of the bad part of the range *)
  Definition first_bad : list nat := roots_of_t t bad_in_R.

  (** hypotheses of the property: outcome consistent with history, range heads bad *)
  Definition monotone_b : bool :=
    forallb (fun x => forallb (fun y => negb (ancb_t t x y) || memn y bad) Rc) bad_in_R.
  Definition heads_bad_b : bool := forallb (fun h => memn h bad) (heads_of_t t Rc).
  Definition precond_b : bool := monotone_b && heads_bad_b.

  Fixpoint nodup_b (l : list nat) : bool :=
    match l with [] => true | x :: r => negb (memn x r) && nodup_b r end.

  Definition reported (r : result) : list nat :=
    match r with Found b => b | FoundDespiteSkips b _ => b | Indeterminate => [] end.
  Definition possibly (r : result) : list nat :=
    match r with FoundDespiteSkips _ p => p | _ => [] end.

  (** no commit is asked twice, only commits of the range are asked, never a range head *)
  Definition trace_ok (trace : list nat) : bool :=
    nodup_b trace && forallb (fun x => memn x R && negb (memn x (heads_of_t t Rc))) trace.
  (** every reported commit is bad, lies in the range, and each of its parents inside the
      range is good — or was skipped and is then listed as possibly bad *)
  Definition sound_b (r : result) : bool :=
    forallb (fun x => memn x bad && memn x R &&
               forallb (fun p => negb (memn p R) || negb (memn p bad) ||
                                 (memn p skip && memn p (possibly r))) (parents g x))
            (reported r).
  (** without skips: exactly the first bad commits, descending *)
  Definition exact_b (r : result) : bool :=
    match r with
    | Found b => list_eqb Nat.eqb b first_bad
    | FoundDespiteSkips _ _ => false
    | Indeterminate => match Rc with [] => true | _ => false end
    end.
  (** [R] is a chain: every element's only parent inside the chain is its predecessor *)
  Fixpoint chain_b (l : list nat) : bool :=     (* l descending *)
    match l with
    | x :: ((y :: _) as r) => list_eqb Nat.eqb (parents g x) [y] && chain_b r
    | _ => true
    end.
  Definition log2_ok (trace : list nat) : bool :=
    negb (chain_b Rc) || (length trace <=? Nat.log2_up (S (length Rc)))%nat.

  Definition run_ok (trace : list nat) (r : result) : bool :=
    trace_ok trace &&
    (negb precond_b ||
     (sound_b r && match skip with
                   | [] => exact_b r && log2_ok trace
                   | _ => true
                   end)).
  (** known finding F3: two or more independent first bad commits *)
  Definition multi_culprit : bool := (2 <=? length first_bad)%nat.
  (** a failing run inside the known class: everything holds except completeness — the
      result is a non-empty [Found] list of genuine first bad commits, but not all of them *)
  Definition first_only_b (r : result) : bool :=
    match r with
    | Found (x :: l) => forallb (fun y => memn y first_bad) (x :: l)
    | _ => false
    end.
  Definition run_known (trace : list nat) (r : result) : bool :=
    multi_culprit && trace_ok trace && precond_b && sound_b r && first_only_b r &&
    match skip with [] => negb (exact_b r) && log2_ok trace | _ => false end.
End Checker.

(** ** correspondence case *)
Record brun := mk_run {
  r_bad : list nat;          (* truth: the bad commits (positions) *)
  r_skip : list nat;         (* commits whose evaluation is Skip *)
  r_trace : list nat;        (* impl: commits handed out by next_step, in order *)
  r_result : result;         (* impl: the final BisectionResult (possibly_bad canonicalised) *)
}.
Record case := mk_case {
  c_graph : graph;
  c_range : list nat;        (* positions of the input range *)
  c_runs : list brun;
  c_panicked : bool;
}.

Definition lnat_eqb := list_eqb Nat.eqb.
Definition result_eqb (g : graph) (a b : result) : bool :=
  match a, b with
  | Found x, Found y => lnat_eqb x y
  | FoundDespiteSkips x p, FoundDespiteSkips y q => lnat_eqb x y && lnat_eqb (canon g p) (canon g q)
  | Indeterminate, Indeterminate => true
  | _, _ => false
  end.

Definition run_corr (g : graph) (t : list N) (R : list nat) (r : brun) : bool :=
  match bisect g t R (oracle_of (r_bad r) (r_skip r)) with
  | Some (tr, res) => lnat_eqb tr (r_trace r) && result_eqb g res (r_result r)
  | None => false
  end.

Definition known_F3 (c : case) : bool :=
  let t := ancsets (c_graph c) in
  existsb (fun r => multi_culprit (c_graph c) t (c_range c) (r_bad r)) (c_runs c).

Definition okb (c : case) : bool :=
  let g := c_graph c in let t := ancsets g in
  negb (c_panicked c) && wfb g &&
  forallb (fun r => run_ok g t (c_range c) (r_bad r) (r_skip r) (r_trace r) (r_result r)) (c_runs c).

Definition check_case (c : case) : N :=
  let g := c_graph c in let t := ancsets g in
  let corr := negb (c_panicked c) && forallb (run_corr g t (c_range c)) (c_runs c) in
  let ok := okb c in
  (* demoted to the known finding only if every failing run is a sound, in-class miss *)
  let known := corr && negb ok && wfb g &&
    forallb (fun r => run_ok g t (c_range c) (r_bad r) (r_skip r) (r_trace r) (r_result r)
                   || run_known g t (c_range c) (r_bad r) (r_skip r) (r_trace r) (r_result r))
            (c_runs c) in
  verdict corr ok known 1.
