(** C24 correspondence case and checker (Base/C24Chk.v) instantiated with the
    RESERVED_DIR_NAMES scraped from lib/src/local_working_copy.rs (Base/WcNames.v). *)
From Verif Require Export Base.Prelude Base.FsC Base.WcC Base.C24Chk Base.WcNames.

Definition okb : case -> bool := C24Chk.okb.
Definition check_case : case -> N := check_case_rn reserved_names.

Global Open Scope string_scope.
