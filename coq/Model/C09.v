(** C09: squash / absorb / split followed by the rebase of descendants, as the sequence of
    commits the implementation writes. Each written commit is one row: which commit it
    rewrites, how its tree is obtained, its parents. The model recomputes every tree; the
    checker demands that the top commit and its descendants keep their trees.

    How trees are obtained (lib/src/rewrite.rs, lib/src/absorb.rs, cli/src/commands/split.rs):
    - KRebase: CommitRewriter::rebase (rewrite.rs:361-444), used by rebase_descendants and
      transform_descendants for every descendant;
    - KKeep: CommitRewriter::reparent (rewrite.rs:446-452): absorb's source (absorb.rs:308-320),
      split's second commit (split.rs:335-366, non-parallel: the original tree);
    - KGiven t: the tree is supplied by the caller: split's first commit (the selected tree);
    - KMerge base terms: MergedTree::merge of [base; terms...]: squash's rewritten source
      [S; X; P] (rewrite.rs:1414-1419), squash's destination [D; P1; X1; ...]
      (rewrite.rs:1457-1464), absorb's destinations [rebased D; P; X] (absorb.rs:333-347),
      split --parallel's second commit [T; X; P]. [base = None]: the commit's own tree after
      rebasing it onto the new parents; [Some r]: the tree of commit [r]. *)
From Verif Require Import Base.Prelude Model.Merge.
From Verif Require Export Model.TreeMerge Model.TreeCase Model.Rebase.

Inductive rkind : Type :=
| KRebase
| KKeep
| KGiven (t : list N)
| KMerge (base : option N) (terms : list (list N)).

Record row := mk_row {
  r_origin : N;            (* the commit this one rewrites (original or an earlier row) *)
  r_kind : rkind;
  r_parents : list N;      (* parents of the new commit *)
  r_tree : option (list N) (* impl: tree ids of the new commit; None = failed *)
}.

Record case := mk_case {
  c_accept : bool;
  c_tab : list ctree;
  c_commits : list (list N * list N);  (* originals by index position: (parents, tree); 0 = root *)
  c_oracle : list (list N * option N);
  c_rows : list row;                    (* new commits in index order; row j is commit (#originals + j) *)
  c_keep : list (N * N);                (* (original commit, its final version): trees must be identical *)
  c_keep_side : list (N * N);           (* the same for merge descendants one of whose OTHER parents (outside the
                                           source's line) was rewritten to a different tree *)
  c_what : N                            (* 0 squash, 1 absorb, 2 split, 3 squash of a selection out of a conflicted source *)
}.

(** The commit table the rows see: originals, then the rows written so far with the trees
    the implementation gave them. *)
Definition nats (l : list N) : list nat := map N.to_nat l.
Definition ext_table (c : case) (k : nat) : list (list nat * list tree) :=
  map (fun e => (nats (fst e), map (dec (c_tab c)) (snd e))) (c_commits c)
  ++ map (fun r => (nats (r_parents r),
                    match r_tree r with Some t => map (dec (c_tab c)) t | None => [] end))
         (firstn k (c_rows c)).
Definition tab_tree (t : list (list nat * list tree)) (i : nat) : list tree := snd (nth i t ([], [])).
Definition tab_parents (t : list (list nat * list tree)) (i : nat) : list nat := fst (nth i t ([], [])).

Section Eval.
  Context (accept : bool) (content_merge : list N -> option N).
  Context (tab : list ctree) (t : list (list nat * list tree)).

  Definition rebased_tree (origin : nat) (new_parents : list nat) : option (list tree) :=
    rebase accept content_merge (graph_common_ancestors (map fst t)) (tab_tree t) 0%nat
           (S (length t)) (tab_parents t origin) new_parents (tab_tree t origin).

  (** The tree the model gives to a row. *)
  Definition row_tree (origin : nat) (kind : rkind) (new_parents : list nat) : option (list tree) :=
    match kind with
    | KRebase => rebased_tree origin new_parents
    | KKeep => Some (tab_tree t origin)
    | KGiven g => Some (map (dec tab) g)
    | KMerge base terms =>
        let b := match base with
                 | Some r => Some (tab_tree t (N.to_nat r))
                 | None => rebased_tree origin new_parents
                 end in
        match b with
        | Some bt => Some (merged_tree_merge accept content_merge (bt :: map (map (dec tab)) terms))
        | None => None
        end
    end.
End Eval.

Definition row_ok (c : case) (k : nat) (r : row) : bool :=
  let t := ext_table c k in
  match row_tree (c_accept c) (oracle_of (c_oracle c)) (c_tab c) t
                 (N.to_nat (r_origin r)) (r_kind r) (nats (r_parents r)), r_tree r with
  | Some m, Some i => trees_eqb m (map (dec (c_tab c)) i)
  | _, _ => false
  end.

Fixpoint rows_ok (c : case) (k : nat) (rows : list row) : bool :=
  match rows with
  | [] => true
  | r :: rest => row_ok c k r && rows_ok c (S k) rest
  end.

(** The property on the implementation's outputs: every kept commit has, in its final
    version, exactly the tree it had. The statement speaks of squashing a whole commit, of
    absorb and of split; for a partial selection squashed out of a conflicted source
    ([c_what = 3]) the kept-trees clause does not apply (the correspondence is still
    compared): there the same conflict can come back with its sides in another order
    (observation lemma C09_conflict_sides_reordered). *)
Definition kept_ok (t : list (list nat * list tree)) (p : N * N) : bool :=
  trees_eqb (tab_tree t (N.to_nat (snd p))) (tab_tree t (N.to_nat (fst p))).
Definition out_of_statement (c : case) : bool := N.eqb (c_what c) 3.
Definition okb (c : case) : bool :=
  let t := ext_table c (length (c_rows c)) in
  forallb (fun r => match r_tree r with Some _ => true | None => false end) (c_rows c)
  && (out_of_statement c || forallb (kept_ok t) (c_keep c) && forallb (kept_ok t) (c_keep_side c)).

(** Known-finding class "merge descendant with a rewritten side parent": the only kept
    commits whose tree changed are merge descendants of the source with another parent,
    outside the source's line, that was itself rewritten to a different tree (a side branch
    below a commit that received changes); every other kept commit has its tree. *)
Definition known_class (c : case) : bool :=
  let t := ext_table c (length (c_rows c)) in
  forallb (fun r => match r_tree r with Some _ => true | None => false end) (c_rows c)
  && negb (out_of_statement c)
  && forallb (kept_ok t) (c_keep c)
  && negb (forallb (kept_ok t) (c_keep_side c)).

(** The whole commit table (originals and new commits) has parents at smaller positions. *)
Definition in_domain (c : case) : bool :=
  wf_parentsb (map fst (ext_table c (length (c_rows c)))).

Fixpoint first_bad_row (c : case) (k : nat) (rows : list row) : N :=
  match rows with
  | [] => 0
  | r :: rest => if row_ok c k r then first_bad_row c (S k) rest else N.of_nat (S k)
  end.

(** detail: 1 + the index of the first row whose tree the model computes differently;
    99 when the commit table is not in the theorems' domain (a parent at a larger position);
    100 when only the property checker objects. *)
Definition check_case (c : case) : N :=
  let bad := first_bad_row c 0 (c_rows c) in
  verdict (N.eqb bad 0 && in_domain c) (okb c) (known_class c)
          (if negb (in_domain c) then 99 else if N.eqb bad 0 then 100 else bad).
