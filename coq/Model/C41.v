(** C41 — model of `jj undo` (cli/src/commands/undo.rs:47-176), `jj redo`
    (redo.rs:33-172), `jj op restore` (operation/restore.rs:48-71), `jj op revert`
    (operation/revert.rs:52-89) and [view_with_desired_portions_restored]
    (operation/mod.rs:86-117).  Definitions only.

    Operation ids are positions in the operation log (creation order); in descriptions an
    id is written [idstr n] where the real code writes 128 hex digits.  The description
    prefixes come from Gen/Tables.v (scraped from the sources).  A view is the seven
    fields of [op_store::View], each in a canonical encoding built by the harness. *)
From Verif Require Import Base.Prelude Model.Merge Gen.Tables.

(** ** Views *)
Definition target := list N.            (* a RefTarget as its term list; [] = absent *)

Record view := mk_view {
  v_heads : list N;                     (* head_ids, sorted *)
  v_bookmarks : list (N * target);      (* local_bookmarks, by name *)
  v_tags : list (N * target);           (* local_tags, by name *)
  v_wc : list (N * N);                  (* wc_commit_ids, by workspace *)
  v_remotes : list N;                   (* remote_views, opaque canonical encoding *)
  v_git_refs : list N;                  (* git_refs, opaque *)
  v_git_heads : list N;                 (* git_heads, opaque *)
}.

Definition listN_eqb : list N -> list N -> bool := list_eqb N.eqb.
Definition refs_eqb : list (N * target) -> list (N * target) -> bool :=
  list_eqb (pair_eqb N.eqb listN_eqb).
Definition wc_eqb : list (N * N) -> list (N * N) -> bool := list_eqb (pair_eqb N.eqb N.eqb).

(** The portions `undo`/`restore` are about (everything but the Git-tracking fields). *)
Definition veq5 (a b : view) : bool :=
  listN_eqb (v_heads a) (v_heads b) && refs_eqb (v_bookmarks a) (v_bookmarks b)
  && refs_eqb (v_tags a) (v_tags b) && wc_eqb (v_wc a) (v_wc b)
  && listN_eqb (v_remotes a) (v_remotes b).

Definition view_eqb (a b : view) : bool :=
  veq5 a b && listN_eqb (v_git_refs a) (v_git_refs b) && listN_eqb (v_git_heads a) (v_git_heads b).

(** operation/mod.rs:86-117 *)
Definition restore (restored cur : view) (what_repo what_remote : bool) : view :=
  let repo_source := if what_repo then restored else cur in
  let remote_source := if what_remote then restored else cur in
  mk_view (v_heads repo_source) (v_bookmarks repo_source) (v_tags repo_source)
          (v_wc repo_source) (v_remotes remote_source) (v_git_refs cur) (v_git_heads cur).

(** ** Descriptions *)
Fixpoint strip_prefix (p s : string) : option string :=
  match p with
  | EmptyString => Some s
  | String a p' =>
      match s with
      | String b s' => if Ascii.eqb a b then strip_prefix p' s' else None
      | EmptyString => None
      end
  end.

Fixpoint pos_str (p : positive) : string :=
  match p with
  | xH => EmptyString
  | xO q => String "0" (pos_str q)
  | xI q => String "1" (pos_str q)
  end.

(** How an operation id is written inside a description (the harness writes the same). *)
Definition idstr (n : N) : string :=
  match n with
  | N0 => "z"
  | Npos p => String "p" (pos_str p)
  end.

Fixpoint parse_pos (s : string) : option positive :=
  match s with
  | EmptyString => Some xH
  | String c r =>
      match parse_pos r with
      | Some q => if Ascii.eqb c "0" then Some (xO q)
                  else if Ascii.eqb c "1" then Some (xI q) else None
      | None => None
      end
  end.

(** [OperationId::try_from_hex] on the abstracted id. *)
Definition parse_id (s : string) : option N :=
  match s with
  | String c r =>
      if Ascii.eqb c "z" then (match r with EmptyString => Some N0 | _ => None end)
      else if Ascii.eqb c "p" then option_map Npos (parse_pos r) else None
  | EmptyString => None
  end.

(** ** The operation log *)
Record op := mk_op {
  o_parents : list N;
  o_desc : string;
  o_view : view;
}.

Definition get (log : list op) (i : N) : option op := nth_error log (N.to_nat i).

(** Components the model does not determine are [None]. *)
Record pview := mk_pview {
  p_heads : option (list N);
  p_bookmarks : option (list (N * target));
  p_tags : option (list (N * target));
  p_wc : option (list (N * N));
  p_remotes : option (list N);
  p_git_refs : option (list N);
  p_git_heads : option (list N);
}.

Definition total (v : view) : pview :=
  mk_pview (Some (v_heads v)) (Some (v_bookmarks v)) (Some (v_tags v)) (Some (v_wc v))
           (Some (v_remotes v)) (Some (v_git_refs v)) (Some (v_git_heads v)).

Inductive res :=
| RNew (parents : list N) (desc : string) (v : pview) (exact : bool)
    (* a new operation; [exact]: no operation is written iff the view is unchanged *)
| RErr (e : N).   (* 1 root operation, 2 merge operation, 3 nothing to redo, 4 bad id *)

(** The id a stack operation points at, if the description has the given prefix. *)
Definition stack_target (prefix : string) (log : list op) (o : op) : option (option (N * op)) :=
  match strip_prefix prefix (o_desc o) with
  | None => None
  | Some rest =>
      Some (match parse_id rest with
            | Some t => match get log t with Some x => Some (t, x) | None => None end
            | None => None
            end)
  end.

(** undo.rs:47-176.  [hid]/[h] = the current operation. *)
Definition cmd_undo (log : list op) (hid : N) (h : op) : res :=
  let target := match stack_target UNDO_OP_DESC_PREFIX log h with
                | None => Some h
                | Some r => option_map snd r
                end in
  match target with
  | None => RErr 4
  | Some target =>
      match o_parents target with
      | [] => RErr 1
      | [p] =>
          match get log p with
          | None => RErr 4
          | Some pop =>
              let tp := match stack_target UNDO_OP_DESC_PREFIX log pop with
                        | None => Some (p, pop)
                        | Some r => r
                        end in
              match tp with
              | None => RErr 4
              | Some (pid, pop) =>
                  RNew [hid] (UNDO_OP_DESC_PREFIX ++ idstr pid)%string
                       (total (restore (o_view pop) (o_view h) true true)) true
              end
          end
      | _ => RErr 2
      end
  end.

(** redo.rs:33-172 *)
Definition cmd_redo (log : list op) (hid : N) (h : op) : res :=
  let target := match stack_target REDO_OP_DESC_PREFIX log h with
                | None => Some h
                | Some r => option_map snd r
                end in
  match target with
  | None => RErr 4
  | Some target =>
      match strip_prefix UNDO_OP_DESC_PREFIX (o_desc target) with
      | None => RErr 3
      | Some _ =>
          match o_parents target with
          | [p] =>
              match get log p with
              | None => RErr 4
              | Some pop =>
                  let tp := match stack_target REDO_OP_DESC_PREFIX log pop with
                            | None => Some (p, pop)
                            | Some r => r
                            end in
                  match tp with
                  | None => RErr 4
                  | Some (pid, pop) =>
                      RNew [hid] (REDO_OP_DESC_PREFIX ++ idstr pid)%string
                           (total (restore (o_view pop) (o_view h) true true)) true
                  end
              end
          | _ => RErr 4
          end
      end
  end.

(** operation/restore.rs:48-71 *)
Definition cmd_restore (log : list op) (hid : N) (h : op) (t : N) (wr wm : bool) : res :=
  match get log t with
  | None => RErr 4
  | Some top =>
      RNew [hid] (RESTORE_OP_DESC_PREFIX ++ idstr t)%string
           (total (restore (o_view top) (o_view h) wr wm)) true
  end.

(** Three-way merge of one value: determined only when a side is unchanged or both sides
    agree.  (The real [MutableRepo::merge] also resolves bookmark moves along ancestry and
    rewrites heads through rewritten commits; those cases are left undetermined here.) *)
Definition merge3 {A} (eqb : A -> A -> bool) (self base other : A) : option A :=
  if eqb self base then Some other
  else if eqb other base then Some self
  else if eqb self other then Some self
  else None.

Fixpoint lookup_ref {V} (l : list (N * V)) (k : N) : option V :=
  match l with
  | [] => None
  | (k', v) :: t => if N.eqb k' k then Some v else lookup_ref t k
  end.

Fixpoint union_keys (a b : list N) : list N :=
  match a, b with
  | [], _ => b
  | _, [] => a
  | x :: a', _ =>
      if existsb (N.eqb x) b then union_keys a' b else x :: union_keys a' b
  end.

Fixpoint insert_sorted {V} (k : N) (v : V) (l : list (N * V)) : list (N * V) :=
  match l with
  | [] => [(k, v)]
  | (k', v') :: t => if N.leb k k' then (k, v) :: l else (k', v') :: insert_sorted k v t
  end.

Definition target_of (o : option target) : target := match o with Some t => t | None => [] end.

(** Per-name merge of a ref map (absent = []). [None] as soon as one name is undetermined. *)
Definition merge_refs (self base other : list (N * target)) : option (list (N * target)) :=
  let names := union_keys (map fst self) (union_keys (map fst base) (map fst other)) in
  fold_right
    (fun name acc =>
       match acc with
       | None => None
       | Some m =>
           match merge3 listN_eqb (target_of (lookup_ref self name))
                        (target_of (lookup_ref base name)) (target_of (lookup_ref other name)) with
           | None => None
           | Some [] => Some m
           | Some t => Some (insert_sorted name t m)
           end
       end)
    (Some []) names.

(** lib/src/repo.rs [merge_wc_commit] (1586-1611), exactly. *)
Definition merge_wc1 (self base other : option N) : option N :=
  match trivial_merge (option_eqb N.eqb) true [self; base; other] with
  | Some r => r
  | None => match self, other with
            | None, _ | _, None => None
            | _, _ => self
            end
  end.

Definition merge_wc (self base other : list (N * N)) : list (N * N) :=
  let names := union_keys (map fst self) (union_keys (map fst base) (map fst other)) in
  fold_right
    (fun name m =>
       (* only names whose base and other differ are visited; for the others self is kept *)
       let s := lookup_ref self name in
       let b := lookup_ref base name in
       let o := lookup_ref other name in
       let r := if option_eqb N.eqb b o then s else merge_wc1 s b o in
       match r with Some c => insert_sorted name c m | None => m end)
    [] names.

(** operation/revert.rs:52-89: merge(base = target, other = target's parent) into the
    current view, then keep the requested portions. *)
Definition cmd_revert (log : list op) (hid : N) (h : op) (t : N) (wr wm : bool) : res :=
  match get log t with
  | None => RErr 4
  | Some top =>
      match o_parents top with
      | [] => RErr 1
      | [p] =>
          match get log p with
          | None => RErr 4
          | Some pop =>
              let cur := o_view h in
              let b := o_view top in
              let o := o_view pop in
              (* The merge records every commit that is in the target's view but not in
                 its parent's as rewritten/abandoned; [tx.finish] then rebases descendants
                 and moves heads, bookmarks and working copies off such commits whatever
                 --what says (it does the same for commits of the target's view that the
                 CURRENT view no longer has).  The repo portions are therefore determined here
                 only when no commit disappears (target, its parent and the current view have
                 equal head sets) or when the reverted operation is the current one (then each
                 merge yields the parent's value). *)
              let known_repo := (listN_eqb (v_heads b) (v_heads o) && listN_eqb (v_heads b) (v_heads cur))
                                || (wr && veq5 cur b) in
              let pick {A} (known use_merged : bool) (merged : option A) (c : A) : option A :=
                  if known then (if use_merged then merged else Some c) else None in
              RNew [hid] (REVERT_OP_DESC_PREFIX ++ idstr t)%string
                   (mk_pview
                      (pick known_repo wr (merge3 listN_eqb (v_heads cur) (v_heads b) (v_heads o)) (v_heads cur))
                      (pick known_repo wr (merge_refs (v_bookmarks cur) (v_bookmarks b) (v_bookmarks o)) (v_bookmarks cur))
                      (pick known_repo wr (merge_refs (v_tags cur) (v_tags b) (v_tags o)) (v_tags cur))
                      (pick known_repo wr (Some (merge_wc (v_wc cur) (v_wc b) (v_wc o))) (v_wc cur))
                      (pick true wm (merge3 listN_eqb (v_remotes cur) (v_remotes b) (v_remotes o)) (v_remotes cur))
                      (Some (v_git_refs cur)) (Some (v_git_heads cur)))
                   false  (* the merge may record rewrites: an operation is written even
                             when the view ends up unchanged (MutableRepo::has_changes) *)
          end
      | _ => RErr 2
      end
  end.

(** ** Commands and observed outcomes *)
Inductive cmd :=
| CNormal (ops : list op)          (* operations written by commands outside this model *)
| CUndo
| CRedo
| CRestore (t : N) (what_repo what_remote : bool)
| CRevert (t : N) (what_repo what_remote : bool).

Inductive outcome :=
| ONew (o : op) (wc_became_immutable : bool)   (* one new operation *)
| ONothing                                     (* "Nothing changed." *)
| OErr (e : N).

Definition opt_match {A} (eqb : A -> A -> bool) (m : option A) (x : A) : bool :=
  match m with Some y => eqb y x | None => true end.

Definition pview_match (p : pview) (v : view) : bool :=
  opt_match listN_eqb (p_heads p) (v_heads v)
  && opt_match refs_eqb (p_bookmarks p) (v_bookmarks v)
  && opt_match refs_eqb (p_tags p) (v_tags v)
  && opt_match wc_eqb (p_wc p) (v_wc v)
  && opt_match listN_eqb (p_remotes p) (v_remotes v)
  && opt_match listN_eqb (p_git_refs p) (v_git_refs v)
  && opt_match listN_eqb (p_git_heads p) (v_git_heads v).

Definition is_total (p : pview) : bool :=
  match p with
  | mk_pview (Some _) (Some _) (Some _) (Some _) (Some _) (Some _) (Some _) => true
  | _ => false
  end.

(** cli_util.rs finish_transaction (2345-2371): a restored working-copy commit that is
    immutable gets a new commit on top — only [heads] and [wc] may then differ. *)
Definition relax_immutable (p : pview) : pview :=
  mk_pview None (p_bookmarks p) (p_tags p) None (p_remotes p) (p_git_refs p) (p_git_heads p).

(** Does the observed outcome agree with the model's result?  [tx.finish] writes no
    operation when the new view equals the current one (cli_util.rs:2825). *)
Definition outcome_match (cur : view) (r : res) (o : outcome) : bool :=
  match r, o with
  | RErr e, OErr e' => N.eqb e e'
  | RNew ps d p exact, ONew x imm =>
      list_eqb N.eqb ps (o_parents x) && String.eqb d (o_desc x)
      && pview_match (if imm then relax_immutable p else p) (o_view x)
      && (imm || negb (exact && is_total p && pview_match p cur))
  | RNew ps d p _, ONothing => pview_match p cur
  | _, _ => false
  end.

Definition run_cmd (log : list op) (c : cmd) : option res :=
  match rev log with
  | [] => None
  | h :: _ =>
      let hid := N.of_nat (length log - 1) in
      match c with
      | CNormal _ => None
      | CUndo => Some (cmd_undo log hid h)
      | CRedo => Some (cmd_redo log hid h)
      | CRestore t wr wm => Some (cmd_restore log hid h t wr wm)
      | CRevert t wr wm => Some (cmd_revert log hid h t wr wm)
      end
  end.

Definition apply_outcome (log : list op) (c : cmd) (o : outcome) : list op :=
  match c, o with
  | CNormal ops, _ => log ++ ops
  | _, ONew x _ => log ++ [x]
  | _, _ => log
  end.

(** Replays the session: every modelled command must produce the observed outcome. *)
Fixpoint replay (log : list op) (evs : list (cmd * outcome)) : bool :=
  match evs with
  | [] => true
  | (c, o) :: rest =>
      (match run_cmd log c with
       | None => true
       | Some r => outcome_match (match rev log with h :: _ => o_view h | [] => mk_view [] [] [] [] [] [] [] end) r o
       end)
      && replay (apply_outcome log c o) rest
  end.

(** ** Executing fully determined commands (used to state the stack theorems). *)
Definition to_view (p : pview) : option view :=
  match p with
  | mk_pview (Some a) (Some b) (Some c) (Some d) (Some e) (Some f) (Some g) =>
      Some (mk_view a b c d e f g)
  | _ => None
  end.

(** [Some log']: the command succeeded; no operation is written when nothing changed. *)
Definition exec (log : list op) (c : cmd) : option (list op) :=
  match run_cmd log c, rev log with
  | Some (RNew ps d p exact), h :: _ =>
      match to_view p with
      | Some v => if exact && view_eqb v (o_view h) then Some log
                  else Some (log ++ [mk_op ps d v])
      | None => None
      end
  | _, _ => None
  end.

Fixpoint iter (n : nat) (c : cmd) (log : list op) : option (list op) :=
  match n with
  | O => Some log
  | S k => match exec log c with Some l => iter k c l | None => None end
  end.

(** ** The property, checked on the IMPLEMENTATION's operations only (no model result
    involved): a restore-like operation carries the target's portions.
    - after `op restore t` (default portions): veq5 (new view) (view t);
    - after `undo` of a current operation that is not itself an undo and whose parent is
      not an undo: veq5 (new view) (parent's view);
    - `undo` immediately followed by `redo`: veq5 (view after) (view before);
    each unless the working-copy commit became immutable. *)
Definition is_undo_desc (d : string) : bool :=
  match strip_prefix UNDO_OP_DESC_PREFIX d with Some _ => true | None => false end.
Definition is_redo_desc (d : string) : bool :=
  match strip_prefix REDO_OP_DESC_PREFIX d with Some _ => true | None => false end.

Definition head_view (log : list op) : option view :=
  match rev log with h :: _ => Some (o_view h) | [] => None end.

Definition prop_event (log : list op) (c : cmd) (o : outcome) : bool :=
  match c, o with
  | CRestore t true true, ONew x false =>
      match get log t with Some top => veq5 (o_view x) (o_view top) | None => false end
  | CRestore t true true, ONothing =>
      match get log t, head_view log with
      | Some top, Some cur => veq5 cur (o_view top)
      | _, _ => false
      end
  | CUndo, ONew x false =>
      match rev log with
      | h :: _ =>
          if is_undo_desc (o_desc h) then true
          else match o_parents h with
               | [p] => match get log p with
                        | Some pop => is_undo_desc (o_desc pop) || veq5 (o_view x) (o_view pop)
                        | None => false
                        end
               | _ => false
               end
      | [] => false
      end
  | _, _ => true
  end.

Fixpoint prop_replay (log : list op) (evs : list (cmd * outcome)) : bool :=
  match evs with
  | [] => true
  | (c, o) :: rest =>
      prop_event log c o
      && (match c, o, rest with
          | CUndo, ONew u false, (CRedo, ONew r false) :: _ =>
              match head_view log with Some v => veq5 (o_view r) v | None => false end
          | _, _, _ => true
          end)
      && prop_replay (apply_outcome log c o) rest
  end.

Record case := mk_case {
  c_events : list (cmd * outcome);
  c_failed : bool;                 (* harness could not run/observe the session *)
}.

Definition okb (c : case) : bool := negb (c_failed c) && prop_replay [] (c_events c).

Definition check_case (c : case) : N :=
  verdict (negb (c_failed c) && replay [] (c_events c)) (okb c) false 1.
