(** C14 — the operation-head store (definitions only; proofs in Proofs/C14.v).

    Global state: the append-only operation DAG (op [i] has parents [nth i dag []], all
    smaller than [i]: an operation can only name parents that were written before it, ids
    being content hashes), the heads directory [H] (a set of op ids: one empty file per
    head, lib/src/simple_op_heads_store.rs:78-99), the advisory lock.

    Processes run programs made of
      - [CCommit]      Transaction::write + UnpublishedOperation::publish
                       (lib/src/transaction.rs:135-172, 231-237) on top of the op the
                       process currently has loaded;
      - [CPublishOn ps] the same with arbitrary parents (op integrate, merge commits);
      - [CLoad]        resolve_op_heads (lib/src/op_heads_store.rs:88-172).
    Every arrow between two observation points of the real code (the cfg hooks
    op_heads.read/add/remove, lock.acquire, lock.release) is one atomic step. *)
From Verif Require Import Base.Prelude Base.SchedS.
From Coq Require Import Arith.

(* ------------------------------------------------------------------ op DAG *)
Definition dag := list (list nat).
Definition parents (g : dag) (i : nat) : list nat := nth i g [].

(** [anc g x y]: [x] is [y] or an ancestor of [y]. *)
Inductive anc (g : dag) : nat -> nat -> Prop :=
| anc_refl : forall x, anc g x x
| anc_step : forall x p y, In p (parents g y) -> anc g x p -> anc g x y.

(** strict ancestor *)
Definition sanc (g : dag) (x y : nat) : Prop := exists p, In p (parents g y) /\ anc g x p.

(** downward closure of a head set *)
Definition Cov (g : dag) (H : list nat) (x : nat) : Prop := exists h, In h H /\ anc g x h.

Definition wf_dag (g : dag) : Prop := forall i p, In p (parents g i) -> p < i.

Fixpoint ancb_f (g : dag) (fuel : nat) (x y : nat) : bool :=
  Nat.eqb x y ||
  match fuel with
  | O => false
  | S f => existsb (ancb_f g f x) (parents g y)
  end.
(** parents are smaller than children, so a path below [y] has at most [y] edges *)
Definition ancb (g : dag) (x y : nat) : bool := ancb_f g y x y.
Definition sancb (g : dag) (x y : nat) : bool := existsb (ancb g x) (parents g y).
Definition covb (g : dag) (H : list nat) (x : nat) : bool := existsb (ancb g x) H.

Fixpoint wf_from (i : nat) (g : dag) : bool :=
  match g with
  | [] => true
  | ps :: r => forallb (fun p => p <? i) ps && wf_from (S i) r
  end.
Definition wf_dagb (g : dag) : bool := wf_from 0 g.

(* ------------------------------------------------------------------ id sets *)
Definition memn (x : nat) (l : list nat) : bool := existsb (Nat.eqb x) l.

(** the directory is a set: adding an existing name changes nothing *)
Fixpoint insert (n : nat) (l : list nat) : list nat :=
  match l with
  | [] => [n]
  | h :: t => if n <? h then n :: l else if n =? h then l else h :: insert n t
  end.
Definition add_head (n : nat) (l : list nat) : list nat :=
  if memn n l then l else insert n l.
Definition remove_id (x : nat) (l : list nat) : list nat :=
  filter (fun h => negb (h =? x)) l.
Definition uniq (l : list nat) : list nat := fold_right insert [] l.

(** dag_walk_async::heads (core/src/dag_walk_async.rs:481): the members of [seen] that are
    not reachable from another member. *)
Definition heads_of (g : dag) (seen : list nat) : list nat :=
  filter (fun x => negb (existsb (fun y => sancb g x y) seen)) seen.

(* ------------------------------------------------------------------ processes *)
Inductive cmd := CCommit | CLoad | CPublishOn (ps : list nat).

Inductive pc :=
| PIdle                                   (* between two commands *)
| PFailed                                 (* the command returned an error; process stops *)
| PRead1                                  (* op_heads_store.rs:99  get_op_heads (unlocked) *)
| PLockPub (n : nat)                      (* transaction.rs:232   lock before publishing n *)
| PLockRes                                (* op_heads_store.rs:115 lock *)
| PRead2                                  (* op_heads_store.rs:116 get_op_heads (locked) *)
| PAdd (n : nat) (todo : list nat)        (* simple_op_heads_store.rs:122 add_op_head(new) *)
| PRem (n : nat) (todo : list nat)        (* simple_op_heads_store.rs:127-136 removal loop *)
| PUnlock (ok : bool).                    (* drop of the lock guard *)

Record proc := mk_proc { p_pc : pc; p_prog : list cmd; p_cur : nat }.

Record state := mk_state {
  s_dag : dag;
  s_heads : list nat;
  s_lock : option nat;
  s_procs : list proc
}.

(** A scheduling event: who moves, which pending removal it performs (the loop order is
    the environment's choice: HashSet iteration order in resolve_op_heads), and what a
    directory read returns: [None] = the directory as it is (atomic readdir), [Some l] =
    an arbitrary set of stored operation ids (readdir racing with writers). *)
Record ev := mk_ev { e_pid : nat; e_pick : nat; e_weak : option (list nat) }.

Inductive label :=
| LNone                                   (* nothing happened: finished, blocked on the lock, failed *)
| LBegin                                  (* a CLoad command starts *)
| LWrite (n : nat) (ps : list nat)        (* op n with parents ps written to the op store *)
| LRead (seen : list nat) (merge : option (nat * list nat))
| LLock
| LAdd (n : nat)
| LRemove (x : nat)
| LUnlock.

Definition read (s : state) (e : ev) : list nat :=
  match e_weak e with
  | None => s_heads s
  | Some l => filter (fun x => x <? length (s_dag s)) (uniq l)
  end.

Definition lock_free (lw : bool) (s : state) : bool :=
  negb lw || match s_lock s with None => true | Some _ => false end.
Definition take_lock (lw : bool) (s : state) (pid : nat) : option nat :=
  if lw then Some pid else s_lock s.
Definition release_lock (s : state) (pid : nat) : option nat :=
  match s_lock s with
  | Some q => if q =? pid then None else Some q
  | None => None
  end.

Definition after_todo (n : nat) (todo : list nat) : pc :=
  match todo with [] => PUnlock true | _ => PRem n todo end.

(** One atomic step of process [e_pid e]; [lw] = the advisory lock really excludes. *)
Definition step_lbl (lw : bool) (s : state) (e : ev) : state * label :=
  let pid := e_pid e in
  match nth_error (s_procs s) pid with
  | None => (s, LNone)
  | Some p =>
    let g := s_dag s in
    let H := s_heads s in
    let upd (q : proc) (g' : dag) (H' : list nat) (l' : option nat) :=
      mk_state g' H' l' (set_nth pid q (s_procs s)) in
    let goto (c : pc) := mk_proc c (p_prog p) (p_cur p) in
    match p_pc p with
    | PIdle =>
      match p_prog p with
      | [] => (s, LNone)
      | CCommit :: r =>
        let n := length g in
        (upd (mk_proc (PLockPub n) r n) (g ++ [[p_cur p]]) H (s_lock s), LWrite n [p_cur p])
      | CPublishOn ps :: r =>
        let n := length g in
        let ps' := filter (fun x => x <? n) (uniq ps) in
        (upd (mk_proc (PLockPub n) r n) (g ++ [ps']) H (s_lock s), LWrite n ps')
      | CLoad :: r => (upd (mk_proc PRead1 r (p_cur p)) g H (s_lock s), LBegin)
      end
    | PFailed => (s, LNone)
    | PRead1 =>
      let seen := read s e in
      match seen with
      | [] => (upd (goto PFailed) g H (s_lock s), LRead seen None)
      | [h] => (upd (mk_proc PIdle (p_prog p) h) g H (s_lock s), LRead seen None)
      | _ => (upd (goto PLockRes) g H (s_lock s), LRead seen None)
      end
    | PLockPub n =>
      if lock_free lw s
      then (upd (goto (PAdd n (parents g n))) g H (take_lock lw s pid), LLock)
      else (s, LNone)
    | PLockRes =>
      if lock_free lw s
      then (upd (goto PRead2) g H (take_lock lw s pid), LLock)
      else (s, LNone)
    | PRead2 =>
      let seen := read s e in
      match seen with
      | [] => (upd (goto (PUnlock false)) g H (s_lock s), LRead seen None)
      | [h] => (upd (mk_proc (PUnlock true) (p_prog p) h) g H (s_lock s), LRead seen None)
      | _ =>
        let hs := heads_of g seen in
        let ancs := filter (fun x => negb (memn x hs)) seen in
        match hs with
        | [h] =>            (* op_heads_store.rs:153-158: no merge operation needed *)
          (upd (mk_proc (PAdd h ancs) (p_prog p) h) g H (s_lock s), LRead seen None)
        | _ =>              (* op_heads_store.rs:160-171: the resolver writes the merge op *)
          let m := length g in
          (upd (mk_proc (PAdd m (ancs ++ hs)) (p_prog p) m) (g ++ [hs]) H (s_lock s),
           LRead seen (Some (m, hs)))
        end
      end
    | PAdd n todo =>
      (* `if old_id == new_id { continue; }` *)
      let todo' := remove_id n todo in
      (upd (goto (after_todo n todo')) g (add_head n H) (s_lock s), LAdd n)
    | PRem n todo =>
      match todo with
      | [] => (upd (goto (PUnlock true)) g H (s_lock s), LNone)
      | x0 :: _ =>
        let x := if memn (e_pick e) todo then e_pick e else x0 in
        let todo' := remove_id x todo in
        (upd (goto (after_todo n todo')) g (remove_id x H) (s_lock s), LRemove x)
      end
    | PUnlock ok =>
      (upd (goto (if ok then PIdle else PFailed)) g H (release_lock s pid), LUnlock)
    end
  end.

Definition step (lw : bool) (s : state) (e : ev) : state := fst (step_lbl lw s e).

(** Initial states: nobody is inside a command. *)
Definition init_state (g : dag) (H : list nat) (ps : list (nat * list cmd)) : state :=
  mk_state g H None (map (fun cp => mk_proc PIdle (snd cp) (fst cp)) ps).

(* ------------------------------------------------------------------ correspondence case *)
Record obs := mk_obs {
  o_ev : ev;
  o_label : label;          (* what the real thread did in this step *)
  o_heads : list nat;       (* listing of op_heads/heads after the step *)
  o_cur : option nat        (* op the process reports as loaded when a command ends here *)
}.

Record case := mk_case {
  c_lw : bool;                        (* real flock taken (true) or skipped (false) *)
  c_ninit : nat;                      (* ops present before the run *)
  c_dag : dag;                        (* real op DAG at the end, ids in creation order *)
  c_init_heads : list nat;
  c_progs : list (nat * list cmd);
  c_steps : list obs;
  c_final_pcs : list nat;             (* where each real thread stands when everybody is killed *)
  c_final_ok : bool;                  (* the load by a fresh process afterwards succeeded *)
  c_final_cur : nat;                  (* ... and returned this op *)
  c_final_heads : list nat            (* ... leaving this directory *)
}.

Definition eqn_list : list nat -> list nat -> bool := list_eqb Nat.eqb.

Definition label_eqb (a b : label) : bool :=
  match a, b with
  | LNone, LNone | LBegin, LBegin | LLock, LLock | LUnlock, LUnlock => true
  | LWrite n ps, LWrite n' ps' => (n =? n') && eqn_list ps ps'
  | LRead l m, LRead l' m' =>
    eqn_list l l' && option_eqb (fun p q => (fst p =? fst q) && eqn_list (snd p) (snd q)) m m'
  | LAdd n, LAdd n' => n =? n'
  | LRemove n, LRemove n' => n =? n'
  | _, _ => false
  end.

Definition pc_code (p : proc) : nat :=
  match p_pc p with
  | PIdle => match p_prog p with [] => 0 | _ => 1 end
  | PRead1 | PRead2 => 2
  | PLockPub _ | PLockRes => 3
  | PAdd _ _ => 4
  | PRem _ _ => 5
  | PUnlock _ => 6
  | PFailed => 7
  end.

(** Trace acceptance: the model, fed the same schedule, must produce the same labels, the
    same directory after every step and the same loaded ops. *)
Fixpoint replay (lw : bool) (s : state) (l : list obs) : state * bool :=
  match l with
  | [] => (s, true)
  | o :: r =>
    let '(s', lbl) := step_lbl lw s (o_ev o) in
    let cur_ok :=
      match o_cur o with
      | None => true
      | Some c =>
        match nth_error (s_procs s') (e_pid (o_ev o)) with
        | Some p => (p_cur p =? c) && match p_pc p with PIdle => true | _ => false end
        | None => false
        end
      end in
    let ok := label_eqb lbl (o_label o) && eqn_list (s_heads s') (o_heads o) && cur_ok in
    let '(s'', ok') := replay lw s' r in
    (s'', ok && ok')
  end.

(** Everybody crashes (flock dies with its process), a fresh process loads the repo. *)
Definition final_load (lw : bool) (s : state) : state :=
  let pid := length (s_procs s) in
  let s1 := mk_state (s_dag s) (s_heads s) None (s_procs s ++ [mk_proc PIdle [CLoad] 0]) in
  run (step lw) (repeat (mk_ev pid 0 None) (2 * length (s_heads s) + 6)) s1.

Definition corr (c : case) : bool :=
  let s0 := init_state (firstn (c_ninit c) (c_dag c)) (c_init_heads c) (c_progs c) in
  let '(s1, ok) := replay (c_lw c) s0 (c_steps c) in
  let s2 := final_load (c_lw c) s1 in
  ok
  && eqn_list (map pc_code (s_procs s1)) (c_final_pcs c)
  && c_final_ok c
  && list_eqb eqn_list (s_dag s2) (c_dag c)
  && eqn_list (s_heads s2) (c_final_heads c)
  && match nth_error (s_procs s2) (length (s_procs s1)) with
     | Some p => (p_cur p =? c_final_cur c) && (pc_code p =? 0)
     | None => false
     end.

(** The property on the implementation's observations alone (meaning: Props.C14.C14_okb_spec).
    [pub] accumulates every op that has been seen as a head so far. *)
Fixpoint covered_steps (g : dag) (pub : list nat) (l : list (list nat)) : bool :=
  match l with
  | [] => true
  | H :: r =>
    let pub' := H ++ pub in
    negb (match H with [] => true | _ => false end)
    && forallb (covb g H) pub'
    && covered_steps g pub' r
  end.

Definition all_heads (c : case) : list (list nat) :=
  c_init_heads c :: map o_heads (c_steps c).

Definition okb (c : case) : bool :=
  wf_dagb (c_dag c)
  && covered_steps (c_dag c) [] (all_heads c)
  && c_final_ok c
  && eqn_list (c_final_heads c) [c_final_cur c]
  && forallb (fun n => ancb (c_dag c) n (c_final_cur c)) (concat (all_heads c)).

Definition check_case (c : case) : N :=
  verdict (corr c) (okb c) false 1.
