(** C04 correspondence case: the terms of a [Merge<BString>], the two options, and what
    [files::merge], [files::merge_hunks] and [files::try_merge] returned. Definitions only. *)
From Coq Require Import Arith.
From Verif Require Import Base.Prelude Model.Merge Model.Diff Model.Files.

Record case := mk_case {
  c_terms : list bytes;             (* Merge values: add0; remove0; add1; ... (odd length) *)
  c_accept : bool;                  (* SameChange::Accept? *)
  c_word : bool;                    (* FileMergeHunkLevel::Word? *)
  c_merge : list bytes;             (* files::merge: values of the returned Merge<BString> *)
  c_mh_resolved : bool;             (* files::merge_hunks returned MergeResult::Resolved *)
  c_mh : list (list bytes);         (* its content as [[content]], or the Conflict hunks *)
  c_try : option bytes;             (* files::try_merge *)
  c_self_identity : bool;           (* impl: collect_unchanged_words(x, x) is the identity, every term x *)
  c_panicked : bool;
}.

Definition terms_eqb : list bytes -> list bytes -> bool := list_eqb bytes_eqb.

(** The terms cancel pairwise except for one occurrence of [x]. *)
Definition is_delta (terms : list bytes) (x : bytes) : bool :=
  forallb (fun v => Z.eqb (den bytes_eqb terms v) (if bytes_eqb v x then 1 else 0)) terms.
Definition surviving_side (terms : list bytes) : option bytes :=
  find (is_delta terms) terms.

(** All adds are [s] and all removes are [b]. *)
Definition same_sides (terms : list bytes) : option bytes :=
  match terms with
  | [] => None
  | s :: rest =>
      let b := hd s rest in
      if forallb (bytes_eqb s) (evens terms) && forallb (bytes_eqb b) (odds terms)
      then Some s else None
  end.

(** One term of the concatenation of the hunks of a [MergeResult::Conflict]. *)
Definition hunk_term (t : nat) (h : list bytes) : bytes :=
  match h with [c] => c | _ => nth t h [] end.
Fixpoint no_adjacent_resolved (hs : list (list bytes)) : bool :=
  match hs with
  | h1 :: ((h2 :: _) as t) => negb (is_resolved h1 && is_resolved h2) && no_adjacent_resolved t
  | _ => true
  end.

Definition laws_okb (terms : list bytes) (accept : bool) (r : list bytes) : bool :=
  match surviving_side terms with
  | Some x => terms_eqb r [x]
  | None => true
  end
  && match same_sides terms with
     | Some s => negb accept || terms_eqb r [s]
     | None => true
     end.

(** Under same-change = keep, identical adds resolve only if the removes are identical to
    them as well (arity >= 3): otherwise the result of [merge] must stay a conflict. *)
Definition keep_okb (terms : list bytes) (accept : bool) (r : list bytes) : bool :=
  match terms with
  | s :: _ :: _ :: _ =>
      if negb accept && forallb (bytes_eqb s) (evens terms) && negb (forallb (bytes_eqb s) (odds terms))
      then negb (length r =? 1) else true
  | _ => true
  end.

Definition shape_okb (c : case) : bool :=
  let n := length (c_terms c) in
  let r := c_merge c in
  ((length r =? 1) || (length r =? n))
  (* Resolved, Some and a resolved Merge go together and carry the same content *)
  && Bool.eqb (c_mh_resolved c) (match c_try c with Some _ => true | None => false end)
  && Bool.eqb (c_mh_resolved c) (length r =? 1)
  && (if c_mh_resolved c
      then match c_try c with
           | Some content => terms_eqb r [content] && list_eqb terms_eqb (c_mh c) [[content]]
           | None => false
           end
      else
        (* Conflict: hunks are resolved texts (non-empty, never two in a row) or conflicts of
           the input's arity; their term-wise concatenation is the result of [merge] *)
        forallb (fun h => if is_resolved h then negb (is_nil (hd [] h)) else length h =? n) (c_mh c)
        && existsb (fun h => negb (is_resolved h)) (c_mh c)
        && no_adjacent_resolved (c_mh c)
        && forallb (fun t => bytes_eqb (concat (map (hunk_term t) (c_mh c))) (nth t r []))
                   (seq 0 n)).

Definition okb (c : case) : bool :=
  negb (c_panicked c) && c_self_identity c
  && laws_okb (c_terms c) (c_accept c) (c_merge c)
  && keep_okb (c_terms c) (c_accept c) (c_merge c) && shape_okb c.

(** Equal inputs to the diff must receive the identity matching for the laws to hold
    (hypothesis on Layer B); evaluated on the tokens of every term. *)
Definition self_identity_okb (terms : list bytes) : bool :=
  forallb (fun x =>
             let w := words CmpExact x (tokenize TokLine x) in
             list_eqb (pair_eqb Nat.eqb Nat.eqb) (M_hist w w) (identity_matching (length w)))
          terms.

Definition result_eqb (a b : merge_result) : bool :=
  match a, b with
  | Resolved x, Resolved y => bytes_eqb x y
  | Conflict x, Conflict y => list_eqb terms_eqb x y
  | _, _ => false
  end.

Definition corrb (c : case) : bool :=
  (* [merge], [merge_hunks] and [try_merge] are the three collectors applied to one stream *)
  let st := merge_stream M_hist (c_accept c) (c_word c) (c_terms c) in
  negb (c_panicked c)
  && terms_eqb (collect_merged st) (c_merge c)
  && result_eqb (collect_hunks st)
                (if c_mh_resolved c then Resolved (hd [] (hd [] (c_mh c))) else Conflict (c_mh c))
  && option_eqb bytes_eqb (collect_resolved st) (c_try c)
  && self_identity_okb (c_terms c).

Definition check_case (c : case) : N := verdict (corrb c) (okb c) false 1.
