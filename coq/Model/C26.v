(** C26 — Edits after a command finished are always detected.
    Model of lib/src/local_working_copy.rs:
      FileState / FileType / is_clean                        (:281-311)
      file_state(metadata)                                    (:934-956)
      TreeState::init / load / read / update_own_mtime / save (:1051-1222)
      the clean verdict of get_updated_tree_value             (:1828-1839)
      process_present_file / emit_deleted_files for one path  (:1762-1819)
    One tracked path is modelled (every path is handled independently by the snapshot).
    Time is [N] (milliseconds; clocks before the epoch are outside the model); [g] maps the
    real time of a write to the modification time the file system reports for it
    (truncation to the file system's granularity followed by jj's truncation to ms). *)
From Verif Require Import Base.Prelude.
Local Open Scope N_scope.

(** FileType (:281-286) *)
Inductive ftype := FNormal (exec : bool) | FSymlink | FGitSubmodule.

Definition ftype_eqb (a b : ftype) : bool :=
  match a, b with
  | FNormal x, FNormal y => Bool.eqb x y
  | FSymlink, FSymlink => true
  | FGitSubmodule, FGitSubmodule => true
  | _, _ => false
  end.

(** FileState (:293-302); materialized_conflict_data is ignored by is_clean and left out. *)
Record fstate := mk_fstate { fs_type : ftype; fs_mtime : N; fs_size : N }.

(** FileState::is_clean (:307-311) *)
Definition is_clean (new old : fstate) : bool :=
  ftype_eqb (fs_type new) (fs_type old)
  && (fs_mtime new =? fs_mtime old)
  && (fs_size new =? fs_size old).

(** get_updated_tree_value (:1828-1839): [cur] is the recorded state of the path (None =
    untracked), [new] the state just read from disk, [own] TreeState::own_mtime. *)
Definition clean_verdict (own : N) (cur : option fstate) (new : fstate) : bool :=
  match cur with
  | None => false
  | Some c => is_clean new c && (fs_mtime c <? own)
  end.

(** A regular file on disk: exec bit, content (identified by a number and its length), mtime. *)
Record dfile := mk_dfile { d_exec : bool; d_content : N; d_size : N; d_mtime : N }.

(** file_state(metadata) (:934-956) for a regular file *)
Definition stat (d : dfile) : fstate := mk_fstate (FNormal (d_exec d)) (d_mtime d) (d_size d).

(** The tree's value at the path: content, stored length, executable flag. *)
Record tval := mk_tval { t_id : N; t_len : N; t_exec : bool }.
Definition of_disk (d : dfile) : tval := mk_tval (d_content d) (d_size d) (d_exec d).

(** The TreeState of the running process (own_mtime, the path's file state and tree value) and
    the [tree_state] file (its own modification time and the same two recorded values). *)
Record mem := mk_mem { m_own : N; m_state : option fstate; m_tree : option tval }.
Record sfile := mk_sfile { sf_mtime : N; sf_state : option fstate; sf_tree : option tval }.

Record world := mk_world {
  w_now : N;                 (* real time of the latest event (ghost; used by theorems only) *)
  w_file : option dfile;
  w_sfile : sfile;
  w_mem : mem;
}.

(** Events, each with the real time at which it happens. Write/Chmod/Delete are done by the
    user or another program; Load/Snapshot/Save are TreeState::load / snapshot / save. *)
Inductive event :=
| EvWrite (t : N) (exec : bool) (cid size : N)
| EvChmod (t : N) (exec : bool)
| EvDelete (t : N)
| EvLoad (t : N)
| EvSnapshot (t : N)
| EvSave (t : N).

Definition ev_time (e : event) : N :=
  match e with
  | EvWrite t _ _ _ | EvChmod t _ | EvDelete t | EvLoad t | EvSnapshot t | EvSave t => t
  end.

Section Model.
  Context (g : N -> N).

  (** TreeState::init (:1051-1060): empty state, then save(): the temp file is written (its
      mtime is the write time), update_own_mtime finds no tree_state yet (own_mtime := 0),
      then the rename. *)
  Definition init_world (t0 : N) : world :=
    mk_world t0 None (mk_sfile (g t0) None None) (mk_mem 0 None None).

  (** The snapshot's treatment of the path (process_dir_entry → process_present_file, or
      emit_deleted_files when it is absent). *)
  Definition snapshot_mem (m : mem) (f : option dfile) : mem :=
    match f with
    | None => mk_mem (m_own m) None None
    | Some d =>
        let new := stat d in
        if clean_verdict (m_own m) (m_state m) new then m
        else mk_mem (m_own m) (Some new) (Some (of_disk d))
    end.

  Definition step (e : event) (w : world) : world :=
    match e with
    | EvWrite t x c sz =>
        mk_world t (Some (mk_dfile x c sz (g t))) (w_sfile w) (w_mem w)
    | EvChmod t x =>
        mk_world t
          (match w_file w with
           | Some d => Some (mk_dfile x (d_content d) (d_size d) (d_mtime d))
           | None => None
           end) (w_sfile w) (w_mem w)
    | EvDelete t => mk_world t None (w_sfile w) (w_mem w)
    | EvLoad t =>
        (* TreeState::load → read (:1104-1176): own_mtime := mtime of the tree_state file *)
        let s := w_sfile w in
        mk_world t (w_file w) s (mk_mem (sf_mtime s) (sf_state s) (sf_tree s))
    | EvSnapshot t =>
        mk_world t (w_file w) (w_sfile w) (snapshot_mem (w_mem w) (w_file w))
    | EvSave t =>
        (* TreeState::save (:1179-1222): the new content is written to a temp file at time t,
           THEN update_own_mtime reads the mtime of the old tree_state file, then the rename *)
        let m := w_mem w in
        mk_world t (w_file w)
          (mk_sfile (g t) (m_state m) (m_tree m))
          (mk_mem (sf_mtime (w_sfile w)) (m_state m) (m_tree m))
    end.

  Definition run (evs : list event) (w : world) : world := fold_left (fun w e => step e w) evs w.

  (** What a snapshot lets the outside see: the tree value and the recorded file state. *)
  Record obs := mk_obs { o_tree : option tval; o_state : option fstate }.
  Definition obs_of (w : world) : obs := mk_obs (m_tree (w_mem w)) (m_state (w_mem w)).

  Fixpoint run_obs (evs : list event) (w : world) : list obs :=
    match evs with
    | [] => []
    | e :: r =>
        let w' := step e w in
        match e with
        | EvSnapshot _ => obs_of w' :: run_obs r w'
        | _ => run_obs r w'
        end
    end.

  (** ** The property checker: what is claimed about each snapshot, from the events alone.

      Knowledge flags about the current world (each is sound: flag = true implies the fact,
      for every monotone [g] and every trace whose times never decrease):
        k_am : the process's tree value has the content that is on disk
        k_lm : own_mtime <= mtime of the file on disk
        k_as, k_ls : the same two facts for the [tree_state] file
        k_timed : event times have not decreased so far
      A snapshot is claimed to record exactly what is on disk whenever the file is absent, or
      k_am or k_lm holds. *)
  Record know := mk_know { k_timed : bool; k_am : bool; k_lm : bool; k_as : bool; k_ls : bool }.

  Definition know_init : know := mk_know true true true true true.

  Definition know_step (e : event) (now : N) (k : know) : know :=
    let timed := k_timed k && (now <=? ev_time e) in
    match e with
    | EvWrite _ _ _ _ => mk_know timed false true false true
    | EvChmod _ _ => mk_know timed (k_am k) (k_lm k) (k_as k) (k_ls k)
    | EvDelete _ => mk_know timed true true true true
    | EvLoad _ => mk_know timed (k_as k) (k_ls k) (k_as k) (k_ls k)
    | EvSnapshot _ => mk_know timed (k_am k || k_lm k) (k_lm k) (k_as k) (k_ls k)
    | EvSave _ => mk_know timed (k_am k) (k_ls k) (k_am k) false
    end.

  Definition disk_step (e : event) (f : option dfile) : option dfile :=
    w_file (step e (mk_world 0 f (mk_sfile 0 None None) (mk_mem 0 None None))).

  Definition expected (f : option dfile) : obs :=
    mk_obs (option_map of_disk f) (option_map stat f).

  (** For every snapshot in the trace: [Some o] = "this snapshot must yield o", [None] = no claim. *)
  Fixpoint claims (evs : list event) (now : N) (f : option dfile) (k : know) : list (option obs) :=
    match evs with
    | [] => []
    | e :: r =>
        let f' := disk_step e f in
        let k' := know_step e now k in
        match e with
        | EvSnapshot _ =>
            (if k_timed k' && (match f with None => true | Some _ => k_am k || k_lm k end)
             then Some (expected f) else None) :: claims r (ev_time e) f' k'
        | _ => claims r (ev_time e) f' k'
        end
    end.
  (** What every snapshot would show if it recorded exactly what is on disk. *)
  Fixpoint exact_obs (evs : list event) (f : option dfile) : list obs :=
    match evs with
    | [] => []
    | e :: r =>
        match e with
        | EvSnapshot _ => expected f :: exact_obs r (disk_step e f)
        | _ => exact_obs r (disk_step e f)
        end
    end.
End Model.

(** Trace discipline used by [C26_no_stale_clean]: times never decrease, and every save is done
    by a process whose tree content is still what is on disk, i.e. there was no external
    write/delete between the snapshot it derives from and the save ("no edit while a jj
    command is running"). [sy_mem]/[sy_file]: the process / the tree_state file derive from a
    snapshot after which the content on disk was not changed. *)
Record sync := mk_sync { sy_mem : bool; sy_file : bool }.

Fixpoint disciplined (evs : list event) (now : N) (s : sync) : bool :=
  match evs with
  | [] => true
  | e :: r =>
      (now <=? ev_time e) &&
      match e with
      | EvWrite _ _ _ _ | EvDelete _ => disciplined r (ev_time e) (mk_sync false false)
      | EvChmod _ _ => disciplined r (ev_time e) s
      | EvLoad _ => disciplined r (ev_time e) (mk_sync (sy_file s) (sy_file s))
      | EvSnapshot _ => disciplined r (ev_time e) (mk_sync true (sy_file s))
      | EvSave _ => sy_mem s && disciplined r (ev_time e) (mk_sync (sy_mem s) (sy_mem s))
      end
  end.

Fixpoint timed (evs : list event) (now : N) : Prop :=
  match evs with
  | [] => True
  | e :: r => now <= ev_time e /\ timed r (ev_time e)
  end.

(** Events not performed by jj. *)
Definition external (e : event) : bool :=
  match e with EvWrite _ _ _ _ | EvChmod _ _ | EvDelete _ => true | _ => false end.
Definition content_edit (e : event) : bool :=
  match e with EvWrite _ _ _ _ | EvDelete _ => true | _ => false end.

Definition ftype_code (t : ftype) : N :=
  match t with FNormal false => 0 | FNormal true => 1 | FSymlink => 2 | FGitSubmodule => 3 end.
Definition fstate_eqb (a b : fstate) : bool :=
  ftype_eqb (fs_type a) (fs_type b) && (fs_mtime a =? fs_mtime b) && (fs_size a =? fs_size b).
Definition tval_eqb (a b : tval) : bool :=
  (t_id a =? t_id b) && (t_len a =? t_len b) && Bool.eqb (t_exec a) (t_exec b).
Definition obs_eqb (a b : obs) : bool :=
  option_eqb tval_eqb (o_tree a) (o_tree b) && option_eqb fstate_eqb (o_state a) (o_state b).

Fixpoint claims_hold (cl : list (option obs)) (os : list obs) : bool :=
  match cl, os with
  | [], [] => true
  | c :: cr, o :: or =>
      (match c with None => true | Some e => obs_eqb e o end) && claims_hold cr or
  | _, _ => false
  end.

(** Granularity used for running: truncation to a multiple of [u] ms (u = 0: constant clock). *)
Definition gran (u t : N) : N := t / u * u.

(** A correspondence case: granularity, start time (TreeState::init), the scripted events, and
    what the real TreeState showed after each of its snapshots (mtimes on the real files and on
    the real tree_state file were forced to [gran u t]). *)
Record case := mk_case {
  c_unit : N;
  c_t0 : N;
  c_events : list event;
  c_obs : list obs;
  c_panicked : bool;
}.

Definition okb (c : case) : bool :=
  negb (c_panicked c)
  && claims_hold (claims (gran (c_unit c)) (c_events c) (c_t0 c) None know_init) (c_obs c).

Definition check_case (c : case) : N :=
  let g := gran (c_unit c) in
  let model := run_obs g (c_events c) (init_world g (c_t0 c)) in
  let corr := negb (c_panicked c) && list_eqb obs_eqb model (c_obs c) in
  verdict corr (okb c) false 1.
