(** C02 correspondence case: terms, same-change setting, and what [trivial_merge] returned. *)
From Verif Require Import Base.Prelude Model.Merge.

Record case := mk_case {
  c_terms : list N;         (* values of a Merge<u8>, odd length *)
  c_accept : bool;          (* SameChange::Accept? *)
  c_result : option N;      (* impl: trivial_merge(values, same_change), None = unresolved *)
  c_panicked : bool;        (* impl panicked (internal assert) *)
}.

Section Checker.
  Context {T : Type} (eqb : T -> T -> bool).
  (** Boolean form of [Proofs.C02.Resolves]. *)
  Definition resolves_b (accept : bool) (l : list T) (v : T) : bool :=
    (0 <? den eqb l v)%Z &&
    (forallb (fun w => eqb w v || (den eqb l w =? 0)%Z) l
     || (accept &&
         existsb (fun w => negb (eqb w v) && (den eqb l w <? 0)%Z &&
                           forallb (fun u => eqb u v || eqb u w || (den eqb l u =? 0)%Z) l) l)).
  Definition result_ok (accept : bool) (l : list T) (r : option T) : bool :=
    match r with
    | Some v => resolves_b accept l v
    | None => forallb (fun v => negb (resolves_b accept l v)) l
    end.
End Checker.

Definition okb (c : case) : bool :=
  negb (c_panicked c) && result_ok N.eqb (c_accept c) (c_terms c) (c_result c).

Definition check_case (c : case) : N :=
  let corr := option_eqb N.eqb (trivial_merge N.eqb (c_accept c) (c_terms c)) (c_result c)
              && negb (c_panicked c) in
  verdict corr (okb c) false 1.
