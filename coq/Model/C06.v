(** Model of [conflicts::update_from_content] (lib/src/conflicts.rs:1056-1132) and of the
    conflict branch of [write_path_to_store] (lib/src/local_working_copy.rs:1925-1987), over
    an abstract content-addressed store: a file id is the content it names
    ([option (list N)], [None] = absent term), so [read] is the identity and two ids are
    equal iff the contents are (hash injectivity is the one assumption). Uses
    [simplify] / [update_from_simplified] of Model/Merge.v and [parse_conflict] of
    Model/Conflicts.v; [files::merge_hunks] (with the store's merge options) is an oracle.
    Plus the C06 correspondence case. Definitions only. *)
From Verif Require Import Base.Prelude Gen.Tables Model.Merge Model.Conflicts.
From Verif Require Model.C05.

Notation fid := (option (list N)) (only parsing).
Definition fid_eqb (a b : fid) : bool := option_eqb bytes_eqb a b.
Definition read_fid (t : fid) : list N := match t with Some c => c | None => [] end.

Definition hunks_eqb (a b : list (list (list N))) : bool :=
  list_eqb (list_eqb bytes_eqb) a b.

(** [for (content, slice) in zip(&mut contents, hunk) { content.extend(slice) }] *)
Fixpoint zip_app (cs h : list (list N)) : list (list N) :=
  match cs, h with
  | c :: cs', x :: h' => (c ++ x) :: zip_app cs' h'
  | cs, [] => cs
  | [], _ => []
  end.

(** One iteration of the [for hunk in hunks] loop (conflicts.rs:1094-1104). *)
Definition add_hunk (cs : list (list N)) (h : list (list N)) : list (list N) :=
  match h with
  | [slice] => map (fun c => c ++ slice) cs
  | _ => zip_app cs h
  end.

(** conflicts.rs:1108-1119: a term is written if it had a file or received bytes. *)
Definition new_id (content : list N) (old : fid) : fid :=
  match old with
  | Some _ => Some content
  | None => match content with [] => None | _ => Some content end
  end.

(** [Merge::num_sides]: number of adds of an odd-length term vector. *)
Definition nsides {A} (l : list A) : nat := Nat.div2 (S (length l)).

Section UpdateFromContent.
  (** [files::merge_hunks(contents, store.merge_options())]: [inl] = Resolved. *)
  Variable MH : list (list N) -> list N + list (list (list N)).

  Definition update_from_content (file_ids : list fid) (content : list N) (L : nat)
    : list fid :=
    let simplified := simplify fid_eqb file_ids in
    let old_hunks := MH (map read_fid simplified) in
    let new_hunks := parse_conflict content (nsides simplified) L in
    let unchanged :=
      match old_hunks, new_hunks with
      | inl old, None => bytes_eqb old content
      | inr old, Some new => hunks_eqb old new
      | _, _ => false
      end in
    if unchanged then file_ids
    else
      match new_hunks with
      | None => [Some content]
      | Some hunks =>
          let contents := fold_left add_hunk hunks (map (fun _ => []) simplified) in
          let new_ids := map (fun p => new_id (fst p) (snd p)) (combine contents simplified) in
          if Nat.eqb (length new_ids) (length file_ids) then new_ids
          else update_from_simplified fid_eqb file_ids new_ids
      end.

  (** A [MergedTreeValue] of files: content-id and executable bit per present term. *)
  Definition with_new_file_ids (vals : list (option (list N * bool))) (ids : list fid)
    : option (list (option (list N * bool))) :=
    if negb (Nat.eqb (length vals) (length ids)) then None
    else
      fold_right
        (fun p acc =>
           match acc with
           | None => None
           | Some l =>
               match p with
               | (Some (_, x), Some c) => Some (Some (c, x) :: l)
               | (None, None) => Some (None :: l)
               | (None, Some c) => Some (Some (c, false) :: l)
               | (Some _, None) => None   (* panic "incompatible update" *)
               end
           end)
        (Some []) (combine vals ids).

  (** The conflict branch of [write_path_to_store] for a conflict of files; [disk_exec] is
      the executable bit found on disk (exec policy Respect). [None] = panic. *)
  Definition snapshot_conflict (vals : list (option (list N * bool))) (disk : list N)
             (disk_exec : bool) (L : nat) : option (list (option (list N * bool))) :=
    let old_ids := map (option_map fst) vals in
    let new_ids := update_from_content old_ids disk L in
    match new_ids with
    | [Some c] => Some [Some (c, disk_exec)]
    | [None] => None
    | _ => if list_eqb fid_eqb new_ids old_ids then Some vals
           else with_new_file_ids vals new_ids
    end.
End UpdateFromContent.

(* ------------------------------------------------------------------ the case *)

Definition style_of (n : N) : style :=
  match n with 0%N => StDiff | 1%N => StDiffExp | 2%N => StSnapshot | _ => StGit end.

Record case := mk_case {
  c_vals : list (option (list N * bool));  (* conflict terms: content (= id), exec bit *)
  c_mh : list N + list (list (list N));     (* impl merge_hunks on the simplified contents *)
  c_style : N;
  c_labels : list (list N);                 (* labels given to materialize (simplified) *)
  c_diffs : list (list N * list N * list dhunk);
  c_len : N;                                (* impl chosen marker length *)
  c_mat : list N;                           (* impl materialized bytes, unedited *)
  c_kind : N;      (* 0 unedited, 1 resolved-region edit, 2 no markers, 3.. other edits *)
  c_edit : option (N * list N);             (* kind 1: hunk index, new resolved text *)
  c_content : list N;                       (* bytes given to update_from_content / on disk *)
  c_wc : bool;                              (* through a real working-copy snapshot *)
  c_disk_exec : bool;
  c_result : option (list (option (list N * bool)));  (* impl result; None = error/panic *)
  (* working-copy sequences: every snapshot of the sequence (the first one included), each
     taken after the file was rewritten / touched / chmod-ed with IDENTICAL bytes and a newer
     mtime: disk exec bit, impl path value after the snapshot, impl stored marker length
     (FileState::materialized_conflict_data) after the snapshot *)
  c_seq : list (bool * option (list (option (list N * bool))) * option N);
}.

(** Recorded line diffs as the diff oracle (the same lookup as in the C05 case). *)
Definition lookup_diff := C05.lookup_diff.

Definition tval_eqb (a b : option (list N * bool)) : bool :=
  option_eqb (fun p q => bytes_eqb (fst p) (fst q) && Bool.eqb (snd p) (snd q)) a b.
Definition vals_eqb := list_eqb tval_eqb.

Definition case_ids (c : case) : list fid := map (option_map fst) (c_vals c).
Definition case_simplified (c : case) : list fid := simplify fid_eqb (case_ids c).
Definition case_contents (c : case) : list (list N) := map read_fid (case_simplified c).
Definition case_MH (c : case) : list (list N) -> list N + list (list (list N)) :=
  fun _ => c_mh c.

Definition materialize_of (c : case) (hs : list (list (list N))) : list N :=
  materialize_conflict_hunks (lookup_diff (c_diffs c)) (detect_eol (case_contents c))
    (N.to_nat (c_len c)) hs (style_of (c_style c)) (c_labels c).

Definition model_mat (c : case) : list N :=
  match c_mh c with inl content => content | inr hs => materialize_of c hs end.

(** Replace hunk [k] by the resolved hunk [[r]]. *)
Definition edit_hunks (hs : list (list (list N))) (k : nat) (r : list N) : list (list (list N)) :=
  set_nth k [r] hs.

(** [Merge<Tree>::value] (lib/src/tree.rs:282-292): reading a path of a conflicted tree
    resolves the per-path merge trivially when possible (the store's default
    [merge.same-change = "accept"]); this is how the harness observes the snapshot. *)
Definition tree_view (vals : list (option (list N * bool))) : list (option (list N * bool)) :=
  match trivial_merge tval_eqb true vals with Some v => [v] | None => vals end.

Definition model_result (c : case) : option (list (option (list N * bool))) :=
  if c_wc c then
    option_map tree_view
      (snapshot_conflict (case_MH c) (c_vals c) (c_content c) (c_disk_exec c)
                         (N.to_nat (c_len c)))
  else
    Some (map (option_map (fun x => (x, false)))
              (update_from_content (case_MH c) (case_ids c) (c_content c) (N.to_nat (c_len c)))).

(** One snapshot of a tracked file whose stat info changed
    ([FileSnapshotter::process_present_file] / [get_updated_tree_value],
    lib/src/local_working_copy.rs:1786-1812 and 1862-1905), for a path whose current tree
    value is a conflict of files. The state is the tree value and the file state's
    [materialized_conflict_data] (stored marker length). The marker length handed to
    [write_path_to_store] is the stored one, else [MIN_CONFLICT_MARKER_LEN]; the stored
    length is preserved whenever the file is a normal file and the update is not a
    resolution (also when there is no update). [None] = panic. *)
Definition wc_step (MH : list (list N) -> list N + list (list (list N)))
           (st : list (option (list N * bool)) * option nat) (disk : list N) (disk_exec : bool)
  : option (list (option (list N * bool)) * option nat) :=
  let '(vals, mcd) := st in
  let L := match mcd with Some l => l | None => N.to_nat MIN_CONFLICT_MARKER_LEN end in
  match vals with
  | [_] => Some ([Some (disk, disk_exec)], mcd)   (* already a normal file: not a conflict *)
  | _ =>
      match snapshot_conflict MH vals disk disk_exec L with
      | None => None
      | Some new =>
          if vals_eqb new vals then Some (vals, mcd)            (* update = None *)
          else match new with
               | [_] => Some (new, None)                         (* update is a resolution *)
               | _ => Some (new, mcd)
               end
      end
  end.

(** A sequence of snapshots, the same bytes on disk before each; the states after each. *)
Fixpoint wc_run (MH : list (list N) -> list N + list (list (list N)))
         (st : list (option (list N * bool)) * option nat) (disk : list N) (execs : list bool)
  : list (option (list (option (list N * bool)) * option nat)) :=
  match execs with
  | [] => []
  | x :: t =>
      match wc_step MH st disk x with
      | None => [None]
      | Some st' => Some st' :: wc_run MH st' disk t
      end
  end.

Definition seq_eqb (a b : option (list (option (list N * bool)) * option N)) : bool :=
  option_eqb (fun p q => vals_eqb (fst p) (fst q) && option_eqb N.eqb (snd p) (snd q)) a b.

(** Model of the whole recorded sequence, observed through [tree_view]. *)
Definition model_seq (c : case) : list (option (list (option (list N * bool)) * option N)) :=
  map (option_map (fun st => (tree_view (fst st), option_map N.of_nat (snd st))))
      (wc_run (case_MH c) (c_vals c, Some (N.to_nat (c_len c))) (c_content c)
              (map (fun e => fst (fst e)) (c_seq c))).
Definition impl_seq (c : case) : list (option (list (option (list N * bool)) * option N)) :=
  map (fun e => option_map (fun v => (v, snd e)) (snd (fst e))) (c_seq c).

(** Property on the implementation's outputs for a sequence of snapshots of the unedited
    file: after EVERY snapshot the path value is the original conflict and the stored
    marker length is still the chosen one. *)
Definition seq_okb (c : case) : bool :=
  forallb (fun e => option_eqb vals_eqb (snd (fst e)) (Some (c_vals c))
                    && option_eqb N.eqb (snd e) (Some (c_len c))) (c_seq c).

(** No line is a conflict-start marker of length [>= L]: then nothing parses. *)
Definition no_start_b (L : nat) (content : list N) : bool :=
  forallb (fun l => match parse_marker l L with Some KStart => false | _ => true end)
          (lines content).

(** The write-back of per-side contents (conflicts.rs:1093-1131) for known hunks. *)
Definition write_back (ids : list fid) (hunks : list (list (list N))) : list fid :=
  let simplified := simplify fid_eqb ids in
  let contents := fold_left add_hunk hunks (map (fun _ => []) simplified) in
  let new_ids := map (fun p => new_id (fst p) (snd p)) (combine contents simplified) in
  if Nat.eqb (length new_ids) (length ids) then new_ids
  else update_from_simplified fid_eqb ids new_ids.

Definition ids_of_result (c : case) : option (list fid) :=
  option_map (map (option_map fst)) (c_result c).

(** Property checker on the implementation's outputs.
    kind 0: the result is the input, term by term (ids and, through a working copy, exec bits);
    kind 1: the result is the write-back of the edited hunk list (every side receives the
            edited resolved text; positions dropped by simplification keep their ids);
    kind 2: text without conflict-start markers becomes one normal file with that text
            (or nothing changes if the old merge was resolved to exactly that text). *)
Definition okb (c : case) : bool :=
  match c_kind c with
  | 0%N => option_eqb vals_eqb (c_result c) (Some (c_vals c))
  | 1%N =>
      match c_mh c, c_edit c with
      | inr hs, Some (k, r) =>
          option_eqb (list_eqb fid_eqb) (ids_of_result c)
                     (Some (write_back (case_ids c) (edit_hunks hs (N.to_nat k) r)))
      | _, _ => true
      end
  | 2%N =>
      negb (no_start_b (N.to_nat (c_len c)) (c_content c)) ||
      option_eqb (list_eqb fid_eqb) (ids_of_result c)
        (Some (match c_mh c with
               | inl old => if bytes_eqb old (c_content c) then case_ids c
                            else [Some (c_content c)]
               | inr _ => [Some (c_content c)]
               end))
  | _ => true
  end.

(** The hypotheses of C06_unchanged / C06_resolved_region_edit on a hunk list of this case
    (boolean checkers of C05, sound by Proofs/C05.v), and lines-of-the-inputs for the
    unedited hunks (so that the chosen length dominates by C05_marker_len_dominates). *)
Definition hyps6_b (c : case) (hs : list (list (list N))) : bool :=
  C05.wf_hunksb (nsides (case_simplified c)) hs
  && C05.hunks_dominatedb (N.to_nat (c_len c)) hs
  && forallb C05.label_okb (c_labels c)
  && C05.diffs_okb (c_diffs c).

Definition check_case (c : case) : N :=
  let d1 := bytes_eqb (model_mat c) (c_mat c) in
  let d2 := N.eqb (N.of_nat (choose_marker_len (case_contents c))) (c_len c) in
  let d3 := option_eqb vals_eqb (model_result c) (c_result c) in
  let d4 := match c_kind c, c_mh c, c_edit c with
            | 1%N, inr hs, Some (k, r) =>
                bytes_eqb (materialize_of c (edit_hunks hs (N.to_nat k) r)) (c_content c)
            | 1%N, _, _ => false
            | 0%N, _, _ => bytes_eqb (c_content c) (c_mat c)
            | _, _, _ => true
            end in
  (* the theorems' hypotheses hold on the real merge result (the store merges at line
     level), and on the edited hunk list of a resolved-region edit *)
  let d5 := match c_mh c with
            | inr hs =>
                hyps6_b c hs
                && forallb (forallb (C05.lines_ofb (case_contents c))) hs
                && match c_kind c, c_edit c with
                   | 1%N, Some (k, r) => hyps6_b c (edit_hunks hs (N.to_nat k) r)
                   | _, _ => true
                   end
            | inl _ => true
            end in
  (* sequences of snapshots of the unedited file: tree values and stored marker lengths *)
  let d6 := list_eqb seq_eqb (model_seq c) (impl_seq c) in
  let corr := d1 && d2 && d3 && d4 && d5 && d6 in
  let detail : N := if negb d1 then 1%N else if negb d2 then 2%N else if negb d3 then 3%N
                    else if negb d4 then 4%N else if negb d5 then 5%N
                    else if negb d6 then 6%N else 7%N in
  verdict corr (okb c && seq_okb c) false detail.
