(** C40 — working-copy changes are never lost by commands: protocol model.

    Anchors: cli/src/cli_util.rs [workspace_helper_with_stats] (l.472-516: load, snapshot,
    stale error), [snapshot_working_copy] (l.2077-2256: lock, [handle_stale_working_copy],
    snapshot, snapshot operation, [locked_ws.finish(op)]), [handle_stale_working_copy]
    (l.2985-3053), lib/src/working_copy.rs [WorkingCopyFreshness::check_stale] (l.361-400),
    [finish_transaction] / [update_working_copy] (l.2325-2410, 3382-3400: checkout old -> new,
    recorded operation := new operation), [recover_stale_working_copy_impl] (l.625-765:
    snapshot on the working copy's own operation, merge of the divergent operations,
    [update_stale_working_copy], second snapshot; l.750-762 and lib/src/working_copy.rs
    [create_and_check_out_recovery_commit] when the working copy's operation is lost),
    cli/src/commands/operation/abandon.rs, util/gc.rs, [--ignore-working-copy]
    (may_snapshot_working_copy = may_update_working_copy = false).

    Abstraction: a tree is a number (equal numbers = equal file states; the harness interns
    the sorted (path, content, executable) listings of disks and of commit trees); an
    operation carries its parents and, per workspace, the tree of that workspace's
    working-copy commit; a workspace is (disk, tree recorded in the working-copy state,
    operation recorded in the working-copy state).  Definitions only. *)
From Verif Require Import Base.Prelude Model.C42.
From Coq Require Import Arith.
Import ListNotations.

Record wsst := mk_ws { w_disk : N; w_tree : N; w_op : nat }.
Record opr := mk_op { o_par : list nat; o_wcs : list (N * N) }.
Record state := mk_state {
  s_ops : list opr;             (* operation store, append-only; index = operation *)
  s_heads : list nat;           (* operation heads *)
  s_ws : list (N * wsst);       (* workspaces *)
  s_lost : list nat;            (* operations that can no longer be read (abandoned and collected) *)
}.

Definition opgraph (ops : list opr) : graph := map o_par ops.

Fixpoint lookupN {A} (w : N) (l : list (N * A)) : option A :=
  match l with
  | [] => None
  | (k, x) :: t => if N.eqb k w then Some x else lookupN w t
  end.

Fixpoint set_ws (w : N) (x : wsst) (l : list (N * wsst)) : list (N * wsst) :=
  match l with
  | [] => []
  | (k, y) :: t => if N.eqb k w then (k, x) :: t else (k, y) :: set_ws w x t
  end.

(** Tree of workspace [w]'s working-copy commit in the view of operation [o]. *)
Definition tree_of (ops : list opr) (o : nat) (w : N) : option N :=
  match nth_error ops o with
  | Some op => lookupN w (o_wcs op)
  | None => None
  end.

(** lib/src/working_copy.rs [check_stale], with the repo loaded at [h]. *)
Inductive freshness := FFresh | FUpdated (wc_op : nat) | FStale | FSibling.

Definition check_stale (ops : list opr) (ws : wsst) (h : nat) (w : N) : freshness :=
  let g := opgraph ops in
  if Nat.eqb (w_op ws) h then FFresh
  else if is_anc g h (w_op ws) then FUpdated (w_op ws)
  else if is_anc g (w_op ws) h then
    (if option_eqb N.eqb (tree_of ops h w) (Some (w_tree ws)) then FFresh else FStale)
  else FSibling.

Inductive kind :=
| KNormal                (* any command that loads the workspace in the normal way *)
| KIgnoreWc              (* the same with --ignore-working-copy *)
| KUpdateStale           (* jj workspace update-stale *)
| KWorkspaceAdd (nw : N) (* jj workspace add *)
| KAtOp (x : nat)        (* any command with --at-op=x (x not the head symbol) *)
| KOpAbandon             (* jj op abandon ..@- : the head operation is re-created on the root *)
| KGc                    (* jj util gc --expire=now: unreachable operations become unreadable *)
| KRecoverThen           (* a command with snapshot.auto-update-stale whose working copy's
                            operation is lost: recovery commit, snapshot, then the command *)
| KMerge                 (* first half of a command that finds several operation heads:
                            the "reconcile divergent operations" operation *)
| KEdit.                 (* not a command: the user edits files of the workspace *)

Record event := mk_event {
  e_ws : N;
  e_kind : kind;
  e_status : N;                   (* 0 ok; 1 stale / sibling / unreadable-operation error;
                                     2 other error; 3 panic or internal error *)
  e_ops : list opr;               (* operations added, numbered from [length s_ops] *)
  e_heads : list nat;             (* operation heads afterwards *)
  e_ws_post : list (N * wsst);    (* all workspaces afterwards *)
}.

(** [ops] form a chain on top of [cur]; the first of them has index [idx]. *)
Fixpoint chain_from (cur idx : nat) (ops : list opr) : bool :=
  match ops with
  | [] => true
  | op :: t => list_eqb Nat.eqb (o_par op) [cur] && chain_from idx (S idx) t
  end.

Definition is_nil {A} (l : list A) : bool := match l with [] => true | _ => false end.

(** The snapshot phase of [snapshot_working_copy] with the repo at [L]: if the disk differs
    from the working-copy commit's tree, the first new operation is the snapshot operation
    (child of [L], recording the disk as the workspace's working-copy tree).
    Returns (operation now current, remaining new operations, index of the first of them). *)
Definition snapshot_phase (ops : list opr) (L : nat) (w : N) (d : N) (news : list opr)
  : option (nat * list opr * nat) :=
  let n := length ops in
  if option_eqb N.eqb (tree_of ops L w) (Some d) then Some (L, news, n)
  else match news with
       | sn :: body =>
           if list_eqb Nat.eqb (o_par sn) [L] && option_eqb N.eqb (lookupN w (o_wcs sn)) (Some d)
           then Some (n, body, n + 1) else None
       | [] => None
       end.

(** After the command's own operations ([body], a chain on top of the current operation):
    [finish_transaction] checks the new working-copy commit out and records the last
    operation; without a transaction the snapshot result stays. *)
Definition after_body (allops : list opr) (cur bidx : nat) (body : list opr) (w : N) (d : N)
  : wsst :=
  match body with
  | [] => mk_ws d d cur
  | _ => let last := bidx + length body - 1 in
         match tree_of allops last w with
         | Some t' => mk_ws t' t' last
         | None => mk_ws d d cur        (* workspace no longer in the view: not updated *)
         end
  end.

(** The same without a preceding snapshot: the recorded state is kept unless a checkout
    happens.  The checkout applies the difference between the recorded tree and the new tree
    to the directory: nothing if they are equal, the new tree if the disk equals the recorded
    tree; otherwise edited tracked files are overwritten or deleted and the result is whatever
    was observed ([d_obs]). *)
Definition after_body_nosnap (allops : list opr) (cur bidx : nat) (body : list opr) (w : N)
  (ws : wsst) (d_obs : N) : wsst :=
  match body with
  | [] => ws
  | _ => let last := bidx + length body - 1 in
         match tree_of allops last w with
         | Some t' =>
             mk_ws (if N.eqb t' (w_tree ws) then w_disk ws
                    else if N.eqb (w_disk ws) (w_tree ws) then t' else d_obs) t' last
         | None => ws
         end
  end.

Definition last_op (cur bidx : nat) (body : list opr) : nat :=
  match body with [] => cur | _ => bidx + length body - 1 end.

(** How many of the command's first operations may precede its own work: the snapshot
    operation, and before it the recovery operation when the working copy's operation is
    lost. *)
Definition early_n (ev : event) : nat :=
  match e_kind ev with KUpdateStale | KRecoverThen => 2 | _ => 1 end.

Definition heads_after (st : state) (ev : event) (last : nat) : list nat :=
  if is_nil (e_ops ev) then s_heads st else [last].

(** Result of a step: heads afterwards, the new state of the invoking workspace (if it
    changes) and workspaces that come into existence. *)
Definition res := (list nat * option wsst * list (N * wsst))%type.

(** [jj workspace add]: the command's operations must be exactly two (chain checked by the
    caller): cli/src/commands/workspace/add.rs commits "add workspace" outside
    [finish_transaction] (the invoking workspace keeps its state [keep]); the second operation
    is the initial checkout in the new workspace [nw]. *)
Definition add_workspace (st : state) (allops : list opr) (bidx : nat) (body : list opr) (nw : N)
  (keep : option wsst) : option res :=
  match body with
  | [_; _] =>
      match lookupN nw (s_ws st), tree_of allops (bidx + 1) nw with
      | None, Some t2 => Some ([bidx + 1], keep, [(nw, mk_ws t2 t2 (bidx + 1))])
      | _, _ => None
      end
  | [] => Some (s_heads st, keep, [])
  | _ => None
  end.

(** The invoking workspace is not in the loaded view (l.2098-2104): the snapshot is skipped,
    but a transaction that gives the workspace a working-copy commit still checks it out
    ([update_working_copy] with no old commit). *)
Definition exp_absent (st : state) (ev : event) (h : nat) (ws : wsst) : option res :=
  let ops := s_ops st in
  let w := e_ws ev in
  let allops := ops ++ e_ops ev in
  if chain_from h (length ops) (e_ops ev) && negb (N.eqb (e_status ev) 1) then
    match e_kind ev with
    | KWorkspaceAdd nw =>
        match e_ops ev with
        | [] => Some (s_heads st, None, [])
        | _ => add_workspace st allops (length ops) (e_ops ev) nw None
        end
    | _ =>
        Some (heads_after st ev (last_op h (length ops) (e_ops ev)),
              Some (after_body_nosnap allops h (length ops) (e_ops ev) w ws
                      (match lookupN w (e_ws_post ev) with
                       | Some x => w_disk x | None => w_disk ws end)),
              [])
    end
  else None.

(** The invoking workspace is in the loaded view: freshness check, snapshot, command. *)
Definition exp_present (st : state) (ev : event) (h : nat) (ws : wsst) : option res :=
  let ops := s_ops st in
  let w := e_ws ev in
  let d := w_disk ws in
  let allops := ops ++ e_ops ev in
  if memn (w_op ws) (s_lost st) then
    (* [handle_stale_working_copy]: the working copy's operation cannot be read *)
    (if N.eqb (e_status ev) 1 && is_nil (e_ops ev) then Some ([h], None, []) else None)
  else
  match check_stale ops ws h w with
  | FStale | FSibling =>
      (* the command aborts before touching anything *)
      if N.eqb (e_status ev) 1 && is_nil (e_ops ev) then Some ([h], None, []) else None
  | fr =>
      let L := match fr with FUpdated o => o | _ => h end in
      if N.eqb (e_status ev) 1 then None else
      match snapshot_phase ops L w d (e_ops ev) with
      | None => None
      | Some (cur, body, bidx) =>
          if negb (chain_from cur bidx body) then None else
          match e_kind ev with
          | KWorkspaceAdd nw =>
              match body with
              | [] => Some (heads_after st ev cur, Some (mk_ws d d cur), [])
              | _ => add_workspace st allops bidx body nw (Some (mk_ws d d cur))
              end
          | _ =>
              Some (heads_after st ev (last_op cur bidx body),
                    Some (after_body allops cur bidx body w d), [])
          end
      end
  end.

(** [jj workspace update-stale] ([recover_stale_working_copy_impl]): snapshot on the working
    copy's own operation, then reload: if that leaves several heads (the snapshot operation next
    to the others) they are merged; then the desired commit is checked out if needed. *)
(** The working copy's operation is lost ([recover_stale_working_copy_impl] l.750-762,
    lib/src/working_copy.rs [create_and_check_out_recovery_commit]): a recovery commit is
    created on top of the workspace's commit in the head view (operation [R], same tree), the
    working-copy state is re-pointed at it without touching the disk, and the snapshot that
    follows records everything that is on disk. *)
Definition exp_recover (st : state) (ev : event) (h : nat) (ws : wsst) (with_body : bool)
  : option res :=
  let ops := s_ops st in
  let w := e_ws ev in
  let d := w_disk ws in
  let allops := ops ++ e_ops ev in
  match e_ops ev, tree_of ops h w with
  | R :: rest, Some th =>
      if list_eqb Nat.eqb (o_par R) [h] && option_eqb N.eqb (lookupN w (o_wcs R)) (Some th)
         && N.eqb (e_status ev) 0
      then
        match snapshot_phase (ops ++ [R]) (length ops) w d rest with
        | Some (cur, body, bidx) =>
            if with_body then
              (if chain_from cur bidx body
               then Some ([last_op cur bidx body], Some (after_body allops cur bidx body w d), [])
               else None)
            else if is_nil body then Some ([cur], Some (mk_ws d d cur), []) else None
        | None => None
        end
      else None
  | _, _ => None
  end.

Definition exp_update_stale (st : state) (ev : event) (ws : wsst) : option res :=
  let ops := s_ops st in
  let w := e_ws ev in
  let d := w_disk ws in
  let allops := ops ++ e_ops ev in
  let o := w_op ws in
  if memn o (s_lost st) then
    match s_heads st with [h] => exp_recover st ev h ws false | _ => None end
  else
  match snapshot_phase ops o w d (e_ops ev) with
  | None => None
  | Some (cur, rest, idx) =>
      let heads1 :=
        if Nat.eqb cur o then s_heads st
        else filter (fun k => negb (Nat.eqb k o)) (s_heads st) ++ [cur] in
      (* further operations may follow in a colocated workspace (Git HEAD reset / ref import) *)
      let top :=
        match heads1 with
        | [k] => if chain_from k idx rest then Some (last_op k idx rest) else None
        | _ => match rest with
               | M :: extra =>
                   if seteqn (o_par M) heads1 && chain_from idx (S idx) extra
                   then Some (last_op idx (S idx) extra) else None
               | [] => None
               end
        end in
      match top with
      | None => None
      | Some L' =>
          match tree_of allops L' w with
          | None =>
              (* the workspace is not in the merged view: nothing to check out *)
              Some ([L'], Some (mk_ws d d cur), [])
          | Some desired =>
              match check_stale allops (mk_ws d d cur) L' w with
              | FFresh | FUpdated _ => Some ([L'], Some (mk_ws d d L'), [])
              | FStale | FSibling => Some ([L'], Some (mk_ws desired desired L'), [])
              end
          end
      end
  end.

Definition expected_res (st : state) (ev : event) : option res :=
  let ops := s_ops st in
  let w := e_ws ev in
  match lookupN w (s_ws st) with
  | None => None
  | Some ws =>
    match e_kind ev with
    | KEdit =>
        match lookupN w (e_ws_post ev) with
        | Some ws' =>
            if is_nil (e_ops ev) && N.eqb (w_tree ws') (w_tree ws) && Nat.eqb (w_op ws') (w_op ws)
            then Some (s_heads st, Some ws', []) else None
        | None => None
        end
    | KMerge =>
        (* op_heads_store::resolve_op_heads: several heads are merged into one operation *)
        match s_heads st, e_ops ev with
        | _ :: _ :: _, [M] =>
            if seteqn (o_par M) (s_heads st) then Some ([length ops], None, []) else None
        | _, _ => None
        end
    | KAtOp x =>
        (* loaded at operation [x]: neither snapshot nor checkout; a new operation becomes
           an additional head *)
        if (x <? length ops) && chain_from x (length ops) (e_ops ev)
        then Some (if is_nil (e_ops ev) then s_heads st
                   else filter (fun k => negb (Nat.eqb k x)) (s_heads st)
                        ++ [last_op x (length ops) (e_ops ev)],
                   None, [])
        else None
    | KUpdateStale => exp_update_stale st ev ws
    | KRecoverThen =>
        match s_heads st with
        | [h] => if memn (w_op ws) (s_lost st) then exp_recover st ev h ws true else None
        | _ => None
        end
    | KOpAbandon =>
        (* cli/src/commands/operation/abandon.rs: no snapshot; the head is re-created on the
           root operation with the same view; the invoking workspace's recorded operation is
           remapped if it was the head *)
        match s_heads st with
        | [h] =>
            match e_ops ev with
            | [] => Some ([h], None, [])
            | [H] =>
                if list_eqb Nat.eqb (o_par H) [0]
                   && list_eqb (fun p q => N.eqb (fst p) (fst q) && N.eqb (snd p) (snd q)) (o_wcs H)
                        (match nth_error ops h with Some op => o_wcs op | None => [] end)
                then Some ([length ops],
                           if Nat.eqb (w_op ws) h
                           then Some (mk_ws (w_disk ws) (w_tree ws) (length ops)) else None, [])
                else None
            | _ => None
            end
        | _ => None
        end
    | KIgnoreWc =>
        (* neither snapshot nor checkout *)
        match s_heads st with
        | [h] =>
            if chain_from h (length ops) (e_ops ev)
            then Some (heads_after st ev (last_op h (length ops) (e_ops ev)), None, []) else None
        | _ => None
        end
    | KNormal | KGc | KWorkspaceAdd _ =>
        match s_heads st with
        | [h] =>
            match tree_of ops h w with
            | None => exp_absent st ev h ws
            | Some _ => exp_present st ev h ws
            end
        | _ => None
        end
    end
  end.

Definition apply_res (st : state) (w : N) (r : res) : list nat * list (N * wsst) :=
  match r with
  | (hs, upd, extra) =>
      (hs, match upd with Some x => set_ws w x (s_ws st) | None => s_ws st end ++ extra)
  end.

(** Expected heads and workspaces after the event; [None] = the model forbids the event. *)
Definition expected (st : state) (ev : event) : option (list nat * list (N * wsst)) :=
  match expected_res st ev with
  | Some r => Some (apply_res st (e_ws ev) r)
  | None => None
  end.

Definition wsst_eqb (a b : wsst) : bool :=
  N.eqb (w_disk a) (w_disk b) && N.eqb (w_tree a) (w_tree b) && Nat.eqb (w_op a) (w_op b).
Definition wsl_eqb : list (N * wsst) -> list (N * wsst) -> bool :=
  list_eqb (fun p q => N.eqb (fst p) (fst q) && wsst_eqb (snd p) (snd q)).

(** A command that fails before it loads the workspace (status 2, nothing added) leaves
    everything as it was. *)
Definition early_error (st : state) (ev : event) : bool :=
  N.eqb (e_status ev) 2 && is_nil (e_ops ev)
  && match e_kind ev with KEdit => false | _ => true end
  && list_eqb Nat.eqb (e_heads ev) (s_heads st) && wsl_eqb (e_ws_post ev) (s_ws st).

(** After a successful [jj util gc --expire=now] every operation that is not an ancestor of a
    head is unreadable. *)
Definition lost_after (st : state) (ev : event) : list nat :=
  match e_kind ev with
  | KGc =>
      if N.eqb (e_status ev) 0 then
        let allops := s_ops st ++ e_ops ev in
        filter (fun i => negb (existsb (fun h => is_anc (opgraph allops) i h) (e_heads ev)))
               (seq 0 (length allops))
      else s_lost st
  | _ => s_lost st
  end.

Definition accept (st : state) (ev : event) : option state :=
  let ok :=
    negb (N.eqb (e_status ev) 3) &&
    (early_error st ev
    || match expected st ev with
       | Some (hs, wsl) =>
           wf_from (map o_par (e_ops ev)) (length (s_ops st))
           && list_eqb Nat.eqb (e_heads ev) hs && wsl_eqb (e_ws_post ev) wsl
       | None => false
       end) in
  if ok then Some (mk_state (s_ops st ++ e_ops ev) (e_heads ev) (e_ws_post ev) (lost_after st ev))
  else None.

Fixpoint run (st : state) (evs : list event) : option state :=
  match evs with
  | [] => Some st
  | ev :: t => match accept st ev with Some st' => run st' t | None => None end
  end.

(** * The direct oracle on the observations *)

(** [recorded rec bound w d]: some operation with index below [bound] has a working-copy
    commit for workspace [w] whose tree is [d].  [rec] is enumerated from the real operation
    log at the end of the session. *)
Definition recorded (rec : list (nat * N * N)) (bound : nat) (w : N) (d : N) : bool :=
  existsb (fun p => match p with (i, w', d') => (i <? bound) && N.eqb w' w && N.eqb d' d end) rec.

(** The known class [workspace-absent-from-view]: the invoking workspace is not in the view
    of the operation the command loads. *)
Definition absent_from_view (st : state) (w : N) : bool :=
  match s_heads st with
  | [h] => match tree_of (s_ops st) h w with None => true | Some _ => false end
  | _ => false
  end.

(** Commands that snapshot the invoking workspace. *)
Definition snap_kind (k : kind) : bool :=
  match k with
  | KNormal | KGc | KRecoverThen | KWorkspaceAdd _ | KUpdateStale => true
  | _ => false
  end.

(** One event: every workspace whose disk changed during a command, and the invoking workspace
    of every successful command that snapshots, had its disk state recorded by an operation
    that exists when the command ends.  [st] is the observed state before the event. *)
Definition event_okb (strict : bool) (rec : list (nat * N * N)) (st : state) (ev : event) : bool :=
  match e_kind ev with
  | KEdit => true
  | k =>
      forallb (fun w =>
        match lookupN w (s_ws st) with
        | None => true
        | Some ws =>
          let d := w_disk ws in
          let changed := match lookupN w (e_ws_post ev) with
                         | Some ws' => negb (N.eqb (w_disk ws') d)
                         | None => true
                         end in
          let snapshotted := N.eqb w (e_ws ev) && N.eqb (e_status ev) 0
                             && negb (absent_from_view st w)
                             && snap_kind k in
          negb (changed || snapshotted)
          || recorded rec (length (s_ops st) + length (e_ops ev)) w d
          || (negb strict && N.eqb w (e_ws ev) && absent_from_view st w)
        end) (map fst (s_ws st))
      (* a panic or internal error of the command is never acceptable *)
      && negb (N.eqb (e_status ev) 3)
  end.

Fixpoint run_okb (strict : bool) (rec : list (nat * N * N)) (st : state) (evs : list event) : bool :=
  match evs with
  | [] => true
  | ev :: t => event_okb strict rec st ev
               && run_okb strict rec (mk_state (s_ops st ++ e_ops ev) (e_heads ev) (e_ws_post ev) (lost_after st ev)) t
  end.

(** * Correspondence case: one CLI session *)
Record case := mk_case {
  c_init : state;
  c_events : list event;
  c_recorded : list (nat * N * N);   (* (operation, workspace, tree) over the whole final op log *)
  c_exempt : bool;                   (* session ended early: a working-copy commit became conflicted *)
}.

Definition okb (c : case) : bool := run_okb true (c_recorded c) (c_init c) (c_events c).
Definition known_class (c : case) : bool :=
  negb (okb c) && run_okb false (c_recorded c) (c_init c) (c_events c).

Fixpoint first_reject (st : state) (evs : list event) (i : N) : N :=
  match evs with
  | [] => 0
  | ev :: t => match accept st ev with Some st' => first_reject st' t (i + 1) | None => i + 1 end
  end.

(** All (operation, workspace, tree) triples of an operation list. *)
Fixpoint triples_from (i : nat) (ops : list opr) : list (nat * N * N) :=
  match ops with
  | [] => []
  | op :: t => map (fun p => (i, fst p, snd p)) (o_wcs op) ++ triples_from (S i) t
  end.
Definition triple_eqb (p q : nat * N * N) : bool :=
  match p, q with (i, w, d), (j, w', d') => Nat.eqb i j && N.eqb w w' && N.eqb d d' end.
Definition subset_t (a b : list (nat * N * N)) : bool :=
  forallb (fun x => existsb (triple_eqb x) b) a.

Definition check_case (c : case) : N :=
  let init_ok := wf_from (map o_par (s_ops (c_init c))) 0 in
  let corr :=
    init_ok &&
    match run (c_init c) (c_events c) with
    | Some st => let tr := triples_from 0 (s_ops st) in
                 subset_t tr (c_recorded c) && subset_t (c_recorded c) tr
    | None => false
    end in
  let p := okb c in
  (* A lost state inside the known class is reported as known only if the model accepts the
     whole trace; if the model rejects the trace, the case is reported as a correspondence
     break (never as a violation with a failing input: the only rejected observations are
     inside the known class). *)
  let k := known_class c in
  verdict corr (p || k) (k && corr)
          (if p || k then first_reject (c_init c) (c_events c) 0 else 100).
