(** Executable model of the view / mutable-repo state machine shared by C10 and C11.
    Definitions only (proofs live in Proofs/C10*.v, Proofs/C11*.v).

    Transcribed from lib/src/view.rs (View: heads set, local bookmarks, wc map,
    head_normalized flag, normalize_heads), lib/src/repo.rs (MutableRepo: add_heads with
    the replace_heads fast path, set_local_bookmark_target, edit / check_out /
    maybe_abandon_wc_commit / remove_workspace, parent_mapping and its record functions,
    rewritten_ids_with / new_parents, resolve_rewrite_mapping_with, find_descendants_for_rebase,
    order_commits_for_rebase, transform_commits, rebase_descendants_with_options,
    update_local_bookmarks / update_wc_commits / update_heads), lib/src/refs.rs
    (merge_ref_targets), lib/src/rewrite.rs (rebase_commit_with_options at the graph level),
    lib/src/commit_builder.rs (write: add_head, predecessors, rewrite record),
    core/src/dag_walk.rs (topo_order_forward) and lib/src/transaction.rs (write: asserts no
    pending rewrites, consume = normalize_heads).

    Commit ids are positions in the graph (creation order; the root commit is position 0).
    Trees are out of scope: a commit carries the flag [c_empty] (= Commit::is_empty as the
    implementation computes it); the two tree-dependent facts of descendant rebasing (the
    emptiness policy abandoned a commit; a rebased copy changed emptiness) are inputs recorded
    from the implementation ([o_oracle]), every theorem quantifies over them. *)
From Verif Require Import Base.Prelude Base.DagV Model.Merge.
From Coq Require Import Arith.

(** * Data *)

Record commit := mk_commit {
  c_parents : list nat;
  c_change : N;         (* change id: position of the first commit of the change *)
  c_desc : N;           (* description number; 0 = empty description *)
  c_empty : bool;       (* no change relative to the (merged) parents *)
  c_preds : list nat;   (* predecessors recorded by the creating transaction *)
}.
Definition graph := list commit.
Definition root_commit := mk_commit [] 0 0 true [].
Definition getc (G : graph) (i : nat) : commit := nth i G root_commit.
Definition pg (G : graph) : dag := map c_parents G.
Definition discardable (c : commit) : bool := N.eqb (c_desc c) 0 && c_empty c.

(** RefTarget = Merge<Option<CommitId>> as its term vector (adds at even positions);
    [[None]] is the absent target. *)
Definition target := list (option nat).
Definition oeqb : option nat -> option nat -> bool := option_eqb Nat.eqb.
Definition target_eqb : target -> target -> bool := list_eqb oeqb.
Definition absent_target : target := [None].
Definition is_absent (t : target) : bool := match t with [None] => true | _ => false end.
Fixpoint somes (l : list (option nat)) : list nat :=
  match l with [] => [] | Some x :: t => x :: somes t | None :: t => somes t end.
Definition added_ids (t : target) : list nat := somes (evens t).
Definition removed_ids (t : target) : list nat := somes (odds t).

Record view := mk_view {
  v_heads : list nat;               (* canonical (sorted, duplicate-free) set *)
  v_bms : list (N * target);        (* sorted by name; absent targets are not stored *)
  v_wcs : list (N * nat);           (* sorted by workspace name *)
  v_norm : bool;                    (* View::head_normalized *)
}.

Inductive rewrite :=
| Rewritten (n : nat)
| Divergent (l : list nat)
| Abandoned (l : list nat).
Definition new_parent_ids (r : rewrite) : list nat :=
  match r with Rewritten n => [n] | Divergent l => l | Abandoned l => l end.
Definition is_abandoned (r : option rewrite) : bool :=
  match r with Some (Abandoned _) => true | _ => false end.
Definition is_divergent (r : rewrite) : bool :=
  match r with Divergent _ => true | _ => false end.

Record state := mk_state {
  s_g : graph;
  s_v : view;
  s_pm : list (nat * rewrite);      (* parent_mapping, sorted by key *)
}.

Inductive res (A : Type) :=
| Ok (a : A)
| Err          (* the implementation returns an error *)
| Panic        (* the implementation panics (assertion) *)
| Fuel.        (* model fuel exhausted (never, see Proofs) *)
Arguments Ok {A} a. Arguments Err {A}. Arguments Panic {A}. Arguments Fuel {A}.
Definition bind {A B} (r : res A) (f : A -> res B) : res B :=
  match r with Ok a => f a | Err => Err | Panic => Panic | Fuel => Fuel end.
Notation "'do' x <- r ; k" := (bind r (fun x => k)) (at level 200, x pattern, r at level 100, k at level 200).

(** * Sorted association lists *)
Section Assoc.
  Context {K V : Type} (keqb kltb : K -> K -> bool).
  Fixpoint aget (k : K) (l : list (K * V)) : option V :=
    match l with [] => None | (k', v) :: t => if keqb k k' then Some v else aget k t end.
  Fixpoint aset (k : K) (v : V) (l : list (K * V)) : list (K * V) :=
    match l with
    | [] => [(k, v)]
    | (k', v') :: t =>
        if keqb k k' then (k, v) :: t
        else if kltb k k' then (k, v) :: l
        else (k', v') :: aset k v t
    end.
  Fixpoint adel (k : K) (l : list (K * V)) : list (K * V) :=
    match l with [] => [] | (k', v') :: t => if keqb k k' then adel k t else (k', v') :: adel k t end.
End Assoc.

Definition pm_get (pm : list (nat * rewrite)) (k : nat) : option rewrite := aget Nat.eqb k pm.
Definition pm_set (k : nat) (r : rewrite) pm : list (nat * rewrite) := aset Nat.eqb Nat.ltb k r pm.
Definition pm_keys (pm : list (nat * rewrite)) : list nat := map fst pm.
Definition bm_get (v : view) (name : N) : target :=
  match aget N.eqb name (v_bms v) with Some t => t | None => absent_target end.
Definition wc_get (v : view) (ws : N) : option nat := aget N.eqb ws (v_wcs v).

Definition set_heads (v : view) (hs : list nat) (norm : bool) : view :=
  mk_view hs (v_bms v) (v_wcs v) norm.
Definition set_view (s : state) (v : view) : state := mk_state (s_g s) v (s_pm s).
Definition set_pm (s : state) pm : state := mk_state (s_g s) (s_v s) pm.

(** * View::normalize_heads (view.rs:645-669); the root commit is position 0 *)
Definition normalize_view (g : dag) (v : view) : view :=
  if v_norm v then v
  else
    let hs :=
      match v_heads v with
      | [] => [0]
      | [h] => [h]
      | hs => heads_of g (remn 0 hs)
      end in
    set_heads v hs true.
Definition normalize (s : state) : state := set_view s (normalize_view (pg (s_g s)) (s_v s)).

(** * View::add_head / remove_head / replace_heads (view.rs:151-172) *)
Definition view_add_head (v : view) (h : nat) : view := set_heads v (ins h (v_heads v)) false.
Definition view_replace_heads (v : view) (h : nat) (rm : list nat) : view :=
  set_heads v (fold_left (fun hs p => remn p hs) rm (ins h (v_heads v))) (v_norm v).

(** * MutableRepo::add_heads (repo.rs:1697-1730): the commits already exist in the graph.
    The incremental path is taken for a single commit that has parents, all of them heads. *)
Definition is_nil {A} (l : list A) : bool := match l with [] => true | _ => false end.
Definition add_heads (s : state) (hs : list nat) : state :=
  let v := s_v s in
  match hs with
  | [] => s
  | [h] =>
      let ps := c_parents (getc (s_g s) h) in
      if negb (is_nil ps) && forallb (fun p => memn p (v_heads v)) ps
      then set_view s (view_replace_heads v h ps)
      else set_view s (view_add_head v h)
  | _ => set_view s (fold_left view_add_head hs v)
  end.
(** The guard before the repair 3daac52 of /repo: vacuously true for the root commit. *)
Definition add_heads_old (s : state) (hs : list nat) : state :=
  let v := s_v s in
  match hs with
  | [] => s
  | [h] =>
      let ps := c_parents (getc (s_g s) h) in
      if forallb (fun p => memn p (v_heads v)) ps
      then set_view s (view_replace_heads v h ps)
      else set_view s (view_add_head v h)
  | _ => set_view s (fold_left view_add_head hs v)
  end.

(** * CommitBuilder::write (commit_builder.rs:398-426): store the commit, add_head, record the
    rewrite when the builder came from rewrite_commit *)
Definition write_commit (s : state) (c : commit) (source : option nat) : state * nat :=
  let n := length (s_g s) in
  let s1 := add_heads (mk_state (s_g s ++ [c]) (s_v s) (s_pm s)) [n] in
  let s2 := match source with
            | Some old => set_pm s1 (pm_set old (Rewritten n) (s_pm s1))
            | None => s1
            end in
  (s2, n).

(** * MutableRepo::set_local_bookmark_target (repo.rs:1786-1791, view.rs:211-225) *)
Definition set_local_bookmark_target (s : state) (name : N) (t : target) : state :=
  let v1 := fold_left view_add_head (added_ids t) (s_v s) in
  let bms := if is_absent t then adel N.eqb name (v_bms v1) else aset N.eqb N.ltb name t (v_bms v1) in
  set_view s (mk_view (v_heads v1) bms (v_wcs v1) (v_norm v1)).

(** * maybe_abandon_wc_commit (repo.rs:1644-1683) *)
Definition wc_referenced (v : view) (ws : N) (c : nat) : bool :=
  existsb (fun p => negb (N.eqb (fst p) ws) && Nat.eqb (snd p) c) (v_wcs v)
  || existsb (fun p => memn c (added_ids (snd p))) (v_bms v).

Definition maybe_abandon_wc_commit (s : state) (ws : N) : state :=
  match wc_get (s_v s) ws with
  | None => s
  | Some w =>
      let s1 := normalize s in
      let c := getc (s_g s1) w in
      if discardable c && negb (wc_referenced (s_v s1) ws w) && memn w (v_heads (s_v s1))
      then set_pm s1 (pm_set w (Abandoned (c_parents c)) (s_pm s1))
      else s1
  end.

(** * edit / check_out / remove_workspace (repo.rs:1566-1642); [None] = RewriteRootCommit error,
    raised after the heads were already touched *)
Definition edit (s : state) (ws : N) (c : nat) : option state :=
  let s1 := maybe_abandon_wc_commit s ws in
  let s2 := add_heads s1 [c] in
  if Nat.eqb c 0 then None
  else
    let v := s_v s2 in
    Some (set_view s2 (mk_view (v_heads v) (v_bms v) (aset N.eqb N.ltb ws c (v_wcs v)) (v_norm v))).

Definition fresh_commit (G : graph) (ps : list nat) (desc : N) (empty : bool) : commit :=
  mk_commit ps (N.of_nat (length G)) desc empty [].

Definition check_out (s : state) (ws : N) (c : nat) : option state :=
  let '(s1, n) := write_commit s (fresh_commit (s_g s) [c] 0 true) None in
  edit s1 ws n.

Definition remove_workspace (s : state) (ws : N) : state :=
  let s1 := maybe_abandon_wc_commit s ws in
  let v := s_v s1 in
  set_view s1 (mk_view (v_heads v) (v_bms v) (adel N.eqb ws (v_wcs v)) (v_norm v)).

(** * rewritten_ids_with / new_parents (repo.rs:1097-1147) *)
Definition pm_filtered (pm : list (nat * rewrite)) (pred : rewrite -> bool) (k : nat) : option rewrite :=
  match pm_get pm k with Some r => if pred r then Some r else None | None => None end.

Fixpoint rw_ids (fuel : nat) (pm : list (nat * rewrite)) (pred : rewrite -> bool)
    (to_visit visited new_ids : list nat) : res (list nat) :=
  match fuel with
  | O => Fuel
  | S f =>
      match to_visit with
      | [] => if match new_ids with [] => true | _ => false end then Panic else Ok (rev new_ids)
      | id :: rest =>
          if memn id visited then rw_ids f pm pred rest visited new_ids
          else
            match pm_filtered pm pred id with
            | None => rw_ids f pm pred rest (id :: visited) (id :: new_ids)
            | Some r =>
                match new_parent_ids r with
                | [] => Panic
                | reps => rw_ids f pm pred (reps ++ rest) (id :: visited) new_ids
                end
            end
      end
  end.
Definition pm_size (pm : list (nat * rewrite)) : nat :=
  fold_right (fun p acc => length (new_parent_ids (snd p)) + acc) 0 pm.
Definition rewritten_ids_with pm pred (old_ids : list nat) : res (list nat) :=
  match old_ids with
  | [] => Panic
  | _ => rw_ids (S (length old_ids + pm_size pm)) pm pred old_ids [] []
  end.
Definition not_divergent (r : rewrite) : bool := negb (is_divergent r).
Definition new_parents pm (old_ids : list nat) : res (list nat) :=
  rewritten_ids_with pm not_divergent old_ids.

(** * dag_walk::topo_order_forward (core/src/dag_walk.rs:103-140): iterative post-order DFS.
    The neighbour function may carry state (order_commits_for_rebase's [visited] set).
    [Err] = cycle. The stack is kept top first. *)
Section Topo.
  Context {St : Type} (nb : St -> nat -> St * list nat).
  Fixpoint topo_loop (fuel : nat) (st : St) (stack : list (nat * bool))
      (visiting emitted result : list nat) : res (list nat) :=
    match fuel with
    | O => Fuel
    | S f =>
        match stack with
        | [] => Ok (rev result)
        | (id, nv) :: rest =>
            if memn id emitted then topo_loop f st rest visiting emitted result
            else if nv then topo_loop f st rest (remn id visiting) (id :: emitted) (id :: result)
            else if memn id visiting then Err
            else
              let '(st', ns) := nb st id in
              topo_loop f st' (rev_append (map (fun n => (n, false)) ns) ((id, true) :: rest))
                        (id :: visiting) emitted result
        end
    end.
  (** [start] in the order of the Rust iterator (the last element is popped first). *)
  Definition topo_order_forward (fuel : nat) (st : St) (start : list nat) : res (list nat) :=
    topo_loop fuel st (rev (map (fun n => (n, false)) start)) [] [] [].
End Topo.

(** * resolve_rewrite_mapping_with (repo.rs:1152-1186) *)
Fixpoint dedup (l : list nat) (seen : list nat) : list nat :=
  match l with
  | [] => []
  | x :: t => if memn x seen then dedup t seen else x :: dedup t (x :: seen)
  end.
Definition list_nat_eqb : list nat -> list nat -> bool := list_eqb Nat.eqb.

Definition resolve_rewrite_mapping pm (pred : rewrite -> bool) : res (list (nat * list nat)) :=
  let nb (_ : unit) (id : nat) :=
    (tt, match pm_filtered pm pred id with Some r => new_parent_ids r | None => [] end) in
  let fuel := S (2 * (length pm + pm_size pm) + length pm + pm_size pm) in
  do sorted_ids <- topo_order_forward nb fuel tt (pm_keys pm);
  fold_left
    (fun (acc : res (list (nat * list nat))) old =>
       do m <- acc;
       match pm_filtered pm pred old with
       | None => Ok m
       | Some r =>
           let lookup id := match aget Nat.eqb id m with Some ids => ids | None => [id] end in
           let new_ids :=
             match new_parent_ids r with
             | [id] => lookup id
             | ids => dedup (flat_map lookup ids) []
             end in
           (* debug_assert_eq!(new_ids, rewritten_ids_with([old])) *)
           match rewritten_ids_with pm pred [old] with
           | Ok ids' => if list_nat_eqb new_ids ids' then Ok (aset Nat.eqb Nat.ltb old new_ids m) else Panic
           | Err => Err | Panic => Panic | Fuel => Fuel
           end
       end)
    sorted_ids (Ok []).

(** * merge_ref_targets (refs.rs:108-196) *)
Definition vec_swap_remove {A} (i : nat) (l : list A) : list A :=
  match rev l with
  | [] => l
  | lastx :: _ =>
      let l' := removelast l in
      if Nat.eqb i (length l') then l' else set_nth i lastx l'
  end.
Definition merge_swap_remove {A} (remove_index add_index : nat) (l : list A) : list A :=
  vec_swap_remove (remove_index * 2 + 1) (vec_swap_remove (add_index * 2) l).

Fixpoint find_index {A} (f : A -> bool) (l : list A) (i : nat) : option nat :=
  match l with [] => None | x :: t => if f x then Some i else find_index f t (S i) end.

Definition pair_choice (g : dag) (i1 : nat) (a1 : option nat) (i2 : nat) (a2 : option nat)
  : option (nat * nat) :=
  match a1, a2 with
  | Some id1, Some id2 =>
      if Nat.eqb id1 id2 then Some (i1, id1)
      else if ancb g id1 id2 then Some (i1, id1)
      else if ancb g id2 id1 then Some (i2, id2)
      else None
  | _, _ => None
  end.

Fixpoint find_pair_inner (g : dag) (rem : list (option nat)) (i1 : nat) (a1 : option nat)
    (rest : list (option nat)) (i2 : nat) : option (nat * nat) :=
  match rest with
  | [] => None
  | a2 :: t =>
      match
        match pair_choice g i1 a1 i2 a2 with
        | Some (ai, aid) =>
            match find_index (fun r => match r with Some id => ancb g id aid | None => true end) rem 0 with
            | Some ri => Some (ri, ai)
            | None => None
            end
        | None => None
        end
      with
      | Some p => Some p
      | None => find_pair_inner g rem i1 a1 t (S i2)
      end
  end.
Fixpoint find_pair_outer (g : dag) (rem : list (option nat)) (adds_l : list (option nat)) (i1 : nat)
  : option (nat * nat) :=
  match adds_l with
  | [] => None
  | a1 :: t =>
      match find_pair_inner g rem i1 a1 t (S i1) with
      | Some p => Some p
      | None => find_pair_outer g rem t (S i1)
      end
  end.
Definition find_pair_to_remove (g : dag) (m : target) : option (nat * nat) :=
  find_pair_outer g (odds m) (evens m) 0.
Fixpoint non_trivial_loop (fuel : nat) (g : dag) (m : target) : target :=
  match fuel with
  | O => m
  | S f =>
      match find_pair_to_remove g m with
      | Some (ri, ai) => non_trivial_loop f g (merge_swap_remove ri ai m)
      | None => m
      end
  end.

Definition merge_ref_targets (g : dag) (left base right : target) : target :=
  match trivial_merge target_eqb true [left; base; right] with
  | Some t => t
  | None =>
      let m := simplify oeqb (flatten [left; base; right]) in
      match trivial_merge oeqb true m with
      | Some v => [v]
      | None => non_trivial_loop (length m) g m
      end
  end.

Definition merge_local_bookmark (s : state) (name : N) (base other : target) : state :=
  let t := merge_ref_targets (pg (s_g s)) (bm_get (s_v s) name) base other in
  set_local_bookmark_target s name t.

(** * update_local_bookmarks (repo.rs:1211-1245) *)
Fixpoint intersperse {A} (l : list A) (sep : A) : list A :=
  match l with
  | [] => []
  | [x] => [x]
  | x :: t => x :: sep :: intersperse t sep
  end.

Definition update_local_bookmarks (s : state) (mapping : list (nat * list nat)) (delete_abandoned : bool)
  : res state :=
  let changed :=
    flat_map (fun p : N * target =>
      flat_map (fun id => match aget Nat.eqb id mapping with
                          | Some nids => [(fst p, id, nids)]
                          | None => []
                          end) (added_ids (snd p))) (v_bms (s_v s)) in
  fold_left
    (fun (acc : res state) (ch : N * nat * list nat) =>
       do s1 <- acc;
       let '(name, old, nids) := ch in
       let should_delete := delete_abandoned && is_abandoned (pm_get (s_pm s1) old) in
       if should_delete then Ok (merge_local_bookmark s1 name [Some old] absent_target)
       else match nids with
            | [] => Panic      (* Merge::from_vec of an even number of terms *)
            | _ => Ok (merge_local_bookmark s1 name [Some old] (intersperse (map Some nids) (Some old)))
            end)
    changed (Ok s).

(** * update_wc_commits (repo.rs:1247-1297) *)
Definition update_wc_commits (s : state) (mapping : list (nat * list nat)) : res state :=
  let changed :=
    flat_map (fun p : N * nat => match aget Nat.eqb (snd p) mapping with
                                 | Some nids => [(fst p, snd p, nids)]
                                 | None => []
                                 end) (v_wcs (s_v s)) in
  do r <-
    fold_left
      (fun (acc : res (state * list (nat * nat))) (ch : N * nat * list nat) =>
         do sr <- acc;
         let '(s1, recreated) := sr in
         let '(ws, old, nids) := ch in
         do sw <-
           (if negb (is_abandoned (pm_get (s_pm s1) old)) then
              match nids with [] => Panic | n :: _ => Ok (s1, recreated, n) end
            else match aget Nat.eqb old recreated with
                 | Some c => Ok (s1, recreated, c)
                 | None =>
                     match nids with
                     | [] => Panic      (* new_commit asserts non-empty parents *)
                     | _ =>
                         let '(s2, n) := write_commit s1 (fresh_commit (s_g s1) nids 0 true) None in
                         Ok (s2, aset Nat.eqb Nat.ltb old n recreated, n)
                     end
                 end);
         let '(s2, recreated2, new_wc) := sw in
         match edit s2 ws new_wc with
         | Some s3 => Ok (s3, recreated2)
         | None => Panic     (* "unexpected error" *)
         end)
      changed (Ok (s, []));
  Ok (fst r).

(** * update_heads (repo.rs:1299-1323) *)
Definition update_heads (s : state) : state :=
  let g := pg (s_g s) in
  let keys := pm_keys (s_pm s) in
  let vis := ancs g (v_heads (s_v s)) in
  let old := filter (fun k => memn k vis) keys in
  let to_add := filter (fun p => negb (memn p old)) (flat_map (parents g) old) in
  let hs := fold_left (fun hs k => remn k hs) keys (v_heads (s_v s)) in
  let hs' := fold_left (fun hs p => ins p hs) to_add hs in
  normalize (set_view s (set_heads (s_v s) hs' false)).

(** * update_rewritten_references (repo.rs:1190-1209) *)
Definition update_rewritten_references (s : state) (delete_abandoned : bool) : res state :=
  do mapping <- resolve_rewrite_mapping (s_pm s) (fun _ => true);
  do s1 <- update_local_bookmarks s mapping delete_abandoned;
  do s2 <- update_wc_commits s1 mapping;
  Ok (update_heads s2).

(** * find_descendants_for_rebase (repo.rs:1327-1347): visible descendants of the keys, minus the
    immutable set, minus the keys; ascending positions (the revset stream is descending and the
    caller pops from the end) *)
Fixpoint desc_marks (g : dag) (roots : list nat) (i : nat) (rest : dag) (marked : list nat) : list nat :=
  match rest with
  | [] => marked
  | ps :: t =>
      let m := if memn i roots || existsb (fun p => memn p marked) ps then i :: marked else marked in
      desc_marks g roots (S i) t m
  end.
Definition descendants_of (g : dag) (roots : list nat) : list nat := desc_marks g roots 0 g [].
Definition find_descendants_for_rebase (s : state) (imm : list nat) : list nat :=
  let g := pg (s_g s) in
  let keys := pm_keys (s_pm s) in
  (* `x::` resolves to the dag range roots::(visible heads + every commit literal of the
     expression) (revset.rs: resolve_visible_heads_or_referenced): the keys and the immutable
     literal count as heads of the range even when hidden *)
  let vis := ancs g (v_heads (s_v s) ++ keys ++ imm) in
  let desc := descendants_of g keys in
  filter (fun x => memn x desc && memn x vis && negb (memn x imm) && negb (memn x keys))
         (seq 0 (length g)).

(** * order_commits_for_rebase (repo.rs:1351-1403), new_parents_map empty.
    For every parent the replacements are followed transitively (worklist [replaced_ids] with a
    [seen] set, popped from the end): every target reached that is to be rebased and whose
    neighbours were not computed yet becomes a dependent; then the parent itself if it is to be
    rebased. [stack] is kept top first; [deps_rev] collects the dependents in reverse. *)
Fixpoint repl_walk (fuel : nat) (pm : list (nat * rewrite)) (keep : nat -> bool)
    (stack seen deps_rev : list nat) : list nat :=
  match fuel with
  | O => rev deps_rev
  | S f =>
      match stack with
      | [] => rev deps_rev
      | id :: rest =>
          if memn id seen then repl_walk f pm keep rest seen deps_rev
          else
            match pm_get pm id with
            | Some r =>
                let ts := new_parent_ids r in
                repl_walk f pm keep (rev ts ++ rest) (id :: seen) (rev_append (filter keep ts) deps_rev)
            | None => repl_walk f pm keep rest (id :: seen) deps_rev
            end
      end
  end.
Definition repl_fuel (pm : list (nat * rewrite)) : nat := S (S (S (pm_size pm + pm_size pm))).
Definition oc_deps (G : graph) pm (T visited : list nat) (x : nat) : list nat :=
  flat_map (fun p =>
      repl_walk (repl_fuel pm) pm (fun t => memn t T && negb (memn t visited)) [p] [] []
      ++ (if memn p T then [p] else []))
    (c_parents (getc G x)).
(** The relation before the repair ad3bc19 of /repo (direct replacements only). *)
Definition oc_deps_old (G : graph) pm (T visited : list nat) (x : nat) : list nat :=
  flat_map (fun p =>
      (match pm_get pm p with
       | Some r => filter (fun t => memn t T && negb (memn t visited)) (new_parent_ids r)
       | None => []
       end) ++ (if memn p T then [p] else []))
    (c_parents (getc G x)).
Definition oc_nb_with (deps : graph -> list (nat * rewrite) -> list nat -> list nat -> nat -> list nat)
    (G : graph) pm (T : list nat) (visited : list nat) (x : nat) : list nat * list nat :=
  let visited' := x :: visited in (visited', deps G pm T visited' x).
Definition oc_fuel (G : graph) pm (T : list nat) : nat :=
  S (length T + fold_right (fun x acc =>
        S (length (c_parents (getc G x)) * S (S (pm_size pm))) + acc) 0 T + length T).
(** Result: the order in which transform_commits processes the commits. [Err] (cycle) is a panic
    in the implementation. [T] ascending. *)
Definition order_commits_with deps (G : graph) pm (T : list nat) : res (list nat) :=
  match topo_order_forward (oc_nb_with deps G pm T) (oc_fuel G pm T) [] (rev T) with
  | Err => Panic
  | r => r
  end.
Definition order_commits_for_rebase := order_commits_with oc_deps.
Definition order_commits_for_rebase_old := order_commits_with oc_deps_old.

(** * rebase_descendants_with_options (repo.rs:1496-1520) with transform_commits (1448-1477) and
    rebase_commit_with_options (rewrite.rs:467-492) at the graph level *)
Record rebase_opts := mk_opts {
  o_imm : list nat;          (* immutable set *)
  o_empty : N;               (* 0 Keep, 1 AbandonNewlyEmpty, 2 AbandonAllEmpty *)
  o_delete_abandoned : bool; (* RewriteRefsOptions::delete_abandoned_bookmarks *)
  o_simplify : bool;         (* simplify_ancestor_merge *)
  o_oracle : list (nat * N); (* tree-dependent facts taken from the implementation (trees are out of
                                scope), per old commit: 1 = the emptiness policy abandoned it,
                                2 = its rebased copy changed emptiness; absent = neither *)
}.

Definition rebase_one (s : state) (o : rebase_opts) (x : nat) : res state :=
  let c := getc (s_g s) x in
  do np <- new_parents (s_pm s) (c_parents c);
  if list_nat_eqb np (c_parents c) then Ok s
  else
    let np' := if o_simplify o
               then let hs := heads_of (pg (s_g s)) np in filter (fun p => memn p hs) np
               else np in
    let orc := match aget Nat.eqb x (o_oracle o) with Some k => k | None => 0%N end in
    let should_abandon :=
      match np' with
      | [_] => negb (N.eqb (o_empty o) 0) && N.eqb orc 1   (* only single-parent commits; never under Keep *)
      | _ => false
      end in
    let empty' := if N.eqb orc 2 then negb (c_empty c) else c_empty c in
    if should_abandon then Ok (set_pm s (pm_set x (Abandoned np') (s_pm s)))
    else Ok (fst (write_commit s (mk_commit np' (c_change c) (c_desc c) empty' [x]) (Some x))).

Definition rebase_fold (o : rebase_opts) (order : list nat) (s : state) : res state :=
  fold_left (fun (acc : res state) x => do s0 <- acc; rebase_one s0 o x) order (Ok s).
(** The loop of transform_commits, before the references are updated; [ord] is the ordering
    function (the current one, or the one before the repair for the refutation witness). *)
Definition rebase_loop_with (ord : graph -> list (nat * rewrite) -> list nat -> res (list nat))
    (s : state) (o : rebase_opts) : res state :=
  let T := find_descendants_for_rebase s (o_imm o) in
  do order <- ord (s_g s) (s_pm s) T;
  rebase_fold o order s.
Definition rebase_descendants_with ord (s : state) (o : rebase_opts) : res state :=
  do s1 <- rebase_loop_with ord s o;
  do s2 <- update_rewritten_references s1 (o_delete_abandoned o);
  Ok (set_pm s2 []).
Definition rebase_loop := rebase_loop_with order_commits_for_rebase.
Definition rebase_descendants := rebase_descendants_with order_commits_for_rebase.
Definition rebase_descendants_old := rebase_descendants_with order_commits_for_rebase_old.

(** * Operations driven by the harness *)
Inductive op :=
| ONew (ps : list nat) (desc : N) (empty : bool)
| OAddHeads (hs : list nat)
| OSetBookmark (name : N) (t : target)
| OEdit (ws : N) (c : nat)
| OCheckOut (ws : N) (c : nat)
| ORemoveWs (ws : N)
| ORewrite (old : nat) (ps : option (list nat)) (desc : N)
| OAbandon (old : nat)
| OAbandonWith (old : nat) (ps : list nat)
| OSetRewritten (old new : nat)
| ODivergent (old : nat) (news : list nat)
| ORebase (o : rebase_opts)
| OCommit.

Definition of_option {A} (o : option A) : res A := match o with Some a => Ok a | None => Err end.

Definition step (s : state) (o : op) : res state :=
  match o with
  | ONew ps desc empty =>
      match ps with [] => Panic | _ => Ok (fst (write_commit s (fresh_commit (s_g s) ps desc empty) None)) end
  | OAddHeads hs => Ok (add_heads s hs)
  | OSetBookmark name t => Ok (set_local_bookmark_target s name t)
  | OEdit ws c => of_option (edit s ws c)
  | OCheckOut ws c => of_option (check_out s ws c)
  | ORemoveWs ws => Ok (remove_workspace s ws)
  | ORewrite old ps desc =>
      let c := getc (s_g s) old in
      let ps' := match ps with Some l => l | None => c_parents c end in
      if Nat.eqb old 0 then Panic
      else match ps' with
           | [] => Panic     (* CommitBuilder::set_parents asserts a non-empty list *)
           | _ => Ok (fst (write_commit s (mk_commit ps' (c_change c) desc (c_empty c) [old]) (Some old)))
           end
  | OAbandon old =>
      if Nat.eqb old 0 then Panic
      else Ok (set_pm s (pm_set old (Abandoned (c_parents (getc (s_g s) old))) (s_pm s)))
  | OAbandonWith old ps =>
      if Nat.eqb old 0 then Panic else Ok (set_pm s (pm_set old (Abandoned ps) (s_pm s)))
  | OSetRewritten old new =>
      if Nat.eqb old 0 then Panic else Ok (set_pm s (pm_set old (Rewritten new) (s_pm s)))
  | ODivergent old news =>
      if Nat.eqb old 0 then Panic else Ok (set_pm s (pm_set old (Divergent news) (s_pm s)))
  | ORebase o => rebase_descendants s o
  | OCommit =>
      (* Transaction::write: assert!(!has_rewrites()); consume = normalize_heads *)
      match s_pm s with [] => Ok (normalize s) | _ => Panic end
  end.

(** Runs the operations; returns the final result and the views written by each commit. *)
Fixpoint run (s : state) (ops : list op) (commits : list view) : res state * list view :=
  match ops with
  | [] => (Ok s, rev commits)
  | o :: t =>
      match step s o with
      | Ok s' => run s' t (match o with OCommit => s_v s' :: commits | _ => commits end)
      | r => (r, rev commits)
      end
  end.

Definition init_state : state := mk_state [root_commit] (mk_view [0] [] [] true) [].

(** State just before the [k]-th operation (for property checkers that need the
    parent mapping at a rebase). *)
Fixpoint run_prefix (s : state) (ops : list op) (k : nat) : res state :=
  match k, ops with
  | O, _ => Ok s
  | S k', o :: t => do s' <- step s o; run_prefix s' t k'
  | S _, [] => Ok s
  end.

(** * Comparison helpers *)
Definition commit_eqb (a b : commit) : bool :=
  list_nat_eqb (c_parents a) (c_parents b) && N.eqb (c_change a) (c_change b)
  && N.eqb (c_desc a) (c_desc b) && Bool.eqb (c_empty a) (c_empty b)
  && list_nat_eqb (c_preds a) (c_preds b).
Definition view_obs_eqb (a b : view) : bool :=
  list_nat_eqb (v_heads a) (v_heads b)
  && list_eqb (pair_eqb N.eqb target_eqb) (v_bms a) (v_bms b)
  && list_eqb (pair_eqb N.eqb Nat.eqb) (v_wcs a) (v_wcs b).
