(** C45 — model of pushing bookmarks to a Git remote (lib/src/refs.rs
    classify_ref_push_action, lib/src/git.rs push_refs / push_updates / RefToPush::to_git_lease,
    lib/src/git_subprocess.rs spawn_push + parse_ref_pushes) together with the two
    environment actions the property quantifies over: independent updates of the remote by
    somebody else, and jj's own fetch (= `git fetch --prune` into the backing repository
    followed by git::import_refs).  Definitions only.

    Data as in Model/C34.v: commits are numbers (0 = none, 1 = jj's root commit), a RefTarget
    is the term vector of its merge, names are numbers, maps are association lists.

    What `git push --force-with-lease=<ref>:<expected> <new>:<ref>` does to one ref of the
    remote is NOT jj's code: it enters the model as the oracle [srv cur expected new], which
    returns (answer, value of the ref afterwards).  [git_srv] is the behaviour observed
    with git 2.39 and is what the correspondence runs use; the theorems only assume the
    contract stated in Props/C45.v. *)
From Verif Require Import Base.Prelude Model.Merge Model.C34.
Local Open Scope N_scope.

(** [RemoteRef] (lib/src/op_store.rs:138-190): target and tracking state. *)
Record rref := mk_rref { r_target : target; r_tracked : bool }.
(** [RemoteRef::absent_ref()]: absent, state New. *)
Definition absent_rref : rref := mk_rref absent false.
Definition rref_eqb (a b : rref) : bool :=
  teqb (r_target a) (r_target b) && Bool.eqb (r_tracked a) (r_tracked b).
(** [RemoteRef::tracked_target]. *)
Definition tracked_target (r : rref) : target := if r_tracked r then r_target r else absent.

Definition rrmap := list (N * rref).
Fixpoint rfind (m : rrmap) (k : N) : option rref :=
  match m with
  | [] => None
  | (k', r) :: t => if k' =? k then Some r else rfind t k
  end.
(** [View::get_remote_bookmark]. *)
Definition rget (m : rrmap) (k : N) : rref :=
  match rfind m k with Some r => r | None => absent_rref end.

(** The jj view restricted to one remote ("origin"): local bookmarks, the remote-tracking
    bookmarks [name@origin], and the recorded Git refs refs/remotes/origin/name. *)
Record jview := mk_jview { j_local : rmap; j_remote : rrmap; j_grefs : rmap }.

(** [View::set_remote_bookmark] (lib/src/view.rs:280-295): an absent ref is kept only while
    it is tracked and the local bookmark exists. *)
Definition set_remote_bookmark (v : jview) (n : N) (r : rref) : jview :=
  mk_jview (j_local v)
    (if negb (is_absent (r_target r))
        || (r_tracked r && negb (is_absent (get (j_local v) n)))
     then (n, r) :: remove n (j_remote v)
     else remove n (j_remote v))
    (j_grefs v).
(** [View::set_local_bookmark_target] (view.rs:211-223): deleting the local bookmark also
    drops an absent remote-tracking entry of that name. *)
Definition set_local_bookmark (v : jview) (n : N) (t : target) : jview :=
  mk_jview (set (j_local v) n t)
    (if is_absent t
     then match rfind (j_remote v) n with
          | Some r => if is_absent (r_target r) then remove n (j_remote v) else j_remote v
          | None => j_remote v
          end
     else j_remote v)
    (j_grefs v).
Definition set_git_ref (v : jview) (n : N) (t : target) : jview :=
  mk_jview (j_local v) (j_remote v) (set (j_grefs v) n t).

(** Bookmarks and tags share every piece of this logic (View::set_local_tag_target /
    set_remote_tag are the tag twins of the bookmark setters, classify_ref_push_action is used
    for both, push_refs sends both kinds in one `git push`). A ref is identified by its key:
    keys below 100 are bookmarks (refs/heads/<name> on the remote), keys from 100 on are tags
    (refs/tags/<name>). Everything is keyed by this (kind, name) key, never by position. *)
Definition is_tag (n : N) : bool := 100 <=? n.

(** * classify_ref_push_action (lib/src/refs.rs:216-234) *)
Inductive push_action :=
| PUpdate (before after : N)      (* 0 = None *)
| PAlreadyMatches | PLocalConflicted | PRemoteConflicted | PRemoteUntracked.

Definition oid_of (t : target) : N := match as_normal t with Some c => c | None => 0 end.

Definition classify_ref_push_action (local_target : target) (remote_ref : rref) : push_action :=
  let remote_target := tracked_target remote_ref in
  if teqb local_target remote_target then PAlreadyMatches
  else if has_conflict local_target then PLocalConflicted
  else if has_conflict remote_target then PRemoteConflicted
  else if negb (is_absent (r_target remote_ref)) && negb (r_tracked remote_ref)
  then PRemoteUntracked
  else PUpdate (oid_of remote_target) (oid_of local_target).

(** The caller's side (cli/src/commands/git/push.rs with --all / --deleted / new bookmarks
    allowed): every considered bookmark whose action is [Update] is pushed, the lease being
    the [before] side, i.e. the tracked remote-tracking target (RefToPush::to_git_lease,
    git.rs:325-334: "<ref>:<expected oid>", empty = must not exist). *)
Definition ref_updates (v : jview) (names : list N) : list (N * (N * N)) :=
  flat_map (fun n =>
              match classify_ref_push_action (get (j_local v) n) (rget (j_remote v) n) with
              | PUpdate b a => [(n, (b, a))]
              | _ => []
              end) names.

(** * The remote's answer, per ref: an oracle with three outcomes (git push --porcelain:
    accepted flags "+ - * = space"; "!" with "[rejected] (stale info)" = the lease failed,
    decided by the pushing git before anything is sent; "!" with "[remote rejected] (...)" =
    the remote refused the update, e.g. a server-side update / pre-receive hook).
    [git_srv deny] = git 2.39 with a lease against a remote whose update hook refuses the
    names in [deny]: "=" (already there) counts as pushed and is never sent, a stale lease is
    rejected locally, a matching lease is sent and then accepted or refused by the hook; in
    both kinds of rejection the ref stays. *)
Inductive answer := Accepted | LeaseRejected | RemoteRejected.
Definition answer_eqb (a b : answer) : bool :=
  match a, b with
  | Accepted, Accepted | LeaseRejected, LeaseRejected | RemoteRejected, RemoteRejected => true
  | _, _ => false
  end.

Definition git_srv (deny : list N) (name cur expected new : N) : answer * N :=
  if negb (new =? 0) && (cur =? new) then (Accepted, cur)
  else if cur =? expected then
    (if mem N.eqb name deny then (RemoteRejected, cur) else (Accepted, new))
  else (LeaseRejected, cur).

Section Push.
  Context (srv : N -> N -> N -> N -> answer * N).   (* name, current, expected, new *)

  Record push_state := mk_push {
    p_remote : gmap;                      (* refs/heads/ of the remote repository *)
    p_pushed : list (N * (N * N));        (* accepted updates, in request order *)
    p_rejected : list N;                  (* GitPushStats::rejected (lease failures) *)
    p_remote_rejected : list N;           (* GitPushStats::remote_rejected *)
  }.

  (** spawn_push + parse_ref_pushes (git_subprocess.rs:257-298, 565-646): one answer line
      per requested ref; flags "+ - * = space" are pushes; "!" is a rejection, filed under
      remote_rejected when the summary starts with "[remote rejected]", else under rejected. *)
  Definition push_one (st : push_state) (u : N * (N * N)) : push_state :=
    let '(n, (before, after)) := u in
    let '(ans, cur') := srv n (gget (p_remote st) n) before after in
    mk_push (gset (p_remote st) n cur')
            (match ans with Accepted => p_pushed st ++ [u] | _ => p_pushed st end)
            (match ans with LeaseRejected => p_rejected st ++ [n] | _ => p_rejected st end)
            (match ans with RemoteRejected => p_remote_rejected st ++ [n]
                          | _ => p_remote_rejected st end).

  (** After an accepted bookmark update git itself moves refs/remotes/origin/<name> of the
      backing repository; for an accepted tag jj sets refs/jj/remote-tags/origin/<name>
      (to_remote_tag_ref_update, git.rs:3336-3342) - in both cases the backing ref of the key
      becomes the pushed value. Then push_refs (git.rs:3327-3363) records the pushed refs;
      for tags only the remote-tracking tag is set (git_refs is not involved); for bookmarks: it exports them
      (ONLY those: push_refs filters the requests by GitPushStats::pushed, git.rs:3315-3325)
      to the backing repository with the compare-and-swap of Model/C34.v
      ([build_pushed_bookmarks_to_export] + [export_refs_to_git]: deletions first) and, for
      those exported, sets git_refs and the remote-tracking bookmark (tracked). *)
  Definition git_tracking_update (backing : gmap) (u : N * (N * N)) : gmap :=
    gset backing (fst u) (snd (snd u)).

  Record rec_state := mk_rec {
    c_view : jview; c_backing : gmap; c_unexported : list (N * reason) }.

  Definition record_delete (st : rec_state) (u : N * (N * N)) : rec_state :=
    let '(n, (before, after)) := u in
    if is_tag n then st else
    if after =? 0 then
      match delete_git_ref (c_backing st) n before with
      | (None, b') => mk_rec (set_git_ref (c_view st) n absent) b' (c_unexported st)
      | (Some r, b') => mk_rec (c_view st) b' (c_unexported st ++ [(n, r)])
      end
    else st.
  Definition record_update (st : rec_state) (u : N * (N * N)) : rec_state :=
    let '(n, (before, after)) := u in
    if is_tag n then st else
    if after =? 0 then st
    else
      match update_git_ref (c_backing st) n before after with
      | (None, b') => mk_rec (set_git_ref (c_view st) n (resolved after)) b' (c_unexported st)
      | (Some r, b') => mk_rec (c_view st) b' (c_unexported st ++ [(n, r)])
      end.
  Definition record_remote_bookmark (unexported : list N) (v : jview) (u : N * (N * N)) : jview :=
    let '(n, (_, after)) := u in
    if mem N.eqb n unexported then v
    else set_remote_bookmark v n (mk_rref (resolved after) true).

  Record push_result := mk_result {
    q_view : jview; q_remote : gmap; q_backing : gmap;
    q_pushed : list N; q_rejected : list N; q_remote_rejected : list N;
    q_unexported : list (N * reason) }.

  Definition push (v : jview) (remote backing : gmap) (names : list N) : push_result :=
    let ups := ref_updates v names in
    let st := fold_left push_one ups (mk_push remote [] [] []) in
    let pushed := p_pushed st in
    let backing1 := fold_left git_tracking_update pushed backing in
    let r1 := fold_left record_delete pushed (mk_rec v backing1 []) in
    let r2 := fold_left record_update pushed r1 in
    let unexported := map fst (c_unexported r2) in
    let v' := fold_left (record_remote_bookmark unexported) pushed (c_view r2) in
    mk_result v' (p_remote st) (c_backing r2) (map fst pushed) (p_rejected st)
              (p_remote_rejected st) (c_unexported r2).
End Push.

(** * Fetch (bookmarks only: schedules that contain tags have no fetch steps, the remote-tag
    records are then maintained by pushes alone) = `git fetch --no-tags --prune origin` in the backing repository (its
    refs/remotes/origin/ become the remote's refs/heads/) + git::import_refs. The import is
    the per-name form of diff_refs_to_import / import_refs_inner (git.rs:647-764, 921-1093;
    Proofs/C34.v [import_spec] shows the loops act name by name) with the tracking state:
    a new remote bookmark is tracked iff the auto-track option matches, an existing entry
    keeps its state; only tracked refs are merged into the local bookmark. *)
Section Fetch.
  Context (anc : N -> N -> bool) (auto_track : bool).

  Definition import_name (backing : gmap) (v : jview) (n : N) : jview :=
    let new := resolved (gget backing n) in
    let v1 := if teqb new (get (j_grefs v) n) then v else set_git_ref v n new in
    let found := rfind (j_remote v1) n in
    let old := match found with Some r => r | None => absent_rref end in
    if teqb new (r_target old) then v1
    else
      let tracked := if rref_eqb old absent_rref then auto_track else r_tracked old in
      let v2 := if tracked
                then set_local_bookmark v1 n
                       (merge_targets anc (get (j_local v1) n) (tracked_target old) new)
                else v1 in
      set_remote_bookmark v2 n (mk_rref new tracked).

  Definition fetch (v : jview) (remote : gmap) : jview * gmap :=
    let backing := remote in
    let names := dedup (keys backing ++ keys (j_remote v) ++ keys (j_grefs v)) in
    (fold_left (import_name backing) names v, backing).
End Fetch.

(** * Schedules and the correspondence case *)
Record psnap := mk_psnap {
  s_local : rmap;
  s_remote_bm : list (N * (target * bool));   (* name@origin: target, tracked *)
  s_grefs : rmap;                             (* View::git_refs, refs/remotes/origin/ *)
  s_backing : gmap;                           (* backing repo refs/remotes/origin/ *)
  s_remote : gmap;                            (* the remote's refs/heads/ *)
}.

Inductive pstep :=
| Ext (n c : N)                               (* somebody else moves/creates/deletes a branch *)
| JjSet (n : N) (t : target)                  (* MutableRepo::set_local_bookmark_target *)
| JjTrack (n : N) (tracked : bool)            (* jj bookmark track / untrack *)
| Fetch (pre post : psnap)
| Push (names : list N) (pre post : psnap) (pushed rejected remote_rejected : list N)
       (unexported : N).

Record case := mk_case {
  c_names : list N;
  c_graph : graph;
  c_auto_track : bool;
  c_denied : list N;        (* names the remote's update hook refuses *)
  c_steps : list pstep;
  c_flags_ok : bool;
}.

Definition rr_of (p : target * bool) : rref := mk_rref (fst p) (snd p).
Definition rrmap_of (l : list (N * (target * bool))) : rrmap :=
  map (fun p => (fst p, rr_of (snd p))) l.

Record world := mk_world { w_view : jview; w_remote : gmap; w_backing : gmap }.

Definition world_eqb_on (names : list N) (w : world) (o : psnap) : bool :=
  forallb (fun n =>
     teqb (get (j_local (w_view w)) n) (get (s_local o) n)
     && rref_eqb (rget (j_remote (w_view w)) n) (rget (rrmap_of (s_remote_bm o)) n)
     && teqb (get (j_grefs (w_view w)) n) (get (s_grefs o) n)
     && (gget (w_backing w) n =? gget (s_backing o) n)
     && (gget (w_remote w) n =? gget (s_remote o) n)) names.
Definition psnap_names_ok (names : list N) (o : psnap) : bool :=
  in_names names (keys (s_local o)) && in_names names (keys (s_remote_bm o))
  && in_names names (keys (s_grefs o)) && in_names names (keys (s_backing o))
  && in_names names (keys (s_remote o)).

(** [MutableRepo::track_remote_bookmark] / [untrack_remote_bookmark]
    (lib/src/repo.rs:1829-1844): tracking merges the remote target into the local bookmark. *)
Definition track (anc : N -> N -> bool) (v : jview) (n : N) (tracked : bool) : jview :=
  let old := rget (j_remote v) n in
  if tracked then
    let v1 := set_local_bookmark v n
                (merge_targets anc (get (j_local v) n) (tracked_target old) (r_target old)) in
    set_remote_bookmark v1 n (mk_rref (r_target old) true)
  else set_remote_bookmark v n (mk_rref (r_target old) false).

Fixpoint nodupb (l : list N) : bool :=
  match l with
  | [] => true
  | x :: t => negb (mem N.eqb x t) && nodupb t
  end.

Fixpoint replay (anc : N -> N -> bool) (auto : bool) (deny names : list N) (steps : list pstep)
  (w : world) : bool :=
  match steps with
  | [] => true
  | Ext n c :: r => replay anc auto deny names r (mk_world (w_view w) (gset (w_remote w) n c) (w_backing w))
  | JjSet n t :: r =>
      replay anc auto deny names r (mk_world (set_local_bookmark (w_view w) n t) (w_remote w) (w_backing w))
  | JjTrack n b :: r =>
      replay anc auto deny names r (mk_world (track anc (w_view w) n b) (w_remote w) (w_backing w))
  | Fetch pre post :: r =>
      let '(v', b') := fetch anc auto (w_view w) (w_remote w) in
      let w' := mk_world v' (w_remote w) b' in
      psnap_names_ok names pre && psnap_names_ok names post
      && world_eqb_on names w pre && world_eqb_on names w' post && replay anc auto deny names r w'
  | Push ns pre post pushed rejected remote_rejected unexported :: r =>
      let q := push (git_srv deny) (w_view w) (w_remote w) (w_backing w) ns in
      let w' := mk_world (q_view q) (q_remote q) (q_backing q) in
      nodupb ns (* a push considers each bookmark once *)
      && psnap_names_ok names pre && psnap_names_ok names post
      && world_eqb_on names w pre && world_eqb_on names w' post
      && list_eqb N.eqb (q_pushed q) pushed && list_eqb N.eqb (q_rejected q) rejected
      && list_eqb N.eqb (q_remote_rejected q) remote_rejected
      && (N.of_nat (length (q_unexported q)) =? unexported)
      && replay anc auto deny names r w'
  end.

(** * The property checker on the OBSERVED states around every real push. *)
Definition push_name_ok (ns : list N) (pre post : psnap) (pushed rejected : list N) (n : N) : bool :=
  (* [rejected] = lease failures and remote rejections together *)
  let l := get (s_local pre) n in
  let rr := rget (rrmap_of (s_remote_bm pre)) n in
  let rr' := rget (rrmap_of (s_remote_bm post)) n in
  let c := gget (s_remote pre) n in
  let c' := gget (s_remote post) n in
  let is_pushed := mem N.eqb n pushed in
  (* pushing never touches local bookmarks *)
  teqb (get (s_local post) n) l
  (* compare-and-swap: the remote ref changed only if its value was the one jj had recorded
     (tracked remote-tracking target), only for a ref jj reports as pushed, and to the local
     bookmark *)
  && ((c' =? c)
      || (teqb (tracked_target rr) (resolved c) && is_pushed && teqb l (resolved c')))
  (* not pushed (rejected, or not part of the push): record, git_refs, backing ref and
     remote all stay *)
  && (if is_pushed then true
      else rref_eqb rr' rr && teqb (get (s_grefs post) n) (get (s_grefs pre) n)
           && (gget (s_backing post) n =? gget (s_backing pre) n) && (c' =? c))
  (* pushed: jj's record (tracked remote-tracking target), the backing ref and - for
     bookmarks - git_refs now all equal the local ref, which is what the remote has *)
  && (if is_pushed
      then teqb (tracked_target rr') l && teqb (resolved c') l
           && (if is_tag n then teqb (get (s_grefs post) n) (get (s_grefs pre) n)
               else teqb (get (s_grefs post) n) l)
           && (gget (s_backing post) n =? c')
      else true)
  (* whenever jj's record of the remote branch changes, it is the remote's real value: a
     remote ref that did not move is never recorded as moved *)
  && (rref_eqb rr' rr || teqb (tracked_target rr') (resolved c'))
  (* a ref is never both pushed and rejected; rejected refs were requested *)
  && (if mem N.eqb n rejected then negb is_pushed && mem N.eqb n ns else true).

Fixpoint steps_ok (names : list N) (steps : list pstep) : bool :=
  match steps with
  | [] => true
  | Push ns pre post pushed rejected remote_rejected unexported :: r =>
      forallb (push_name_ok ns pre post pushed (rejected ++ remote_rejected)) names
      && in_names ns pushed && in_names ns rejected && in_names ns remote_rejected
      && (unexported =? 0)
      && steps_ok names r
  | _ :: r => steps_ok names r
  end.

Definition empty_world : world := mk_world (mk_jview [] [] []) [] [].

(** The model's own execution of a schedule, for any remote behaviour [srv]. *)
Definition step_world (srv : N -> N -> N -> N -> answer * N) (anc : N -> N -> bool) (auto : bool)
  (w : world) (s : pstep) : world :=
  match s with
  | Ext n c => mk_world (w_view w) (gset (w_remote w) n c) (w_backing w)
  | JjSet n t => mk_world (set_local_bookmark (w_view w) n t) (w_remote w) (w_backing w)
  | JjTrack n b => mk_world (track anc (w_view w) n b) (w_remote w) (w_backing w)
  | Fetch _ _ =>
      mk_world (fst (fetch anc auto (w_view w) (w_remote w))) (w_remote w)
               (snd (fetch anc auto (w_view w) (w_remote w)))
  | Push ns _ _ _ _ _ _ =>
      let q := push srv (w_view w) (w_remote w) (w_backing w) ns in
      mk_world (q_view q) (q_remote q) (q_backing q)
  end.
Definition run_world srv anc auto (steps : list pstep) (w : world) : world :=
  fold_left (step_world srv anc auto) steps w.

Definition okb (c : case) : bool := c_flags_ok c && steps_ok (c_names c) (c_steps c).

Definition check_case (c : case) : N :=
  let corr := c_flags_ok c
              && replay (ancb (c_graph c)) (c_auto_track c) (c_denied c) (c_names c) (c_steps c)
                        empty_world in
  verdict corr (okb c) false 1.
