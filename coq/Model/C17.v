(** C17 — commit backends return on read exactly what write reported.
    Model of the part of lib/src/git_backend.rs that jj owns (signature_to_git /
    signature_from_git, the extra headers for conflicted trees, labels and the change id,
    the extras table with the committer-timestamp decrement loop, root-parent elision,
    write_commit / read_commit) and of lib/src/simple_backend.rs (commit_to_proto /
    commit_from_proto, the ContentHash id). Definitions only.
    Oracles (not modelled, tied by correspondence): gix's object serialisation and parsing
    and SHA-1 — a Git commit object is represented by its field record [git_commit], and
    the commit id by that record (content addressing); the only gix post-processing that is
    modelled is the whitespace trimming done by [CommitRef::author()/committer()]. *)
From Verif Require Export Base.Prelude Base.C16Lib.
From Verif Require Import Gen.Tables.
Local Open Scope N_scope.

Definition is_nil_b {A} (l : list A) : bool := match l with [] => true | _ => false end.

(** * Values (lib/src/backend.rs) *)
Record sig := mk_sig { s_name : bytes; s_email : bytes; s_millis : Z; s_tz : Z }.
(** [root_tree] and [conflict_labels] are [Merge]s: their term vectors (odd length). *)
Record commit := mk_commit {
  c_parents : list bytes;
  c_predecessors : list bytes;
  c_root_tree : list bytes;
  c_labels : list bytes;
  c_change_id : bytes;
  c_description : bytes;
  c_author : sig;
  c_committer : sig }.
(** [secure_sig] is None throughout (no signing function is passed). *)

(** * What is handed to / obtained from gix *)
Record gsig := mk_gsig { g_name : bytes; g_email : bytes; g_seconds : Z; g_offset : Z }.
(** [gc_tree]: the tree ids the Git tree object was made from (one id = that tree itself;
    several = the object written by write_tree_conflict, a function of them). *)
Record git_commit := mk_gc {
  gc_tree : list bytes;
  gc_parents : list bytes;
  gc_author : gsig;
  gc_committer : gsig;
  gc_headers : list (bytes * bytes);
  gc_message : bytes }.
(** protos/git_store.proto Commit as written by serialize_extras: uses_tree_conflict_format
    is always true and the legacy root_tree field always empty. *)
Record extras := mk_extras { e_change_id : bytes; e_predecessors : list bytes }.

(** * Unicode White_Space trimming (bstr [trim], applied by gix's author()/committer()) on
    valid UTF-8: U+0009-000D, 0020, 0085, 00A0, 1680, 2000-200A, 2028, 2029, 202F, 205F, 3000. *)
Definition ws_prefix (l : bytes) : option bytes :=
  match l with
  | [] => None
  | b :: r =>
      if ((9 <=? b) && (b <=? 13)) || (b =? 32) then Some r
      else match r with
           | c :: r1 =>
               if (b =? 194) && ((c =? 133) || (c =? 160)) then Some r1
               else match r1 with
                    | d :: r2 =>
                        if (b =? 225) && (c =? 154) && (d =? 128) then Some r2
                        else if (b =? 226) && (c =? 128)
                                && (((128 <=? d) && (d <=? 138)) || (d =? 168) || (d =? 169) || (d =? 175))
                             then Some r2
                        else if (b =? 226) && (c =? 129) && (d =? 159) then Some r2
                        else if (b =? 227) && (c =? 128) && (d =? 128) then Some r2
                        else None
                    | [] => None
                    end
           | [] => None
           end
  end.
(** The same on the reversed string (last byte first). *)
Definition ws_suffix_rev (l : bytes) : option bytes :=
  match l with
  | [] => None
  | d :: r =>
      if ((9 <=? d) && (d <=? 13)) || (d =? 32) then Some r
      else match r with
           | c :: r1 =>
               if (c =? 194) && ((d =? 133) || (d =? 160)) then Some r1
               else match r1 with
                    | b :: r2 =>
                        if (b =? 225) && (c =? 154) && (d =? 128) then Some r2
                        else if (b =? 226) && (c =? 128)
                                && (((128 <=? d) && (d <=? 138)) || (d =? 168) || (d =? 169) || (d =? 175))
                             then Some r2
                        else if (b =? 226) && (c =? 129) && (d =? 159) then Some r2
                        else if (b =? 227) && (c =? 128) && (d =? 128) then Some r2
                        else None
                    | [] => None
                    end
           | [] => None
           end
  end.
Fixpoint strip (f : bytes -> option bytes) (fuel : nat) (l : bytes) : bytes :=
  match fuel with
  | O => l
  | S k => match f l with Some r => strip f k r | None => l end
  end.
Definition trim (l : bytes) : bytes :=
  let l1 := strip ws_prefix (length l) l in
  rev (strip ws_suffix_rev (length l1) (rev l1)).

(** * Signatures (git_backend.rs:736-785) *)
Definition placeholder : bytes := C17_EMPTY_STRING_PLACEHOLDER.

Definition signature_to_git (s : sig) : gsig :=
  mk_gsig (if is_nil_b (s_name s) then placeholder else s_name s)
          (if is_nil_b (s_email s) then placeholder else s_email s)
          (s_millis s / 1000)                  (* div_euclid(1000) *)
          (s_tz s * 60).
(** [g] is what gix parsed; author()/committer() trim name and e-mail first. *)
Definition signature_from_git (g : gsig) : sig :=
  let name := trim (g_name g) in
  let email := trim (g_email g) in
  mk_sig (if bytes_eqb name placeholder then [] else name)
         (if bytes_eqb email placeholder then [] else email)
         (g_seconds g * 1000)
         (g_offset g / 60).                    (* div_euclid(60) *)

(** * Hex (core/src/hex_util.rs) and header values *)
Definition hex_digit (rev : bool) (d : N) : N :=
  if rev then 122 - d                                   (* "zyxwvutsrqponmlk" *)
  else if d <? 10 then 48 + d else 87 + d.              (* "0123456789abcdef" *)
Definition hex_value (rev : bool) (b : N) : option N :=
  if rev then
    if (107 <=? b) && (b <=? 122) then Some (122 - b)
    else if (75 <=? b) && (b <=? 90) then Some (90 - b) else None
  else
    if (48 <=? b) && (b <=? 57) then Some (b - 48)
    else if (97 <=? b) && (b <=? 102) then Some (b - 87)
    else if (65 <=? b) && (b <=? 70) then Some (b - 55) else None.
Fixpoint encode_hex (rev : bool) (l : bytes) : bytes :=
  match l with
  | [] => []
  | b :: t => hex_digit rev (b / 16) :: hex_digit rev (b mod 16) :: encode_hex rev t
  end.
(** decode_hex_inner: None on odd length or on a non-digit. *)
Fixpoint decode_hex (rev : bool) (l : bytes) : option bytes :=
  match l with
  | [] => Some []
  | [_] => None
  | hi :: lo :: t =>
      match hex_value rev hi, hex_value rev lo, decode_hex rev t with
      | Some h, Some v, Some r => Some (16 * h + v :: r)
      | _, _, _ => None
      end
  end.

(** [slice::split] on a separator byte: n separators give n+1 pieces. *)
Fixpoint split_on (sep : N) (l : bytes) : list bytes :=
  match l with
  | [] => [[]]
  | b :: t =>
      if b =? sep then [] :: split_on sep t
      else match split_on sep t with
           | p :: ps => (b :: p) :: ps
           | [] => [[b]]
           end
  end.
(** [str::split_terminator]: a final empty piece is dropped. *)
Definition split_terminator (sep : N) (l : bytes) : list bytes :=
  let ps := split_on sep l in
  match rev ps with
  | [] :: r => rev r
  | _ => ps
  end.
Fixpoint join (sep : N) (ps : list bytes) : bytes :=
  match ps with
  | [] => []
  | [p] => p
  | p :: t => p ++ sep :: join sep t
  end.

Definition header_trees : bytes := C17_JJ_TREES_COMMIT_HEADER.
Definition header_labels : bytes := C17_JJ_CONFLICT_LABELS_COMMIT_HEADER.
Definition header_change_id : bytes := C17_CHANGE_ID_COMMIT_HEADER.

(** [extra_headers().find(name)]: first header of that name. *)
Fixpoint find_header (name : bytes) (hs : list (bytes * bytes)) : option bytes :=
  match hs with
  | [] => None
  | (k, v) :: t => if bytes_eqb k name then Some v else find_header name t
  end.

(** * Write (git_backend.rs:1272-1430) *)
Inductive wout :=
| WOk (gc : git_commit) (returned : commit)
| WErr
| WPanic.

Definition is_resolved {A} (l : list A) : bool := match l with [_] => true | _ => false end.
Definition has_byte (b : N) (l : bytes) : bool := existsb (N.eqb b) l.
Definition len_ok (hash_len : nat) (b : bytes) : bool := Nat.eqb (length b) hash_len.
Definition token_ok (l : bytes) : bool :=
  negb (has_byte 60 l || has_byte 62 l || has_byte 10 l).     (* '<' '>' '\n' *)

(** Why gix refuses to serialise a signature: the offset (Time::to_str panics above 99
    hours), then the name, then the e-mail (validated_token). *)
Inductive gix_sig_fail := SigPanic | SigErr.
Definition gix_sig_check (g : gsig) : option gix_sig_fail :=
  if (99 <? Z.abs (g_offset g) / 3600)%Z then Some SigPanic
  else if negb (token_ok (g_name g)) then Some SigErr
  else if negb (token_ok (g_email g)) then Some SigErr
  else None.

Definition extras_eqb (a b : extras) : bool :=
  bytes_eqb (e_change_id a) (e_change_id b)
  && list_eqb bytes_eqb (e_predecessors a) (e_predecessors b).
Definition gsig_eqb (a b : gsig) : bool :=
  bytes_eqb (g_name a) (g_name b) && bytes_eqb (g_email a) (g_email b)
  && (g_seconds a =? g_seconds b)%Z && (g_offset a =? g_offset b)%Z.
Definition gc_eqb (a b : git_commit) : bool :=
  list_eqb bytes_eqb (gc_tree a) (gc_tree b)
  && list_eqb bytes_eqb (gc_parents a) (gc_parents b)
  && gsig_eqb (gc_author a) (gc_author b) && gsig_eqb (gc_committer a) (gc_committer b)
  && list_eqb (pair_eqb bytes_eqb bytes_eqb) (gc_headers a) (gc_headers b)
  && bytes_eqb (gc_message a) (gc_message b).

(** The extras table (a stacked table keyed by commit id; here by the Git commit). *)
Definition table := list (git_commit * extras).
Fixpoint table_get (gc : git_commit) (t : table) : option extras :=
  match t with
  | [] => None
  | (k, e) :: r => if gc_eqb k gc then Some e else table_get gc r
  end.

Definition with_committer_seconds (gc : git_commit) (s : Z) : git_commit :=
  mk_gc (gc_tree gc) (gc_parents gc) (gc_author gc)
        (mk_gsig (g_name (gc_committer gc)) (g_email (gc_committer gc)) s
                 (g_offset (gc_committer gc)))
        (gc_headers gc) (gc_message gc).

(** The loop at :1359-1412: while the id is taken by different extras, move the committer
    one second back. Every failing round hits a distinct table entry, so
    [length t] + 1 rounds suffice ([None] = out of fuel, never reached: Proofs/C17.v). *)
Fixpoint find_free (fuel : nat) (t : table) (gc : git_commit) (secs : Z) (e : extras)
  : option Z :=
  match fuel with
  | O => None
  | S k =>
      match table_get (with_committer_seconds gc secs) t with
      | Some e' => if extras_eqb e' e then Some secs else find_free k t gc (secs - 1) e
      | None => Some secs
      end
  end.

Definition with_times (c : commit) (author_millis committer_millis : Z) : commit :=
  mk_commit (c_parents c) (c_predecessors c) (c_root_tree c) (c_labels c) (c_change_id c)
            (c_description c)
            (mk_sig (s_name (c_author c)) (s_email (c_author c)) author_millis (s_tz (c_author c)))
            (mk_sig (s_name (c_committer c)) (s_email (c_committer c)) committer_millis
                    (s_tz (c_committer c))).

Definition serialize_extras (c : commit) : extras := mk_extras (c_change_id c) (c_predecessors c).

(** The Git commit handed to gix (before the collision loop). *)
Definition to_git (root : bytes) (c : commit) : git_commit :=
  mk_gc (c_root_tree c)
        (filter (fun p => negb (bytes_eqb p root)) (c_parents c))
        (signature_to_git (c_author c)) (signature_to_git (c_committer c))
        ((if is_resolved (c_labels c) then []
          else [(header_labels, join 10 (c_labels c) ++ [10])])
         ++ (if is_resolved (c_root_tree c) then []
             else [(header_trees, join 32 (map (encode_hex false) (c_root_tree c)))])
         ++ [(header_change_id, encode_hex true (c_change_id c))])   (* write_change_id_header *)
        (c_description c).

Definition i32_ok (z : Z) : bool := ((- 2 ^ 31 <=? z) && (z <? 2 ^ 31))%Z.

(** [author_keeps_millis = true] is the code before commit 7b9f28d (finding F1): the returned
    author timestamp was not normalised. *)
Definition write_gen (author_keeps_millis : bool) (root : bytes) (t : table) (c : commit)
  : wout * table :=
  let hash_len := length root in
  let fail (w : wout) := (w, t) in
  (* the tree: validate_git_object_id, or write_tree_conflict (from_bytes_or_panic) *)
  if is_resolved (c_root_tree c) && negb (forallb (len_ok hash_len) (c_root_tree c)) then fail WErr
  else if negb (forallb (len_ok hash_len) (c_root_tree c)) then fail WPanic
  (* signature_to_git: tz_offset * 60 in i32 (overflow checks on) *)
  else if negb (i32_ok (s_tz (c_author c) * 60) && i32_ok (s_tz (c_committer c) * 60)) then fail WPanic
  else if is_nil_b (c_parents c) then fail WErr
  (* the root commit next to another parent, or a parent id of the wrong length *)
  else if existsb (bytes_eqb root) (c_parents c) && negb (is_resolved (c_parents c)) then fail WErr
  else if negb (forallb (len_ok hash_len) (c_parents c)) then fail WErr
  (* labels cannot contain '\n' (assert) *)
  else if negb (is_resolved (c_labels c)) && existsb (has_byte 10) (c_labels c) then fail WPanic
  else
    let gc := to_git root c in
    (* write_object: the author is serialised before the committer *)
    match gix_sig_check (gc_author gc), gix_sig_check (gc_committer gc) with
    | Some SigPanic, _ => fail WPanic
    | Some SigErr, _ => fail WErr
    | None, Some SigPanic => fail WPanic
    | None, Some SigErr => fail WErr
    | None, None =>
        let e := serialize_extras c in
        match find_free (S (length t)) t gc (g_seconds (gc_committer gc)) e with
        | None => fail WPanic
        | Some secs =>
            let gc' := with_committer_seconds gc secs in
            (WOk gc' (with_times c (if author_keeps_millis then s_millis (c_author c)
                                    else s_millis (c_author c) / 1000 * 1000)
                                 (secs * 1000)),
             (gc', e) :: t)
        end
    end.

Definition write : bytes -> table -> commit -> wout * table := write_gen false.
Definition write_old : bytes -> table -> commit -> wout * table := write_gen true.

(** * Read (git_backend.rs:608-706, 799-818, 1234-1270) *)
Inductive rout :=
| ROk (c : commit)
| RErr
| RPanic
| RNone.          (* not attempted (the write failed) *)

(** synthetic_change_id_from_git_commit_id: the last 16 bytes, reversed, bits reversed. *)
Definition reverse_bits8 (b : N) : N :=
  (if N.testbit b 0 then 128 else 0) + (if N.testbit b 1 then 64 else 0)
  + (if N.testbit b 2 then 32 else 0) + (if N.testbit b 3 then 16 else 0)
  + (if N.testbit b 4 then 8 else 0) + (if N.testbit b 5 then 4 else 0)
  + (if N.testbit b 6 then 2 else 0) + (if N.testbit b 7 then 1 else 0).
Definition change_id_length : nat := N.to_nat C17_CHANGE_ID_LENGTH.
Definition synthetic_change_id (id : bytes) : bytes :=
  map reverse_bits8 (rev (skipn (length id - change_id_length) id)).

Definition extract_root_tree (hash_len : nat) (gc : git_commit) : option (list bytes) :=
  match find_header header_trees (gc_headers gc) with
  | None => Some (gc_tree gc)
  | Some v =>
      let fix go (ps : list bytes) : option (list bytes) :=
        match ps with
        | [] => Some []
        | p :: r => match decode_hex false p with
                    | Some tid => if len_ok hash_len tid
                                  then match go r with Some l => Some (tid :: l) | None => None end
                                  else None
                    | None => None
                    end
        end in
      match go (split_on 32 v) with
      | Some ids => if is_resolved ids || Nat.even (length ids) then None else Some ids
      | None => None
      end
  end.

(** [id] is the commit id (SHA-1 of gix's serialisation), needed only for the synthetic
    change id. *)
Definition read (root : bytes) (t : table) (gc : git_commit) (id : bytes) : rout :=
  let hash_len := length root in
  let change_id0 :=
    match find_header header_change_id (gc_headers gc) with
    | Some v => match decode_hex true v with
                | Some cid => if Nat.eqb (length cid) change_id_length then cid
                              else synthetic_change_id id
                | None => synthetic_change_id id
                end
    | None => synthetic_change_id id
    end in
  let labels :=
    match find_header header_labels (gc_headers gc) with
    | None => Some [[]]
    | Some v => let ls := split_terminator 10 v in
                if Nat.even (length ls) then None else Some ls      (* MergeBuilder::build *)
    end in
  match labels with
  | None => RPanic
  | Some labels =>
      match extract_root_tree hash_len gc with
      | None => RErr
      | Some root_tree =>
          let parents := if is_nil_b (gc_parents gc) then [root] else gc_parents gc in
          match table_get gc t with
          | None => RErr            (* import_head_commits path: not modelled *)
          | Some e =>
              ROk (mk_commit parents (e_predecessors e) root_tree labels
                             (if is_nil_b (e_change_id e) then change_id0 else e_change_id e)
                             (gc_message gc)
                             (signature_from_git (gc_author gc))
                             (signature_from_git (gc_committer gc)))
          end
      end
  end.

(** * The simple backend (simple_backend.rs:291-400) *)
(** protos/simple_store.proto Commit: repeated fields in order; conflict_labels written only
    when unresolved; signatures always present. *)
Record p_commit := mk_pcommit {
  pc_parents : list bytes; pc_predecessors : list bytes; pc_root_tree : list bytes;
  pc_labels : list bytes; pc_change_id : bytes; pc_description : bytes;
  pc_author : sig; pc_committer : sig }.

Definition commit_to_proto (c : commit) : p_commit :=
  mk_pcommit (c_parents c) (c_predecessors c) (c_root_tree c)
             (if is_resolved (c_labels c) then [] else c_labels c)
             (c_change_id c) (c_description c) (c_author c) (c_committer c).

(** MergeBuilder::build / Merge::from_vec assert an odd number of terms. *)
(** ConflictLabels::from_vec / from_merge (conflict_labels.rs:36-56): no labels, a single
    label, or only empty labels all mean "unlabeled" = resolved "". *)
Definition labels_from_vec (ls : list bytes) : list bytes :=
  if is_nil_b ls || is_resolved ls || forallb is_nil_b ls then [[]] else ls.
Definition commit_from_proto (p : p_commit) : rout :=
  if Nat.even (length (pc_root_tree p)) then RPanic
  else if negb (is_nil_b (pc_labels p)) && Nat.even (length (pc_labels p)) then RPanic
  else ROk (mk_commit (pc_parents p) (pc_predecessors p) (pc_root_tree p)
                      (labels_from_vec (pc_labels p))
                      (pc_change_id p) (pc_description p) (pc_author p) (pc_committer p)).

(** ContentHash of [Commit] (derive: fields in declaration order; secure_sig = None). *)
Definition c_sig : codec sig :=
  c_iso (fun s => (s_name s, (s_email s, (s_millis s, s_tz s))))
        (fun t => mk_sig (fst t) (fst (snd t)) (fst (snd (snd t))) (snd (snd (snd t))))
        (c_pair c_bytes (c_pair c_bytes (c_pair (c_signed 8) (c_signed 4)))).
Definition commit_tuple (c : commit) :=
  (c_parents c, (c_predecessors c, (c_root_tree c, (c_labels c, (c_change_id c,
   (c_description c, (c_author c, (c_committer c, @None unit)))))))).
Definition commit_of_tuple
  (t : list bytes * (list bytes * (list bytes * (list bytes * (bytes * (bytes *
        (sig * (sig * option unit)))))))) : commit :=
  let '(a, (b, (c, (d, (e, (f, (g, (h, _)))))))) := t in mk_commit a b c d e f g h.
Definition c_unit : codec unit := mk_codec (fun _ : unit => []) (fun l : bytes => Some (tt, l)) (fun _ => True).
Definition c_commit : codec commit :=
  c_iso commit_tuple commit_of_tuple
    (c_pair (c_list c_bytes) (c_pair (c_list c_bytes) (c_pair (c_list c_bytes)
    (c_pair (c_list c_bytes) (c_pair c_bytes (c_pair c_bytes (c_pair c_sig (c_pair c_sig
    (c_option c_unit))))))))).
Definition enc_commit : commit -> bytes := enc c_commit.

(** * Domain of the round-trip theorems *)
(** Commit's documented invariant on labels: resolved => the empty string (backend.rs:208). *)
Definition labels_okb (c : commit) : bool :=
  Nat.odd (length (c_labels c))
  && (negb (is_resolved (c_labels c)) || list_eqb bytes_eqb (c_labels c) [[]]).
(** F2: a name or e-mail equal to the placeholder literal. *)
Definition placeholder_nameb (c : commit) : bool :=
  bytes_eqb (s_name (c_author c)) placeholder || bytes_eqb (s_email (c_author c)) placeholder
  || bytes_eqb (s_name (c_committer c)) placeholder
  || bytes_eqb (s_email (c_committer c)) placeholder.
(** A name or e-mail with leading or trailing Unicode whitespace (trimmed by gix on read;
    after trimming it may even become the placeholder). *)
Definition padded_nameb (c : commit) : bool :=
  negb (bytes_eqb (trim (s_name (c_author c))) (s_name (c_author c))
        && bytes_eqb (trim (s_email (c_author c))) (s_email (c_author c))
        && bytes_eqb (trim (s_name (c_committer c))) (s_name (c_committer c))
        && bytes_eqb (trim (s_email (c_committer c))) (s_email (c_committer c))).
(** The commits the property quantifies over: Commit's own invariants and, for the Git
    backend, a non-empty change id (jj's change ids have 16 bytes; an empty one is replaced
    by a synthetic id on read). *)
Definition base_domainb (c : commit) : bool :=
  labels_okb c && Nat.odd (length (c_root_tree c)).
Definition git_domainb (c : commit) : bool :=
  base_domainb c && negb (is_nil_b (c_change_id c)).
(** The simple backend goes through ConflictLabels, for which labels that are all empty are
    no labels: unresolved labels must have a non-empty term. *)
Definition labels_canonb (c : commit) : bool :=
  is_resolved (c_labels c) || negb (forallb is_nil_b (c_labels c)).
Definition simple_domainb (c : commit) : bool := base_domainb c && labels_canonb c.
(** The two classes on which the Git backend is known to violate the property. *)
Definition known_classb (c : commit) : bool := placeholder_nameb c || padded_nameb c.

(** Everything write_commit checks before the collision loop. *)
Definition acceptedb (root : bytes) (c : commit) : bool :=
  forallb (len_ok (length root)) (c_root_tree c)
  && i32_ok (s_tz (c_author c) * 60) && i32_ok (s_tz (c_committer c) * 60)
  && negb (is_nil_b (c_parents c))
  && negb (existsb (bytes_eqb root) (c_parents c) && negb (is_resolved (c_parents c)))
  && forallb (len_ok (length root)) (c_parents c)
  && negb (negb (is_resolved (c_labels c)) && existsb (has_byte 10) (c_labels c))
  && match gix_sig_check (signature_to_git (c_author c)),
           gix_sig_check (signature_to_git (c_committer c)) with
     | None, None => true
     | _, _ => false
     end.
(** Second-precision form of a commit: what the Git backend records. *)
Definition normalize (c : commit) : commit :=
  with_times c (s_millis (c_author c) / 1000 * 1000) (s_millis (c_committer c) / 1000 * 1000).
(** Byte-range well-formedness of the tree ids (always true of Rust bytes). *)
Definition trees_wfb (c : commit) : bool := forallb bytes_okb (c_root_tree c).
(** The part of the encoding jj owns: the Git commit handed to gix and the extras. *)
Definition encoding (root : bytes) (c : commit) : git_commit * extras :=
  (to_git root c, serialize_extras c).

(** Domain of the ContentHash encoding: bytes below 256, lengths below 2^64, timestamps
    within i64 / i32 (always true of Rust values). *)
Definition len64b {A} (l : list A) : bool := N.of_nat (length l) <? 2 ^ 64.
Definition b_wfb (b : bytes) : bool := forallb byteb b && len64b b.
Definition lb_wfb (l : list bytes) : bool := forallb b_wfb l && len64b l.
Definition sig_wfb (s : sig) : bool :=
  b_wfb (s_name s) && b_wfb (s_email s)
  && ((- 2 ^ 63 <=? s_millis s) && (s_millis s <? 2 ^ 63)
      && (- 2 ^ 31 <=? s_tz s) && (s_tz s <? 2 ^ 31))%Z.
Definition commit_enc_wfb (c : commit) : bool :=
  lb_wfb (c_parents c) && lb_wfb (c_predecessors c) && lb_wfb (c_root_tree c)
  && lb_wfb (c_labels c) && b_wfb (c_change_id c) && b_wfb (c_description c)
  && sig_wfb (c_author c) && sig_wfb (c_committer c).

(** * Boolean equalities *)
Definition sig_eqb (a b : sig) : bool :=
  bytes_eqb (s_name a) (s_name b) && bytes_eqb (s_email a) (s_email b)
  && (s_millis a =? s_millis b)%Z && (s_tz a =? s_tz b)%Z.
Definition commit_eqb (a b : commit) : bool :=
  list_eqb bytes_eqb (c_parents a) (c_parents b)
  && list_eqb bytes_eqb (c_predecessors a) (c_predecessors b)
  && list_eqb bytes_eqb (c_root_tree a) (c_root_tree b)
  && list_eqb bytes_eqb (c_labels a) (c_labels b)
  && bytes_eqb (c_change_id a) (c_change_id b)
  && bytes_eqb (c_description a) (c_description b)
  && sig_eqb (c_author a) (c_author b) && sig_eqb (c_committer a) (c_committer b).
Definition rout_eqb (a b : rout) : bool :=
  match a, b with
  | ROk x, ROk y => commit_eqb x y
  | RErr, RErr | RPanic, RPanic | RNone, RNone => true
  | _, _ => false
  end.

(** * Correspondence cases *)
(** What the implementation did with one input commit. *)
Inductive wres :=
| IOk (id : bytes) (returned : commit)
| IErr
| IPanic.
Record step := mk_step {
  st_in : commit;
  st_out : wres;              (* Store::write_commit *)
  st_read : rout;             (* Backend::read_commit(id) in a fresh store *)
  st_cached : bool;           (* Store::get_commit(id) on the writing store, right after the write, = returned *)
  st_hashed : bytes }.        (* simple backend: bytes fed to the hasher for the returned commit *)
Record case := mk_case {
  k_git : bool;
  k_root : bytes;             (* the root commit id *)
  k_steps : list step;
  k_ids_are_hashes : bool;    (* simple backend: every id = BLAKE2b-512(hashed) *)
  k_objects : list (bytes * option bytes) }.
    (* files, symlink targets and (serialised) trees: what was written, and what a fresh
       store read back for the returned id (None = error) *)

(** The property on the implementation's outputs: in the domain, the read-back commit and
    the cached commit are the returned one; and two steps get the same id iff they
    returned the same commit. Steps whose input satisfies [exempt] are not judged. *)
Definition domainb (git : bool) (c : commit) : bool :=
  if git then git_domainb c else simple_domainb c.
Definition step_okb (exempt : commit -> bool) (git : bool) (s : step) : bool :=
  match st_out s with
  | IOk _ returned =>
      exempt (st_in s)
      || (st_cached s && (negb (domainb git (st_in s)) || rout_eqb (st_read s) (ROk returned)))
  | _ => true
  end.
Definition ids_okb (exempt : commit -> bool) (git : bool) (ss : list step) : bool :=
  forallb (fun s1 => forallb (fun s2 =>
    match st_out s1, st_out s2 with
    | IOk i1 r1, IOk i2 r2 =>
        exempt (st_in s1) || exempt (st_in s2)
        || negb (domainb git (st_in s1) && domainb git (st_in s2))
        || Bool.eqb (bytes_eqb i1 i2) (commit_eqb r1 r2)
    | _, _ => true
    end) ss) ss.
Definition objects_okb (c : case) : bool :=
  forallb (fun p => option_eqb bytes_eqb (snd p) (Some (fst p))) (k_objects c).
Definition okb_gen (exempt : commit -> bool) (c : case) : bool :=
  forallb (step_okb exempt (k_git c)) (k_steps c) && ids_okb exempt (k_git c) (k_steps c)
  && objects_okb c.
Definition okb : case -> bool := okb_gen (fun _ => false).
(** Known findings F2 (placeholder literal) and F6 (padded names), Git backend only: a
    failing case is demoted only if it passes once the steps inside the classes are exempt,
    i.e. every failure involves a step of the class. *)
Definition known_F2 (c : case) : bool :=
  k_git c && existsb (fun s => placeholder_nameb (st_in s)) (k_steps c).
Definition known_F6 (c : case) : bool :=
  k_git c && existsb (fun s => padded_nameb (st_in s)) (k_steps c).
Definition known (c : case) : bool :=
  k_git c && negb (okb c) && okb_gen known_classb c.

(** Correspondence: run the model over the steps. For the Git backend the model's ids are
    Git commits; the implementation's ids must be equal exactly when those are. *)
Definition wres_agrees (m : wout) (i : wres) : bool :=
  match m, i with
  | WOk _ r, IOk _ r' => commit_eqb r r'
  | WErr, IErr | WPanic, IPanic => true
  | _, _ => false
  end.

Fixpoint run_git (root : bytes) (t : table) (ss : list step)
  (seen : list (git_commit * bytes)) : bool :=
  match ss with
  | [] => true
  | s :: rest =>
      let '(w, t') := write root t (st_in s) in
      wres_agrees w (st_out s)
      && match w, st_out s with
         | WOk gc _, IOk id _ =>
             (* same model commit <-> same implementation id *)
             forallb (fun p => Bool.eqb (gc_eqb (fst p) gc) (bytes_eqb (snd p) id)) seen
             && run_git root t' rest ((gc, id) :: seen)
         | WPanic, _ => true      (* the backend's mutex is poisoned: the case stops here *)
         | _, _ => run_git root t' rest seen
         end
  end.

(** Reads happen after all writes, against the final table. *)
Fixpoint final_table (root : bytes) (t : table) (ss : list step) : table :=
  match ss with
  | [] => t
  | s :: rest => let '(w, t') := write root t (st_in s) in
                 match w with WPanic => t' | _ => final_table root t' rest end
  end.
Fixpoint reads_git (root : bytes) (t tfinal : table) (ss : list step) : bool :=
  match ss with
  | [] => true
  | s :: rest =>
      let '(w, t') := write root t (st_in s) in
      match w, st_out s with
      | WOk gc _, IOk id _ => rout_eqb (read root tfinal gc id) (st_read s)
                              && reads_git root t' tfinal rest
      | WPanic, _ => true
      | _, _ => reads_git root t' tfinal rest
      end
  end.

Definition step_simple (s : step) : bool :=
  if is_nil_b (c_parents (st_in s)) then match st_out s with IErr => true | _ => false end
  else match st_out s with
       | IOk _ r =>
           commit_eqb r (st_in s)
           && rout_eqb (commit_from_proto (commit_to_proto (st_in s))) (st_read s)
           && bytes_eqb (enc_commit r) (st_hashed s)
       | IErr => false
       | IPanic => false
       end.

Definition check_case (c : case) : N :=
  let corr :=
    if k_git c then
      run_git (k_root c) [] (k_steps c) []
      && reads_git (k_root c) [] (final_table (k_root c) [] (k_steps c)) (k_steps c)
    else forallb step_simple (k_steps c) && k_ids_are_hashes c in
  verdict corr (okb c) (corr && known c) (if k_git c then 1 else 2).

(** * Further definitions used in the statements of Props/C17.v *)
(** No F2 / F6 name: the guard of the Git theorems. *)
Definition names_okb (c : commit) : bool := negb (placeholder_nameb c) && negb (padded_nameb c).

(** [later root t1 t2]: [t2] is reached from [t1] by any number of writes. *)
Inductive later (root : bytes) : table -> table -> Prop :=
| later_refl t : later root t t
| later_step t1 t2 c w t3 : later root t1 t2 -> write root t2 c = (w, t3) -> later root t1 t3.

(** Witness commits for the refutation lemmas. *)
Definition w_root : bytes := repeat 0 20.
Definition w_tree : bytes := repeat 1 20.
Definition w_commit (author_name : bytes) (author_millis : Z) : commit :=
  mk_commit [w_root] [] [w_tree] [[]] (repeat 7 16) [102]
            (mk_sig author_name [97; 64; 120] author_millis 0)
            (mk_sig [65] [97; 64; 120] 2000456 60).


(** * What the checker means *)
Definition step_ok (git : bool) (s : step) : Prop :=
  match st_out s with
  | IOk _ returned =>
      st_cached s = true /\ (domainb git (st_in s) = true -> st_read s = ROk returned)
  | _ => True
  end.
Definition pair_ok (git : bool) (s1 s2 : step) : Prop :=
  match st_out s1, st_out s2 with
  | IOk i1 r1, IOk i2 r2 =>
      domainb git (st_in s1) = true -> domainb git (st_in s2) = true -> (i1 = i2 <-> r1 = r2)
  | _, _ => True
  end.
Definition case_ok (c : case) : Prop :=
  (forall s, In s (k_steps c) -> step_ok (k_git c) s)
  /\ (forall s1 s2, In s1 (k_steps c) -> In s2 (k_steps c) -> pair_ok (k_git c) s1 s2)
  /\ (forall written read, In (written, read) (k_objects c) -> read = Some written).
