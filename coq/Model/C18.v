(** C18 — model of the commit index's graph queries
    (lib/src/default_index/composite.rs:318-477, :738-784; mutable.rs:129-164).

    Positions are [nat] (GlobalCommitPosition); the index is a [DagI.graph]: entry [i] is
    [parent_positions] of the commit at position [i]; generation numbers are [DagI.gens].
    A [BinaryHeap<GlobalCommitPosition>] (max-heap, duplicates allowed) is modelled by a
    descending list with duplicates: [peek] = head, [push] = ordered insertion. Every loop has
    explicit fuel; Proofs/C18.v shows the stated fuel always suffices. Definitions only. *)
From Verif Require Import Base.Prelude Base.DagI.
From Verif Require Export Model.C18Codec.
From Verif Require Import Gen.Tables.

(** ** BinaryHeap as a descending list *)
Fixpoint hpush (x : nat) (h : list nat) : list nat :=
  match h with
  | [] => [x]
  | y :: t => if (y <=? x)%nat then x :: h else y :: hpush x t
  end.
Definition heap_from (l : list nat) : list nat := fold_right hpush [] l.      (* BinaryHeap::from *)
Definition hextend (ps : list nat) (h : list nat) : list nat :=               (* heap.extend(ps) *)
  fold_left (fun h p => hpush p h) ps h.

(** composite.rs:780 remove_dup: pop while the greatest item equals [x]. *)
Fixpoint drop_eq (x : nat) (h : list nat) : list nat :=
  match h with
  | y :: t => if (y =? x)%nat then drop_eq x t else h
  | [] => []
  end.
(** composite.rs:760 dedup_pop (the popped item is the head, known to the caller). *)
Definition dedup_pop (h : list nat) : list nat :=
  match h with [] => [] | x :: t => drop_eq x t end.
(** composite.rs:739 shift_to_parents: the greatest item (all copies) is replaced by its
    parents; the first parent goes through dedup_replace (:771), the others are pushed. The
    [assert!(parent_pos < pos)] holds by [wf]. *)
Definition shift_to_parents (h : list nat) (ps : list nat) : list nat :=
  match h with
  | [] => []
  | x :: t =>
    match ps with
    | [] => drop_eq x t
    | p0 :: rest => hextend rest (hpush p0 (drop_eq x t))
    end
  end.

(** ** is_ancestor_pos (composite.rs:324-348) *)
(** [work] is the Vec used as a stack (head = last element), [visited] the PositionsBitSet. *)
Fixpoint is_anc_loop (g : graph) (gn : list nat) (a ga : nat) (fuel : nat)
    (work visited : list nat) : option bool :=
  match fuel with
  | O => None
  | S f =>
    match work with
    | [] => Some false
    | d :: w =>
      match Nat.compare d a with
      | Lt => is_anc_loop g gn a ga f w visited
      | Eq => Some true
      | Gt =>
        if memn d visited then is_anc_loop g gn a ga f w visited
        else if (nth d gn 0 <=? ga)%nat then is_anc_loop g gn a ga f w (d :: visited)
        else is_anc_loop g gn a ga f (rev (parents g d) ++ w) (d :: visited)
      end
    end
  end.
Definition edges (g : graph) : nat := list_sum (map (@length nat) g).
Definition is_ancestor_fuel (g : graph) : nat := S (S (length g + edges g)).
Definition is_ancestor_pos (g : graph) (a d : nat) : option bool :=
  is_anc_loop g (gens g) a (gen g a) (is_ancestor_fuel g) [d] [].

(** ** heads_pos (composite.rs:440-477) *)
(** The inner [while let Some(&parent) = parents.peek().filter(|p| p >= candidate)] loop.
    Returns the heap and whether [parent == candidate] was hit ([continue 'outer]). *)
Fixpoint heads_drain (g : graph) (gn : list nat) (mg : nat) (fuel : nat) (h : list nat)
    (c : nat) : option (list nat * bool) :=
  match fuel with
  | O => None
  | S f =>
    match h with
    | [] => Some (h, false)
    | q :: _ =>
      if (q <? c)%nat then Some (h, false)
      else
        let h' := if (nth q gn 0 <=? mg)%nat then dedup_pop h
                  else shift_to_parents h (parents g q) in
        if (q =? c)%nat then Some (h', true) else heads_drain g gn mg f h' c
    end
  end.
Definition top_fuel (h : list nat) : nat := S (hd 0 h).
Fixpoint heads_loop (g : graph) (gn : list nat) (mg : nat) (cands : list nat) (h : list nat)
    (acc : list nat) : option (list nat) :=
  match cands with
  | [] => Some (rev acc)
  | c :: cs =>
    match heads_drain g gn mg (top_fuel h) h c with
    | None => None
    | Some (h', true) => heads_loop g gn mg cs h' acc
    | Some (h', false) => heads_loop g gn mg cs (hextend (parents g c) h') (c :: acc)
    end
  end.
Definition min_gen (gn : list nat) (cands : list nat) : nat :=
  match cands with
  | [] => 0
  | c :: cs => fold_left (fun m x => Nat.min m (nth x gn 0)) cs (nth c gn 0)
  end.
(** [cands]: descending, duplicate-free (debug_assert at :444). *)
Definition heads_pos (g : graph) (cands : list nat) : option (list nat) :=
  match cands with
  | [] => Some []
  | _ => let gn := gens g in heads_loop g gn (min_gen gn cands) cands [] []
  end.

(** composite.rs:418-432 heads(): sort descending, dedup, heads_pos. *)
Fixpoint dedup_adj (l : list nat) : list nat :=
  match l with
  | x :: (y :: _) as t => if (x =? y)%nat then dedup_adj t else x :: dedup_adj t
  | _ => l
  end.
Definition heads (g : graph) (cands : list nat) : option (list nat) :=
  heads_pos g (dedup_adj (heap_from cands)).

(** ** common_ancestors_pos (composite.rs:368-396) *)
Fixpoint ca_loop (g : graph) (fuel : nat) (h1 h2 : list nat) (acc : list nat)
    : option (list nat) :=
  match fuel with
  | O => None
  | S f =>
    match h1, h2 with
    | p1 :: _, p2 :: _ =>
      match Nat.compare p1 p2 with
      | Gt => ca_loop g f (shift_to_parents h1 (parents g p1)) h2 acc
      | Lt => ca_loop g f h1 (shift_to_parents h2 (parents g p2)) acc
      | Eq => ca_loop g f (dedup_pop h1) (dedup_pop h2) (p1 :: acc)
      end
    | _, _ => Some (rev acc)
    end
  end.
Definition hmeasure (h : list nat) : nat := match h with [] => 0 | q :: _ => S q end.
Definition common_ancestors_pos (g : graph) (s1 s2 : list nat) : option (list nat) :=
  let h1 := heap_from s1 in
  let h2 := heap_from s2 in
  match ca_loop g (S (hmeasure h1 + hmeasure h2)) h1 h2 [] with
  | None => None
  | Some r => heads_pos g r
  end.

(** ** heads_from_range_and_filter (composite.rs:482-515), used by the revset engine for
    heads(roots..heads & filter) *)
(** composite.rs:724 shift_to_parents_until: returns the queue and whether [target] was hit *)
Fixpoint shift_until (g : graph) (fuel : nat) (q : list nat) (target : nat) : option (list nat * bool) :=
  match fuel with
  | O => None
  | S f =>
    match q with
    | [] => Some (q, false)
    | p :: _ =>
      if (p <? target)%nat then Some (q, false)
      else let q' := shift_to_parents q (parents g p) in
           if (p =? target)%nat then Some (q', true) else shift_until g f q' target
    end
  end.
(** rev_walk.rs:678 filter_slice_by_range *)
Definition slice_range (lo hi : nat) (ps : list nat) : list nat := firstn (hi - lo) (skipn lo ps).
Fixpoint hrf_loop (g : graph) (lo hi : nat) (filter : nat -> bool) (fuel : nat)
    (wanted unwanted found : list nat) : option (list nat) :=
  match fuel with
  | O => None
  | S f =>
    match wanted with
    | [] => Some (rev found)
    | pos :: _ =>
      match shift_until g (top_fuel unwanted) unwanted pos with
      | None => None
      | Some (unwanted', true) => hrf_loop g lo hi filter f (dedup_pop wanted) unwanted' found
      | Some (unwanted', false) =>
        if filter pos
        then hrf_loop g lo hi filter f (dedup_pop wanted) (hextend (parents g pos) unwanted') (pos :: found)
        else hrf_loop g lo hi filter f (shift_to_parents wanted (slice_range lo hi (parents g pos)))
                      unwanted' found
      end
    end
  end.
Definition heads_from_range_and_filter (g : graph) (roots heads : list nat) (lo hi : nat)
    (filter : nat -> bool) : option (list nat) :=
  match heads with
  | [] => Some []
  | _ => hrf_loop g lo hi filter (S (hmeasure (heap_from heads))) (heap_from heads) (heap_from roots) []
  end.
(** revset_engine.rs:920-957: roots and heads are revsets (descending, duplicate-free), the
    heads that are roots are dropped first *)
Definition heads_range (g : graph) (roots heads : list nat) (lo hi : nat) (flt : nat -> bool)
    : option (list nat) :=
  let rs := dedup_adj (heap_from roots) in
  let hs := List.filter (fun h => negb (memn h rs)) (dedup_adj (heap_from heads)) in
  heads_from_range_and_filter g rs hs lo hi flt.

(** ** all_heads_pos (composite.rs:403-416): positions that are nobody's parent, ascending *)
Definition all_heads_pos (g : graph) : list nat :=
  filter (fun i => negb (existsb (memn i) g)) (seq 0 (length g)).

(** ** the segment stack (composite.rs:133-185, mutable.rs:129-164, :318-345)
    A composite index is a stack of segments, newest first; a segment lists its local
    entries (commit id, global parent positions) in local-position order; the global position
    of a local entry is its local position plus the number of commits in the older segments. *)
Definition sentry := (N * list nat)%type.           (* commit id (abstract), parent positions *)
Definition segment := list sentry.
Definition stack := list segment.                  (* ancestor_index_segments: self first *)

Definition num_commits (st : stack) : nat := list_sum (map (@length sentry) st).
(** composite.rs:161 entry_by_pos: first segment with pos >= num_parent_commits *)
Fixpoint entry_by_pos (st : stack) (pos : nat) : option sentry :=
  match st with
  | [] => None
  | seg :: rest =>
    let np := num_commits rest in
    if (np <=? pos)%nat then nth_error seg (pos - np) else entry_by_pos rest pos
  end.
Fixpoint find_local (id : N) (seg : segment) (i : nat) : option nat :=
  match seg with
  | [] => None
  | e :: r => if (fst e =? id)%N then Some i else find_local id r (S i)
  end.
(** composite.rs:179 commit_id_to_pos: first segment (newest first) that knows the id *)
Fixpoint commit_id_to_pos (st : stack) (id : N) : option nat :=
  match st with
  | [] => None
  | seg :: rest =>
    match find_local id seg 0 with
    | Some l => Some (l + num_commits rest)%nat
    | None => commit_id_to_pos rest id
    end
  end.
Fixpoint all_some {A} (l : list (option A)) : option (list A) :=
  match l with
  | [] => Some []
  | Some x :: r => match all_some r with Some xs => Some (x :: xs) | None => None end
  | None :: _ => None
  end.
(** mutable.rs:129 add_commit_data on the top (mutable) segment; [None] = a parent is not
    indexed (the [expect] panics) *)
Definition add_commit_data (st : stack) (id : N) (parent_ids : list N) : option stack :=
  match commit_id_to_pos st id with
  | Some _ => Some st
  | None =>
    match all_some (map (commit_id_to_pos st) parent_ids) with
    | None => None
    | Some ps =>
      match st with
      | [] => Some [[(id, ps)]]
      | top :: rest => Some ((top ++ [(id, ps)]) :: rest)
      end
    end
  end.
(** mutable.rs:166-198 merge_in / add_commits_from: the other index's commits are re-added
    in its own order through add_commit_data (known ids are skipped, parents are looked up by
    id); skipping the segments both stacks share is only a shortcut. [other] is the other
    index's flat entry list. *)
Definition ids_of_parents (fl : list sentry) (ps : list nat) : list N :=
  map (fun p => fst (nth p fl (0%N, []))) ps.
Definition merge_in (st : stack) (other : list sentry) : option stack :=
  fold_left (fun acc e => match acc with
                          | Some s => add_commit_data s (fst e) (ids_of_parents other (snd e))
                          | None => None
                          end) other (Some st).
(** the flat index the queries see: all entries, oldest first *)
Definition flat (st : stack) : list sentry := concat (rev st).
Definition flat_graph (st : stack) : graph := map snd (flat st).

(** mutable.rs:318 maybe_squash_with_ancestors: walk the parent files, absorbing each one
    unless it has more than twice the commits collected so far. On sizes (newest first): *)
Fixpoint squash_sizes (num_new : nat) (files : list nat) : list nat :=
  match files with
  | [] => [num_new]
  | f :: rest => if (C18_SQUASH_FACTOR * num_new <? f)%nat then num_new :: files
                 else squash_sizes (num_new + f) rest
  end.
(** on segments: the absorbed files are re-added oldest first, then the mutable segment
    (add_commits_from); positions do not change *)
Fixpoint squash_segs (top : segment) (files : list segment) : stack :=
  match files with
  | [] => [top]
  | f :: rest => if (C18_SQUASH_FACTOR * length top <? length f)%nat then top :: files
                 else squash_segs (f ++ top) rest
  end.
(** store.rs:457 save_mutable_index: squash, then save; an empty mutable segment on top of a
    parent file is dropped (mutable.rs:349) *)
Definition saved_levels (num_new : nat) (files : list nat) : list nat :=
  match squash_sizes num_new files with
  | O :: (_ :: _) as rest => rest
  | l => l
  end.

(** ** graph specification used by the checker (meaning proved in Base/DagI.v) *)
Definition all_pos_desc (g : graph) : list nat := rev (seq 0 (length g)).
Definition common_set (g : graph) (s1 s2 : list nat) : list nat :=
  let t := ancsets g in
  filter (fun x => anc_any_t t s1 x && anc_any_t t s2 x) (all_pos_desc g).
Definition spec_common (g : graph) (s1 s2 : list nat) : list nat :=
  heads_of g (common_set g s1 s2).
Definition spec_heads (g : graph) (cands : list nat) : list nat :=
  heads_of g (dedup_adj (heap_from cands)).
(** heads(roots..heads & filter) with every parent followed: the maximal commits among the
    ancestors of [heads] that are not ancestors of [roots] and pass the filter *)
Definition spec_heads_range (g : graph) (roots heads : list nat) (flt : nat -> bool) : list nat :=
  let t := ancsets g in
  heads_of g (List.filter (fun x => anc_any_t t heads x && negb (anc_any_t t roots x) && flt x)
                          (all_pos_desc g)).

Definition in_range (g : graph) (l : list nat) : bool :=
  forallb (fun x => (x <? length g)%nat) l.

(** a restricted parent range: the answer is checked against the (unique-solution)
    characterisation of Proofs/C18.v [rsel], evaluated on the answer itself *)
Definition unw_b (t : list N) (rs r : list nat) (x : nat) : bool :=
  anc_any_t t rs x || existsb (fun f => negb (f =? x)%nat && ancb_t t x f) r.
Definition rreach_step (g : graph) (t : list N) (rs r : list nat) (flt : nat -> bool) (lo hi : nat)
    (acc : list nat) (y : nat) : list nat :=
  if memn y acc && negb (unw_b t rs r y) && negb (flt y)
  then slice_range lo hi (parents g y) ++ acc else acc.
Definition rreach_set (g : graph) (t : list N) (rs hs r : list nat) (flt : nat -> bool) (lo hi : nat)
    : list nat :=
  fold_left (rreach_step g t rs r flt lo hi) (all_pos_desc g) hs.
Definition rsel_ok (g : graph) (rs hs : list nat) (flt : nat -> bool) (lo hi : nat) (r : list nat) : bool :=
  let t := ancsets g in
  let S := rreach_set g t rs hs r flt lo hi in
  forallb (fun x => Bool.eqb (memn x r) (memn x S && negb (unw_b t rs r x) && flt x))
          (all_pos_desc g) &&
  in_range g r && in_range g hs.

(** ** correspondence case *)
Inductive query :=
| QAnc (a d : nat) (res : bool)               (* Index::is_ancestor *)
| QHeads (cands : list nat) (res : list nat)  (* Index::heads *)
| QCommon (s1 s2 : list nat) (res : list nat) (* Index::common_ancestors *)
| QGen (x : nat) (res : nat)                  (* DefaultReadonlyIndex::generation_number *)
| QAllHeads (res : list nat)                  (* Index::all_heads_for_gc *)
| QHeadsRange (roots heads : list nat) (lo hi : nat) (fset : option (list nat)) (res : list nat).
                                              (* ResolvedExpression::HeadsRange, filter = in set *)

Record snap := mk_snap {
  s_graph : graph;             (* parents by position, positions from the index's own order *)
  s_queries : list query;
}.
(** one committed transaction: segment sizes (oldest first, as IndexStats lists them) before,
    number of commits the transaction added, sizes after *)
Definition level_obs := (list nat * nat * list nat)%type.
(** one commit index segment file as found on disk *)
Record seg_file := mk_file {
  f_parent : list N;           (* parent segment file name (hex, ASCII), empty for the root file *)
  f_entries : list centry;     (* the segment's commits by local position: ids from the store,
                                  generation from the index API, parents from the commits *)
  f_bytes : list N;            (* impl: the bytes of index/segments/<name> *)
}.
(** two concurrent operations merged: flat entries (node number, parent positions) of the
    index of the operation that finished first, of the other one, and the node numbers of the
    merged index by position *)
Definition merge_obs := (list sentry * list sentry * list N)%type.
Record case := mk_case {
  c_snaps : list snap;         (* the same repo observed at several points *)
  c_merges : list merge_obs;   (* impl: index order after merging concurrent operations *)
  c_levels : list level_obs;   (* impl: IndexStats::commit_levels around plain transactions *)
  c_files : list seg_file;     (* impl: the segment files of the final index *)
  c_panicked : bool;
}.

Definition lnat_eqb : list nat -> list nat -> bool := list_eqb Nat.eqb.

(** Model vs implementation. *)
Definition query_corr (g : graph) (q : query) : bool :=
  match q with
  | QAnc a d r => option_eqb Bool.eqb (is_ancestor_pos g a d) (Some r)
  | QHeads c r => option_eqb lnat_eqb (heads g c) (Some r)
  | QCommon s1 s2 r => option_eqb lnat_eqb (common_ancestors_pos g s1 s2) (Some r)
  | QGen x r => (gen g x =? r)%nat
  | QAllHeads r => lnat_eqb (all_heads_pos g) r
  | QHeadsRange rs hs lo hi fs r =>
      option_eqb lnat_eqb
        (heads_range g rs hs lo hi (match fs with Some l => fun x => memn x l | None => fun _ => true end))
        (Some r)
  end.

(** The property, checked on the implementation's answer against the graph itself. *)
Definition query_ok (g : graph) (q : query) : bool :=
  match q with
  | QAnc a d r => Bool.eqb (ancb g a d) r && in_range g [a; d]
  | QHeads c r => lnat_eqb (spec_heads g c) r && in_range g c
  | QCommon s1 s2 r => lnat_eqb (spec_common g s1 s2) r && in_range g s1 && in_range g s2
  | QGen x r =>
      (r =? list_max (map (fun p => S (gen g p)) (parents g x)))%nat
  | QAllHeads r => lnat_eqb (rev (heads_of g (all_pos_desc g))) r
  | QHeadsRange rs hs lo hi fs r =>
      (* the declarative statement covers the case in which every parent is followed *)
      if (lo =? 0)%nat && forallb (fun ps => (length ps <=? hi)%nat) g
      then lnat_eqb (spec_heads_range g rs hs
                       (match fs with Some l => fun x => memn x l | None => fun _ => true end)) r
           && in_range g rs && in_range g hs
      else
        (* as the engine calls it: roots de-duplicated, heads minus roots *)
        let rs' := dedup_adj (heap_from rs) in
        let hs' := List.filter (fun h => negb (memn h rs')) (dedup_adj (heap_from hs)) in
        rsel_ok g rs' hs' (match fs with Some l => fun x => memn x l | None => fun _ => true end) lo hi r
  end.

Definition snap_corr (s : snap) : bool := forallb (query_corr (s_graph s)) (s_queries s).
Definition snap_ok (s : snap) : bool :=
  wfb (s_graph s) && forallb (query_ok (s_graph s)) (s_queries s).

Definition level_corr (o : level_obs) : bool :=
  let '(before, added, after) := o in
  lnat_eqb (rev (saved_levels added (rev before))) after.
(** what the squash rule guarantees: no commit is lost, and the newest segment that was
    written has fewer than half the commits of the segment below it *)
Definition level_ok (o : level_obs) : bool :=
  let '(before, added, after) := o in
  (list_sum after =? list_sum before + added)%nat &&
  match rev after with
  | x :: y :: _ => (2 * x <? y)%nat || (added =? 0)%nat
  | _ => true
  end.

(** the writer model reproduces the file byte for byte *)
Definition file_corr (f : seg_file) : bool :=
  bytes_eqb (encode_file (f_parent f) (f_entries f)) (f_bytes f).
(** reading the real bytes the way the index does gives back every commit's generation,
    parents (any number) and id *)
Definition entry3_eqb (a b : N * list N * list N) : bool :=
  let '(g1, p1, i1) := a in let '(g2, p2, i2) := b in
  (g1 =? g2)%N && list_eqb N.eqb p1 p2 && bytes_eqb i1 i2.
Definition file_ok (f : seg_file) : bool :=
  let idlen := match f_entries f with e :: _ => length (ce_id e) | [] => O end in
  let chlen := match f_entries f with e :: _ => length (ce_change e) | [] => O end in
  match decode_file idlen chlen (f_bytes f) with
  | Some (p, ents) =>
      bytes_eqb p (f_parent f) &&
      list_eqb entry3_eqb ents (map (fun e => (ce_gen e, ce_parents e, ce_id e)) (f_entries f))
  | None => false
  end.

Definition merge_corr (o : merge_obs) : bool :=
  let '(own, other, merged) := o in
  match merge_in [own] other with
  | Some st => list_eqb N.eqb (map fst (flat st)) merged
  | None => false
  end.
(** nothing of either side is lost, the own index keeps its positions, the result is a
    well-formed index *)
Definition merge_ok (o : merge_obs) : bool :=
  let '(own, other, merged) := o in
  list_eqb N.eqb (firstn (length own) merged) (map fst own) &&
  forallb (fun e => existsb (N.eqb (fst e)) merged) other &&
  forallb (fun x => existsb (fun e => (fst e =? x)%N) (own ++ other)) merged &&
  (fix nodup (l : list N) := match l with [] => true | x :: r => negb (existsb (N.eqb x) r) && nodup r end) merged.

Definition okb (c : case) : bool :=
  negb (c_panicked c) && forallb snap_ok (c_snaps c) && forallb level_ok (c_levels c) &&
  forallb file_ok (c_files c) && forallb merge_ok (c_merges c).
Definition check_case (c : case) : N :=
  verdict (forallb snap_corr (c_snaps c) && forallb level_corr (c_levels c) &&
           forallb file_corr (c_files c) && forallb merge_corr (c_merges c) && negb (c_panicked c))
          (okb c) false 1.
