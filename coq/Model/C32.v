(** C32 — workspace path conversion (lib/src/repo_path.rs, lib/src/file_util.rs), Unix.
    File-system paths and repository paths are byte strings. [components] and [push] model
    [std::path::Path::components] / [PathBuf::push] on Unix (code jj does not own): they are
    validated against the real std on every run (observations [OComponents], [OJoin]).
    Definitions only; proofs are in Proofs/C32.v. *)
From Verif Require Import Base.Prelude.
Local Open Scope N_scope.

Definition SLASH : N := 47.
Definition DOT : N := 46.
Definition is_slash (b : N) : bool := N.eqb b SLASH.

(** * std::path on Unix *)
Inductive comp := Root | CurDir | ParentDir | Normal (name : bytes).

Definition comp_eqb (a b : comp) : bool :=
  match a, b with
  | Root, Root | CurDir, CurDir | ParentDir, ParentDir => true
  | Normal x, Normal y => bytes_eqb x y
  | _, _ => false
  end.

(** [str::split('/')]: always at least one piece; pieces may be empty. *)
Fixpoint split_slash (s : bytes) : list bytes :=
  match s with
  | [] => [[]]
  | b :: t =>
      if is_slash b then [] :: split_slash t
      else match split_slash t with
           | h :: r => (b :: h) :: r
           | [] => [[b]]
           end
  end.

Definition is_dot (p : bytes) : bool := bytes_eqb p [DOT].
Definition is_dotdot (p : bytes) : bool := bytes_eqb p [DOT; DOT].
Definition is_nil {A} (p : list A) : bool := match p with [] => true | _ => false end.

(** A piece after the first: empty pieces (repeated or trailing separators) and "." are
    skipped, ".." is [ParentDir]. *)
Definition classify (p : bytes) : list comp :=
  if is_nil p || is_dot p then []
  else if is_dotdot p then [ParentDir] else [Normal p].
(** The first piece: a leading "." (of a path without root) is kept as [CurDir]. *)
Definition head_piece (p : bytes) : list comp :=
  if is_dot p then [CurDir] else classify p.

Definition has_root (s : bytes) : bool :=
  match s with b :: _ => is_slash b | [] => false end.

Definition tail_comps (s : bytes) : list comp := flat_map classify (split_slash s).

(** [Path::components] (Unix): a leading separator gives [RootDir] (its first piece is then
    empty, so a "." behind the root is dropped like any other). *)
Definition components (s : bytes) : list comp :=
  (if has_root s then [Root] else [])
  ++ match split_slash s with
     | first :: rest => head_piece first ++ flat_map classify rest
     | [] => []
     end.

(** [PathBuf::push] (Unix): an absolute argument replaces the buffer; otherwise a separator
    is added unless the buffer is empty or already ends with one. [Path::join] = clone+push. *)
Definition ends_with_slash (s : bytes) : bool :=
  match rev s with b :: _ => is_slash b | [] => false end.
Definition push (buf p : bytes) : bytes :=
  if has_root p then p
  else if is_nil buf || ends_with_slash buf then buf ++ p
  else buf ++ SLASH :: p.

Definition comp_bytes (c : comp) : bytes :=
  match c with
  | Root => [SLASH]
  | CurDir => [DOT]
  | ParentDir => [DOT; DOT]
  | Normal n => n
  end.

(** A [PathBuf] built by pushing components one after the other. *)
Definition render (l : list comp) : bytes := fold_left push (map comp_bytes l) [].

(** [str::from_utf8] acceptance (std; the well-formed byte sequences of Unicode table 3-7). *)
Definition in_range (lo hi b : N) : bool := (lo <=? b) && (b <=? hi).
Definition cont (b : N) : bool := in_range 128 191 b.
Fixpoint utf8_valid (s : bytes) : bool :=
  match s with
  | [] => true
  | b :: t =>
      if b <? 128 then utf8_valid t
      else if in_range 194 223 b then
        match t with c1 :: t1 => cont c1 && utf8_valid t1 | _ => false end
      else if in_range 224 239 b then
        match t with
        | c1 :: c2 :: t2 =>
            (if b =? 224 then in_range 160 191 c1
             else if b =? 237 then in_range 128 159 c1 else cont c1)
            && cont c2 && utf8_valid t2
        | _ => false
        end
      else if in_range 240 244 b then
        match t with
        | c1 :: c2 :: c3 :: t3 =>
            (if b =? 240 then in_range 144 191 c1
             else if b =? 244 then in_range 128 143 c1 else cont c1)
            && cont c2 && cont c3 && utf8_valid t3
        | _ => false
        end
      else false
  end.

(** * lib/src/file_util.rs *)

(** One iteration of the loop of [normalize_path] (file_util.rs:171-186); the stack holds the
    components of [result], last one first. [result.push(RootDir)] replaces the buffer. *)
Definition norm_step (stk : list comp) (c : comp) : list comp :=
  match c with
  | CurDir => stk
  | ParentDir =>
      match stk with
      | Normal _ :: t => t            (* result.pop() *)
      | _ => ParentDir :: stk         (* do not pop ".." (nor the root, nor nothing) *)
      end
  | Root => [Root]
  | Normal _ => c :: stk
  end.

Definition normalize_comps (l : list comp) : list comp :=
  match rev (fold_left norm_step l []) with
  | [] => [CurDir]                    (* if result.as_os_str().is_empty() { ".".into() } *)
  | r => r
  end.

(** [normalize_path] (file_util.rs:171-193). *)
Definition normalize_path (p : bytes) : bytes := render (normalize_comps (components p)).

(** [strip_common_path_prefix] (file_util.rs:154-168) after the first pair matched. *)
Fixpoint strip_common (l1 l2 : list comp) : list comp * list comp :=
  match l1, l2 with
  | c1 :: t1, c2 :: t2 => if comp_eqb c1 c2 then strip_common t1 t2 else (l1, l2)
  | _, _ => (l1, l2)
  end.

(** [relative_path] (file_util.rs:136-152) on component sequences: [to] unchanged when not
    even the first components agree. *)
Definition relative_comps (from to : list comp) : list comp :=
  match from, to with
  | c1 :: t1, c2 :: t2 =>
      if comp_eqb c1 c2 then
        let (s1, s2) := strip_common t1 t2 in
        repeat ParentDir (length s1)
        ++ match s2 with
           | [] => match s1 with [] => [CurDir] | _ => [] end
           | _ => s2
           end
      else to
  | _, _ => to
  end.

(** * lib/src/repo_path.rs *)
Inductive res (A : Type) := Ok (a : A) | Err (e : N).
Arguments Ok {A} a.
Arguments Err {A} e.
Definition E_COMPONENT : N := 1.   (* RelativePathParseError::InvalidComponent *)
Definition E_UTF8 : N := 2.        (* RelativePathParseError::InvalidUtf8 *)
Definition E_FS_NAME : N := 3.     (* InvalidRepoPathError (component rejected by to_fs_name) *)
Definition E_NEW : N := 4.         (* InvalidNewRepoPathError (from_internal_string) *)

Fixpoint join_slash (l : list bytes) : bytes :=
  match l with
  | [] => []
  | [x] => x
  | x :: t => x ++ SLASH :: join_slash t
  end.

(** The component loop of [from_relative_path]: the first offending component decides. *)
Fixpoint names_of (l : list comp) : res (list bytes) :=
  match l with
  | [] => Ok []
  | Normal n :: t =>
      if utf8_valid n then
        match names_of t with Ok r => Ok (n :: r) | Err e => Err e end
      else Err E_UTF8
  | _ :: _ => Err E_COMPONENT
  end.

Definition comps_eqb (a b : list comp) : bool := list_eqb comp_eqb a b.

(** [RepoPathBuf::from_relative_path] (repo_path.rs:263-294). *)
Definition from_relative_comps (l : list comp) : res bytes :=
  if list_eqb comp_eqb l [CurDir] then Ok []
  else match names_of l with
       | Ok ns => Ok (join_slash ns)
       | Err e => Err e
       end.
Definition from_relative_path (p : bytes) : res bytes := from_relative_comps (components p).

(** [RepoPathBuf::parse_fs_path] (repo_path.rs:302-315). *)
Definition parse_fs_path (cwd base input : bytes) : res bytes :=
  let abs_input_path := normalize_path (push cwd input) in
  from_relative_comps (relative_comps (components base) (components abs_input_path)).

(** [RepoPathComponentsIter::next] (repo_path.rs:175-186). *)
Fixpoint rc_go (acc : bytes) (s : bytes) : list bytes :=
  match s with
  | [] => [rev acc]
  | b :: t =>
      if is_slash b then rev acc :: match t with [] => [] | _ => rc_go [] t end
      else rc_go (b :: acc) t
  end.
Definition repo_components (s : bytes) : list bytes :=
  match s with [] => [] | _ => rc_go [] s end.

(** [is_valid_repo_path_str] (repo_path.rs:647-649). *)
Fixpoint has_double_slash (s : bytes) : bool :=
  match s with
  | a :: ((b :: _) as t) => (is_slash a && is_slash b) || has_double_slash t
  | _ => false
  end.
Definition is_valid_repo_path_str (s : bytes) : bool :=
  negb (has_root s) && negb (ends_with_slash s) && negb (has_double_slash s).

(** [RepoPathComponent::to_fs_name] (repo_path.rs:94-106). *)
Definition to_fs_name (value : bytes) : bool :=
  match components value with
  | [Normal name] => bytes_eqb name value
  | _ => false
  end.

(** [RepoPath::to_fs_path] (repo_path.rs:368-378). *)
Fixpoint push_names (buf : bytes) (l : list bytes) : res bytes :=
  match l with
  | [] => Ok buf
  | c :: t => if to_fs_name c then push_names (push buf c) t else Err E_FS_NAME
  end.
Definition to_fs_path (base p : bytes) : res bytes :=
  match push_names (push [] base) (repo_components p) with
  | Ok q => Ok (if is_nil q then push q [DOT] else q)
  | Err e => Err e
  end.

(** * Correspondence case *)
Definition comps_code (l : list comp) : list (N * bytes) :=
  map (fun c => match c with
                | Root => (0, []) | CurDir => (1, []) | ParentDir => (2, [])
                | Normal n => (3, n)
                end) l.
Definition code_eqb : list (N * bytes) -> list (N * bytes) -> bool :=
  list_eqb (pair_eqb N.eqb bytes_eqb).
Definition res_eqb (a b : res bytes) : bool :=
  match a, b with
  | Ok x, Ok y => bytes_eqb x y
  | Err e, Err f => N.eqb e f
  | _, _ => false
  end.

Inductive obs :=
| OComponents (s : bytes) (r : list (N * bytes))      (* Path::new(s).components() *)
| OJoin (a b r : bytes)                              (* Path::new(a).join(b) *)
| OUtf8 (s : bytes) (r : bool)                       (* std::str::from_utf8(s).is_ok() *)
| ONormalize (s r : bytes)                           (* file_util::normalize_path *)
| ORelative (from to r : bytes)                      (* file_util::relative_path *)
| OFromRelative (s : bytes) (r : res bytes)          (* RepoPathBuf::from_relative_path *)
| OParse (cwd base input : bytes) (r : res bytes)    (* RepoPathBuf::parse_fs_path *)
| OToFs (base p : bytes) (r : res bytes).            (* RepoPath::from_internal_string + to_fs_path *)

Record case := mk_case { c_obs : list obs; c_panicked : bool }.

Definition obs_corr (o : obs) : bool :=
  match o with
  | OComponents s r => code_eqb (comps_code (components s)) r
  | OJoin a b r => bytes_eqb (push a b) r
  | OUtf8 s r => Bool.eqb (utf8_valid s) r
  | ONormalize s r => bytes_eqb (normalize_path s) r
  | ORelative from to r =>
      comps_eqb (relative_comps (components from) (components to)) (components r)
  | OFromRelative s r => res_eqb (from_relative_path s) r
  | OParse cwd base input r => res_eqb (parse_fs_path cwd base input) r
  | OToFs base p r =>
      res_eqb (if is_valid_repo_path_str p then to_fs_path base p else Err E_NEW) r
  end.

(** The property on the implementation's answers. *)
Definition good_name (n : bytes) : bool :=
  negb (is_nil n) && negb (existsb is_slash n) && negb (is_dot n) && negb (is_dotdot n).
Definition all_normal_good (l : list comp) : bool :=
  forallb (fun c => match c with Normal n => good_name n | _ => false end) l.

Fixpoint lookup_parse (l : list obs) (cwd base input : bytes) : option (res bytes) :=
  match l with
  | [] => None
  | OParse c b i r :: t =>
      if bytes_eqb cwd c && bytes_eqb base b && bytes_eqb input i then Some r
      else lookup_parse t cwd base input
  | _ :: t => lookup_parse t cwd base input
  end.
Fixpoint lookup_tofs (l : list obs) (base p : bytes) : option (res bytes) :=
  match l with
  | [] => None
  | OToFs b q r :: t =>
      if bytes_eqb base b && bytes_eqb p q then Some r else lookup_tofs t base p
  | _ :: t => lookup_tofs t base p
  end.

Definition base_ok (base : bytes) : bool :=
  has_root base && comps_eqb (normalize_comps (components base)) (components base).

Definition ores_eqb (a : option (res bytes)) (b : res bytes) : bool :=
  match a with Some x => res_eqb x b | None => false end.

(** - a produced file-system path is [base]'s components followed by good normal
      components only (or "." for the root of an empty base), and every path parsed from it
      in the case (base absolute and normalized) is the repository path again;
    - a parsed repository path has only good components, and (base and joined input
      absolute) converting it back gives the same location as the input. *)
Definition obs_okb (all : list obs) (o : obs) : bool :=
  match o with
  | OToFs base p (Ok q) =>
      let names := repo_components p in
      forallb good_name names
      && (comps_eqb (components q) (components base ++ map Normal names)
          || (is_nil base && is_nil names && bytes_eqb q [DOT]))
      && forallb (fun o' => match o' with
                            | OParse cwd b i r =>
                                negb (bytes_eqb b base && bytes_eqb i q && base_ok base
                                      && forallb utf8_valid names)
                                || res_eqb r (Ok p)
                            | _ => true
                            end) all
  | OParse cwd base input (Ok p) =>
      let names := repo_components p in
      forallb good_name names && is_valid_repo_path_str p
      && (negb (has_root base && has_root (push cwd input))
          || match lookup_tofs all base p with
             | Some (Ok q) =>
                 comps_eqb (components q) (normalize_comps (components (push cwd input)))
             | _ => false
             end)
  | _ => true
  end.

Definition okb (c : case) : bool :=
  negb (c_panicked c) && forallb (obs_okb (c_obs c)) (c_obs c).

Definition check_case (c : case) : N :=
  let corr := negb (c_panicked c) && forallb obs_corr (c_obs c) in
  verdict corr (okb c) false 1.
