(** C10 correspondence case and property checker: visible heads are normalized and cover
    everything referenced. Definitions only. *)
From Verif Require Export Base.Prelude Base.DagV Model.Merge Model.RepoV.

Record case := mk_case {
  k_ops : list op;          (* operations applied to a fresh repo (MutableRepo API calls) *)
  k_outcome : N;            (* impl: 0 all ok, 1 last op returned Err, 2 last op panicked *)
  k_views : list view;      (* impl: view of the repo returned by each Transaction::commit *)
  k_graph : list commit;    (* impl: every commit the driver saw, creation order *)
}.

(** The invariant of a committed view, as a boolean on the implementation's output.
    [g] is the parent graph the view lives in. *)
Definition inv_b (g : dag) (v : view) : bool :=
  let hs := v_heads v in
  let vis := ancs g hs in
  negb (match hs with [] => true | _ => false end)
  && forallb (fun x => forallb (fun y => Nat.eqb x y || negb (ancb g x y)) hs) hs
  && (negb (memn 0 hs) || list_nat_eqb hs [0])
  && forallb (fun b => forallb (fun c => memn c vis) (added_ids (snd b))) (v_bms v)
  && forallb (fun w => memn (snd w) vis) (v_wcs v).

Definition okb (c : case) : bool :=
  wf_dagb (pg (k_graph c)) && forallb (inv_b (pg (k_graph c))) (k_views c).

Definition outcome_code {A} (r : res A) : N :=
  match r with Ok _ => 0 | Err => 1 | Panic => 2 | Fuel => 3 end.

Definition check_case (c : case) : N :=
  let '(r, views) := run init_state (k_ops c) [] in
  let corr_views := list_eqb view_obs_eqb views (k_views c) in
  let corr_out := N.eqb (outcome_code r) (k_outcome c) in
  let corr_graph :=
    match r with
    | Ok s => list_eqb commit_eqb (s_g s) (k_graph c)
    | _ => true
    end in
  verdict (corr_views && corr_out && corr_graph) (okb c) false
          (if negb corr_out then 1 else if negb corr_views then 2 else if negb corr_graph then 3 else 4).
