(** C03 correspondence cases: a full diff (inputs, configuration, the hunks and the raw
    matchings the implementation produced), a bare [collect_unchanged_words] run on
    one-byte tokens, or a bare [find_lcs] run. Definitions only. *)
From Verif Require Import Base.Prelude Gen.Tables Model.Diff.
From Coq Require Import Arith.

Inductive case :=
| DiffCase (inputs : list bytes)             (* >= 1 input, base first *)
           (cfg : list (N * N))              (* (tokenizer, comparator) codes: for_tokenizer, then refinements *)
           (impl_hunks : list (bool * list (N * N)))   (* hunk_ranges(): Matching?, byte ranges *)
           (impl_matchings : list (list (N * N)))      (* collect_unchanged_words(base, other_i), first step *)
           (same_twice : bool)               (* a second run in the same process gave identical hunks *)
           (panicked : bool)
| MatchCase (left right : bytes)             (* one-byte tokens *)
            (impl_matching : list (N * N))
            (same_twice : bool) (panicked : bool)
| LcsCase (input : list N) (impl_result : list (N * N)) (panicked : bool).

(** The constants of Model/Diff.v are the ones in the source (scraped into Gen/Tables.v). *)
Definition tab1 (l : list N) : N := hd 0%N l.
Definition tables_okb : bool :=
  pair_eqb N.eqb N.eqb word_r1 (tab1 DIFF_WORD_R1_LO, tab1 DIFF_WORD_R1_HI)
  && pair_eqb N.eqb N.eqb word_r2 (tab1 DIFF_WORD_R2_LO, tab1 DIFF_WORD_R2_HI)
  && pair_eqb N.eqb N.eqb word_r3 (tab1 DIFF_WORD_R3_LO, tab1 DIFF_WORD_R3_HI)
  && N.eqb word_single (tab1 DIFF_WORD_SINGLE)
  && pair_eqb N.eqb N.eqb word_r4 (tab1 DIFF_WORD_R4_LO, tab1 DIFF_WORD_R4_HI)
  && (max_occurrences =? DIFF_MAX_OCCURRENCES).

Definition tok_of (n : N) : tokenizer :=
  match n with 0%N => TokLine | 1%N => TokWord | 2%N => TokNonword | _ => TokNone end.
Definition cmp_of (n : N) : comparator :=
  match n with 0%N => CmpExact | 1%N => CmpWsAll | _ => CmpWsAmount end.
Definition steps_of (cfg : list (N * N)) : steps :=
  map (fun p => (tok_of (fst p), cmp_of (snd p))) cfg.

Definition nat_pairs (l : list (N * N)) : list (nat * nat) :=
  map (fun p => (N.to_nat (fst p), N.to_nat (snd p))) l.
Definition hunks_of (l : list (bool * list (N * N))) : list hunk :=
  map (fun h => (fst h, nat_pairs (snd h))) l.

Definition pair_nat_eqb := pair_eqb Nat.eqb Nat.eqb.
Definition region_eqb : region -> region -> bool := list_eqb pair_nat_eqb.
Definition hunk_eqb : hunk -> hunk -> bool := pair_eqb Bool.eqb region_eqb.
Definition matching_eqb : list (nat * nat) -> list (nat * nat) -> bool := list_eqb pair_nat_eqb.

(** * The property checker, evaluated on the implementation's hunks *)

(** Concatenating input [i]'s slices over all hunks gives back input [i], for every input;
    every hunk has one range per input. *)
Fixpoint side_concat (x : bytes) (i : nat) (hs : list hunk) : bytes :=
  match hs with
  | [] => []
  | h :: t => (let rg := nth i (snd h) (0, 0) in slice x (fst rg) (snd rg)) ++ side_concat x i t
  end.
Definition partition_okb (inputs : list bytes) (hs : list hunk) : bool :=
  forallb (fun h => length (snd h) =? length inputs) hs
  && forallb (fun ix => bytes_eqb (side_concat (snd ix) (fst ix) hs) (snd ix))
             (combine (seq 0 (length inputs)) inputs).

(** No hunk is empty on every side. *)
Definition nonempty_okb (inputs : list bytes) (hs : list hunk) : bool :=
  forallb (fun h => existsb (fun x => negb (is_nil x)) (contents inputs (snd h))) hs.

(** Matching and Different hunks never appear twice in a row. *)
Fixpoint alternate_okb (hs : list hunk) : bool :=
  match hs with
  | h1 :: ((h2 :: _) as t) => negb (Bool.eqb (fst h1) (fst h2)) && alternate_okb t
  | _ => true
  end.

(** Matching hunks are equal under the comparison (checked when all steps use one). *)
Definition uniform_cmp (s : steps) : option comparator :=
  match s with
  | [] => None
  | (_, c) :: t =>
      if forallb (fun tc => match snd tc, c with
                            | CmpExact, CmpExact | CmpWsAll, CmpWsAll | CmpWsAmount, CmpWsAmount => true
                            | _, _ => false
                            end) t
      then Some c else None
  end.
Definition matching_okb (c : comparator) (inputs : list bytes) (hs : list hunk) : bool :=
  forallb (fun h => negb (fst h)
                    || match contents inputs (snd h) with
                       | [] => true
                       | x :: t => forallb (fun y => bytes_eqb (norm c y) (norm c x)) t
                       end) hs.

Definition hunks_okb (s : steps) (inputs : list bytes) (hs : list hunk) : bool :=
  partition_okb inputs hs && nonempty_okb inputs hs && alternate_okb hs
  && match uniform_cmp s with Some c => matching_okb c inputs hs | None => true end.

(** A raw matching is in range, strictly increasing in both coordinates and token-equal. *)
Definition matching_validb {T} (eqb : T -> T -> bool) (lw rw : list T) (m : list (nat * nat)) : bool :=
  valid_matchingb (length lw) (length rw) m && eq_matchingb eqb lw rw m.

(** A [find_lcs] result: strictly increasing in both coordinates, and [input[r] = l]. *)
Definition lcs_validb (input : list nat) (res : list (nat * nat)) : bool :=
  incrb res && forallb (fun p => match nth_error input (snd p) with
                                 | Some l => l =? fst p
                                 | None => false
                                 end) res.

Definition first_step_words (s : steps) (inputs : list bytes) : list (list bytes) :=
  match s with
  | [] => []
  | (t, c) :: _ =>
      let any_empty := existsb is_nil inputs in
      map (fun x => words c x (if any_empty then [] else tokenize t x)) inputs
  end.

Definition okb (c : case) : bool :=
  match c with
  | DiffCase inputs cfg ih im same panicked =>
      let s := steps_of cfg in
      negb panicked && same
      && hunks_okb s inputs (hunks_of ih)
      && match first_step_words s inputs with
         | [] => true
         | bw :: ows =>
             (length im =? length ows)
             && forallb (fun wm => matching_validb bytes_eqb bw (fst wm) (nat_pairs (snd wm)))
                        (combine ows im)
         end
  | MatchCase l r im same panicked =>
      negb panicked && same && matching_validb N.eqb l r (nat_pairs im)
  | LcsCase input res panicked =>
      negb panicked
      && (lcs_validb (map N.to_nat input) (nat_pairs res))
      && (is_nil input || negb (is_nil res))
  end.

(** * Correspondence: the model reproduces the implementation's outputs *)

(** The first-step matchings are computed once and looked up again while the hunks are
    assembled ([M_memo table] equals [M_hist] when the table holds [M_hist] results:
    Proofs/C03.v, [M_memo_correct]). *)
Definition words_eqb : list bytes -> list bytes -> bool := list_eqb bytes_eqb.
Definition M_memo (table : list (list bytes * list bytes * list (nat * nat)))
           (a b : list bytes) : list (nat * nat) :=
  match find (fun e => words_eqb (fst (fst e)) a && words_eqb (snd (fst e)) b) table with
  | Some e => snd e
  | None => M_hist a b
  end.

(** The reversed-table model is evaluated on cases up to this many input bytes (its
    independence of the order is proved in general: C03_deterministic). *)
Definition rev_limit : nat := 3000.

Definition corrb (c : case) : bool :=
  match c with
  | DiffCase inputs cfg ih im same panicked =>
      let s := steps_of cfg in
      negb panicked
      && match first_step_words s inputs with
         | [] => is_nil im && list_eqb hunk_eqb (diff_hunks s inputs) (hunks_of ih)
         | bw :: ows =>
             let ms := map (M_hist bw) ows in
             let table := map (fun om => (bw, fst om, snd om)) (combine ows ms) in
             list_eqb matching_eqb ms (map nat_pairs im)
             && list_eqb hunk_eqb (hunks (run_steps (M_memo table) s inputs)) (hunks_of ih)
         end
      && (if rev_limit <? length (concat inputs) then true
          else list_eqb hunk_eqb (hunks (run_steps M_hist_rev s inputs)) (hunks_of ih))
  | MatchCase l r im same panicked =>
      negb panicked
      && matching_eqb (collect_unchanged_words N.eqb (fun h => h) max_occurrences l r) (nat_pairs im)
      && matching_eqb (collect_unchanged_words N.eqb (@rev _) max_occurrences l r) (nat_pairs im)
  | LcsCase input res panicked =>
      negb panicked && matching_eqb (find_lcs (map N.to_nat input)) (nat_pairs res)
  end.

Definition check_case (c : case) : N :=
  verdict (tables_okb && corrb c) (okb c) false
          (match c with DiffCase _ _ _ _ _ _ => 1 | MatchCase _ _ _ _ _ => 2 | LcsCase _ _ _ => 3 end).
