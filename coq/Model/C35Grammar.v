(** C35/C36: the pest rules the hand-written grammar models are written against, as scraped
    from lib/src/revset.pest, lib/src/fileset.pest and cli/src/template.pest on every run
    ([scraped_rules]), and the text they had when the models were written ([expected_rules]).
    Props/C35.v states that the two are equal, so an edit of any of these rules in /repo makes
    that theorem fail to re-check.  Definitions only. *)
From Coq Require Import String List.
From Verif Require Import Gen.Tables.
Import ListNotations.
Local Open Scope string_scope.

Definition scraped_rules : list (string * string) := [
  ("REVSET_RULE_WHITESPACE", REVSET_RULE_WHITESPACE);
  ("REVSET_RULE_IDENTIFIER_PART", REVSET_RULE_IDENTIFIER_PART);
  ("REVSET_RULE_IDENTIFIER", REVSET_RULE_IDENTIFIER);
  ("REVSET_RULE_STRICT_IDENTIFIER_PART", REVSET_RULE_STRICT_IDENTIFIER_PART);
  ("REVSET_RULE_STRICT_IDENTIFIER", REVSET_RULE_STRICT_IDENTIFIER);
  ("REVSET_RULE_SYMBOL", REVSET_RULE_SYMBOL);
  ("REVSET_RULE_STRING_ESCAPE", REVSET_RULE_STRING_ESCAPE);
  ("REVSET_RULE_STRING_CONTENT_CHAR", REVSET_RULE_STRING_CONTENT_CHAR);
  ("REVSET_RULE_STRING_CONTENT", REVSET_RULE_STRING_CONTENT);
  ("REVSET_RULE_STRING_LITERAL", REVSET_RULE_STRING_LITERAL);
  ("REVSET_RULE_RAW_STRING_CONTENT", REVSET_RULE_RAW_STRING_CONTENT);
  ("REVSET_RULE_RAW_STRING_LITERAL", REVSET_RULE_RAW_STRING_LITERAL);
  ("REVSET_RULE_AT_OP", REVSET_RULE_AT_OP);
  ("REVSET_RULE_FUNCTION", REVSET_RULE_FUNCTION);
  ("REVSET_RULE_FUNCTION_NAME", REVSET_RULE_FUNCTION_NAME);
  ("REVSET_RULE_PATTERN", REVSET_RULE_PATTERN);
  ("REVSET_RULE_PRIMARY", REVSET_RULE_PRIMARY);
  ("REVSET_RULE_NEIGHBORS_EXPRESSION", REVSET_RULE_NEIGHBORS_EXPRESSION);
  ("REVSET_RULE_RANGE_EXPRESSION", REVSET_RULE_RANGE_EXPRESSION);
  ("REVSET_RULE_EXPRESSION", REVSET_RULE_EXPRESSION);
  ("REVSET_RULE_PROGRAM", REVSET_RULE_PROGRAM);
  ("REVSET_RULE_SYMBOL_NAME", REVSET_RULE_SYMBOL_NAME);
  ("FILESET_RULE_WHITESPACE", FILESET_RULE_WHITESPACE);
  ("FILESET_RULE_IDENTIFIER", FILESET_RULE_IDENTIFIER);
  ("FILESET_RULE_STRICT_IDENTIFIER_PART", FILESET_RULE_STRICT_IDENTIFIER_PART);
  ("FILESET_RULE_STRICT_IDENTIFIER", FILESET_RULE_STRICT_IDENTIFIER);
  ("FILESET_RULE_STRING_ESCAPE", FILESET_RULE_STRING_ESCAPE);
  ("FILESET_RULE_STRING_CONTENT_CHAR", FILESET_RULE_STRING_CONTENT_CHAR);
  ("FILESET_RULE_STRING_CONTENT", FILESET_RULE_STRING_CONTENT);
  ("FILESET_RULE_STRING_LITERAL", FILESET_RULE_STRING_LITERAL);
  ("FILESET_RULE_RAW_STRING_CONTENT", FILESET_RULE_RAW_STRING_CONTENT);
  ("FILESET_RULE_RAW_STRING_LITERAL", FILESET_RULE_RAW_STRING_LITERAL);
  ("FILESET_RULE_FUNCTION", FILESET_RULE_FUNCTION);
  ("FILESET_RULE_FUNCTION_NAME", FILESET_RULE_FUNCTION_NAME);
  ("FILESET_RULE_PATTERN", FILESET_RULE_PATTERN);
  ("FILESET_RULE_PRIMARY", FILESET_RULE_PRIMARY);
  ("FILESET_RULE_EXPRESSION", FILESET_RULE_EXPRESSION);
  ("FILESET_RULE_PROGRAM", FILESET_RULE_PROGRAM);
  ("TEMPLATE_RULE_WHITESPACE", TEMPLATE_RULE_WHITESPACE);
  ("TEMPLATE_RULE_IDENTIFIER", TEMPLATE_RULE_IDENTIFIER);
  ("TEMPLATE_RULE_STRING_ESCAPE", TEMPLATE_RULE_STRING_ESCAPE);
  ("TEMPLATE_RULE_STRING_CONTENT_CHAR", TEMPLATE_RULE_STRING_CONTENT_CHAR);
  ("TEMPLATE_RULE_STRING_CONTENT", TEMPLATE_RULE_STRING_CONTENT);
  ("TEMPLATE_RULE_STRING_LITERAL", TEMPLATE_RULE_STRING_LITERAL);
  ("TEMPLATE_RULE_RAW_STRING_CONTENT", TEMPLATE_RULE_RAW_STRING_CONTENT);
  ("TEMPLATE_RULE_RAW_STRING_LITERAL", TEMPLATE_RULE_RAW_STRING_LITERAL);
  ("TEMPLATE_RULE_FUNCTION", TEMPLATE_RULE_FUNCTION);
  ("TEMPLATE_RULE_LAMBDA", TEMPLATE_RULE_LAMBDA);
  ("TEMPLATE_RULE_PATTERN_IDENTIFIER", TEMPLATE_RULE_PATTERN_IDENTIFIER);
  ("TEMPLATE_RULE_PATTERN", TEMPLATE_RULE_PATTERN);
  ("TEMPLATE_RULE_PRIMARY", TEMPLATE_RULE_PRIMARY);
  ("TEMPLATE_RULE_TERM", TEMPLATE_RULE_TERM);
  ("TEMPLATE_RULE_PREFIXED_TERM", TEMPLATE_RULE_PREFIXED_TERM);
  ("TEMPLATE_RULE_EXPRESSION", TEMPLATE_RULE_EXPRESSION);
  ("TEMPLATE_RULE_TEMPLATE", TEMPLATE_RULE_TEMPLATE);
  ("TEMPLATE_RULE_PROGRAM", TEMPLATE_RULE_PROGRAM)
].

Definition expected_rules : list (string * string) := [
  ("REVSET_RULE_WHITESPACE",
   """ "" | ""\t"" | ""\r"" | ""\n"" | ""\x0c""");
  ("REVSET_RULE_IDENTIFIER_PART",
   "(XID_CONTINUE | ""_"" | ""*"" | ""/"")+");
  ("REVSET_RULE_IDENTIFIER",
   "identifier_part ~ ((""."" | ""-""+ | ""+"") ~ identifier_part)*");
  ("REVSET_RULE_STRICT_IDENTIFIER_PART",
   "(ASCII_ALPHANUMERIC | ""_"" | ""/"")+");
  ("REVSET_RULE_STRICT_IDENTIFIER",
   "strict_identifier_part ~ ((""."" | ""-"" | ""+"") ~ strict_identifier_part)*");
  ("REVSET_RULE_SYMBOL",
   "identifier
  | string_literal
  | raw_string_literal");
  ("REVSET_RULE_STRING_ESCAPE",
   """\\""
  ~ (""t"" | ""r"" | ""n"" | ""0"" | ""e"" | (""x"" ~ ASCII_HEX_DIGIT{2}) | ""\"""" | ""\\"")");
  ("REVSET_RULE_STRING_CONTENT_CHAR",
   "!(""\"""" | ""\\"") ~ ANY");
  ("REVSET_RULE_STRING_CONTENT",
   "string_content_char+");
  ("REVSET_RULE_STRING_LITERAL",
   """\"""" ~ (string_content | string_escape)* ~ ""\""""");
  ("REVSET_RULE_RAW_STRING_CONTENT",
   "(!""'"" ~ ANY)*");
  ("REVSET_RULE_RAW_STRING_LITERAL",
   """'"" ~ raw_string_content ~ ""'""");
  ("REVSET_RULE_AT_OP",
   """@""");
  ("REVSET_RULE_FUNCTION",
   "function_name ~ ""("" ~ whitespace* ~ function_arguments ~ whitespace* ~ "")""");
  ("REVSET_RULE_FUNCTION_NAME",
   "(ASCII_ALPHA | ""_"") ~ (ASCII_ALPHANUMERIC | ""_"")*");
  ("REVSET_RULE_PATTERN",
   "strict_identifier ~ pattern_kind_op ~ pattern_value_expression");
  ("REVSET_RULE_PRIMARY",
   """("" ~ whitespace* ~ expression ~ whitespace* ~ "")""
  | function
  | pattern
  // ""@"" operator cannot be nested
  | symbol ~ at_op ~ symbol
  | symbol ~ at_op
  | symbol
  | at_op");
  ("REVSET_RULE_NEIGHBORS_EXPRESSION",
   "primary ~ (parents_op | children_op | compat_parents_op)*");
  ("REVSET_RULE_RANGE_EXPRESSION",
   "neighbors_expression ~ range_ops ~ neighbors_expression
  | neighbors_expression ~ range_post_ops
  | range_pre_ops ~ neighbors_expression
  | neighbors_expression
  | range_all_ops");
  ("REVSET_RULE_EXPRESSION",
   "(negate_op ~ whitespace*)* ~ range_expression
  ~ (whitespace* ~ infix_op ~ whitespace* ~ (negate_op ~ whitespace*)* ~ range_expression)*");
  ("REVSET_RULE_PROGRAM",
   "SOI ~ whitespace* ~ expression ~ whitespace* ~ EOI");
  ("REVSET_RULE_SYMBOL_NAME",
   "SOI ~ symbol ~ EOI");
  ("FILESET_RULE_WHITESPACE",
   """ "" | ""\t"" | ""\r"" | ""\n"" | ""\x0c""");
  ("FILESET_RULE_IDENTIFIER",
   "(XID_CONTINUE | ""+"" | ""-"" | ""."" | ""@"" | ""_"" | ""*"" | ""?"" | ""["" | ""]"" | ""/"" | ""\\"")+");
  ("FILESET_RULE_STRICT_IDENTIFIER_PART",
   "(ASCII_ALPHANUMERIC | ""_"")+");
  ("FILESET_RULE_STRICT_IDENTIFIER",
   "strict_identifier_part ~ (""-"" ~ strict_identifier_part)*");
  ("FILESET_RULE_STRING_ESCAPE",
   """\\""
  ~ (""t"" | ""r"" | ""n"" | ""0"" | ""e"" | (""x"" ~ ASCII_HEX_DIGIT{2}) | ""\"""" | ""\\"")");
  ("FILESET_RULE_STRING_CONTENT_CHAR",
   "!(""\"""" | ""\\"") ~ ANY");
  ("FILESET_RULE_STRING_CONTENT",
   "string_content_char+");
  ("FILESET_RULE_STRING_LITERAL",
   """\"""" ~ (string_content | string_escape)* ~ ""\""""");
  ("FILESET_RULE_RAW_STRING_CONTENT",
   "(!""'"" ~ ANY)*");
  ("FILESET_RULE_RAW_STRING_LITERAL",
   """'"" ~ raw_string_content ~ ""'""");
  ("FILESET_RULE_FUNCTION",
   "function_name ~ ""("" ~ whitespace* ~ function_arguments ~ whitespace* ~ "")""");
  ("FILESET_RULE_FUNCTION_NAME",
   "(ASCII_ALPHA | ""_"") ~ (ASCII_ALPHANUMERIC | ""_"")*");
  ("FILESET_RULE_PATTERN",
   "strict_identifier ~ pattern_kind_op ~ primary");
  ("FILESET_RULE_PRIMARY",
   """("" ~ whitespace* ~ expression ~ whitespace* ~ "")""
  | function
  | pattern
  | identifier
  | string_literal
  | raw_string_literal");
  ("FILESET_RULE_EXPRESSION",
   "(prefix_ops ~ whitespace*)* ~ primary
  ~ (whitespace* ~ infix_ops ~ whitespace* ~ (prefix_ops ~ whitespace*)* ~ primary)*");
  ("FILESET_RULE_PROGRAM",
   "SOI ~ whitespace* ~ expression ~ whitespace* ~ EOI");
  ("TEMPLATE_RULE_WHITESPACE",
   """ "" | ""\t"" | ""\r"" | ""\n"" | ""\x0c""");
  ("TEMPLATE_RULE_IDENTIFIER",
   "(ASCII_ALPHA | ""_"") ~ (ASCII_ALPHANUMERIC | ""_"")*");
  ("TEMPLATE_RULE_STRING_ESCAPE",
   """\\""
  ~ (""t"" | ""r"" | ""n"" | ""0"" | ""e"" | (""x"" ~ ASCII_HEX_DIGIT{2}) | ""\"""" | ""\\"")");
  ("TEMPLATE_RULE_STRING_CONTENT_CHAR",
   "!(""\"""" | ""\\"") ~ ANY");
  ("TEMPLATE_RULE_STRING_CONTENT",
   "string_content_char+");
  ("TEMPLATE_RULE_STRING_LITERAL",
   """\"""" ~ (string_content | string_escape)* ~ ""\""""");
  ("TEMPLATE_RULE_RAW_STRING_CONTENT",
   "(!""'"" ~ ANY)*");
  ("TEMPLATE_RULE_RAW_STRING_LITERAL",
   """'"" ~ raw_string_content ~ ""'""");
  ("TEMPLATE_RULE_FUNCTION",
   "identifier ~ ""("" ~ function_arguments ~ "")""");
  ("TEMPLATE_RULE_LAMBDA",
   """|"" ~ formal_parameters ~ ""|"" ~ template");
  ("TEMPLATE_RULE_PATTERN_IDENTIFIER",
   "(ASCII_ALPHA | ""_"") ~ (ASCII_ALPHANUMERIC | ""_"" | ""-"")*");
  ("TEMPLATE_RULE_PATTERN",
   "pattern_identifier ~ pattern_kind_op ~ pattern_value_expression");
  ("TEMPLATE_RULE_PRIMARY",
   "(""("" ~ template ~ "")"")
  | function
  | lambda
  | pattern
  | identifier
  | string_literal
  | raw_string_literal
  | integer_literal");
  ("TEMPLATE_RULE_TERM",
   "primary ~ (""."" ~ function)*");
  ("TEMPLATE_RULE_PREFIXED_TERM",
   "prefix_ops* ~ term");
  ("TEMPLATE_RULE_EXPRESSION",
   "prefixed_term ~ (infix_ops ~ prefixed_term)*");
  ("TEMPLATE_RULE_TEMPLATE",
   "expression ~ (concat_op ~ expression)*");
  ("TEMPLATE_RULE_PROGRAM",
   "SOI ~ template? ~ EOI")
].
