(** C44 - text truncation, eliding, padding and wrapping respect the width.
    Model of cli/src/text_util.rs:
      elide_start / elide_end                          (47-99)
      truncate_start_pos / truncate_end_pos (+ _bytes) (105-152)
      skip_start_pos / skip_end_pos                    (160-209)
      trim_start_zero_width_chars / count_start_zero_width_chars_bytes (212-222)
      write_truncated_start / write_truncated_end      (229-303)
      write_padded_start / _end / _centered, write_padding (309-385)
    Strings are lists of characters of an abstract type [A]; the two width measures jj uses are
    Section variables (they come from the unicode-width crate):
      [cw c]  = UnicodeWidthChar::width(c).unwrap_or(0)        (per character)
      [sw s]  = UnicodeWidthStr::width(lossy-decoded s)         (whole string; NOT the sum of cw)
    Byte offsets of the Rust code correspond to positions in the character list (every function
    only cuts at character boundaries it obtained from char_indices).
    wrap_bytes / write_wrapped delegate line breaking to the textwrap crate and are not modelled:
    [wrap_okb] is a checker for their real outputs.  Definitions only. *)
From Verif Require Import Base.Prelude.

Section TextWidth.
  Context {A : Type} (cw : A -> nat) (sw : list A -> nat).

  (** jj's measure of a string: the sum of the per-character widths. *)
  Fixpoint swidth (l : list A) : nat :=
    match l with
    | [] => 0
    | c :: r => cw c + swidth r
    end.

  (** truncate_end_pos_with_indices (138-152): walk forward while the accumulated width stays
      within [max]; result = (kept prefix, dropped rest, accumulated width).  [dropped = []]
      corresponds to the returned index being text.len(). *)
  Fixpoint trunc_fwd (l : list A) (max acc : nat) : list A * list A * nat :=
    match l with
    | [] => ([], [], acc)
    | c :: r =>
      let nw := acc + cw c in
      if (max <? nw)%nat then ([], l, acc)
      else let '(k, d, w) := trunc_fwd r max nw in (c :: k, d, w)
    end.

  Definition truncate_end (text : list A) (max : nat) : list A * list A * nat :=
    trunc_fwd text max 0.

  (** truncate_start_pos_with_indices (119-133): the same walk over the characters in reverse.
      Result = (kept suffix, dropped prefix, width); [dropped = []] corresponds to index 0. *)
  Definition truncate_start (text : list A) (max : nat) : list A * list A * nat :=
    let '(k, d, w) := trunc_fwd (rev text) max 0 in (rev k, rev d, w).

  (** skip_start_pos_with_indices (172-185): skip characters until at least [width] columns are
      skipped; result = (remaining text, skipped width). *)
  Fixpoint skip_fwd (l : list A) (width acc : nat) : list A * nat :=
    match l with
    | [] => ([], acc)
    | c :: r => if (width <=? acc)%nat then (l, acc) else skip_fwd r width (acc + cw c)
    end.

  Definition skip_start (text : list A) (width : nat) : list A * nat := skip_fwd text width 0.

  (** skip_end_pos_with_indices (198-209): the same from the end; result = (remaining prefix,
      skipped width). *)
  Definition skip_end (text : list A) (width : nat) : list A * nat :=
    let (r, w) := skip_fwd (rev text) width 0 in (rev r, w).

  (** trim_start_zero_width_chars (212-214) / count_start_zero_width_chars_bytes (217-222). *)
  Fixpoint trim_start_zero (l : list A) : list A :=
    match l with
    | c :: r => if (cw c =? 0)%nat then trim_start_zero r else l
    | [] => []
    end.

  (** Result of elide_*: the returned (string, width), or a panic: the [assert!] on line 68/97,
      or the unchecked usize subtraction [text_width - skipped_width] underflowing. *)
  Inductive eres := EOut (out : list A) (w : nat) | EPanic.

  (** elide_start (47-70). *)
  Definition elide_start (text ellipsis : list A) (max : nat) : eres :=
    let '(tk, td, tw) := truncate_start text max in
    match td with
    | [] => EOut text tw
    | _ :: _ =>
      let '(ek, ed, ew) := truncate_start ellipsis max in
      match ed with
      | _ :: _ => EOut (trim_start_zero ek) ew
      | [] =>
        let max_text := max - ew in
        let (rem, skipped) := skip_start tk (tw - max_text) in
        let t := trim_start_zero rem in
        if (tw <? skipped)%nat then EPanic
        else
          let cwid := ew + (tw - skipped) in
          if (cwid <=? max)%nat then EOut (ellipsis ++ t) cwid else EPanic
      end
    end.

  (** elide_end (76-99). *)
  Definition elide_end (text ellipsis : list A) (max : nat) : eres :=
    let '(tk, td, tw) := truncate_end text max in
    match td with
    | [] => EOut text tw
    | _ :: _ =>
      let '(ek, ed, ew) := truncate_end ellipsis max in
      match ed with
      | _ :: _ => EOut ek ew
      | [] =>
        let max_text := max - ew in
        let (rem, skipped) := skip_end tk (tw - max_text) in
        if (tw <? skipped)%nat then EPanic
        else
          let cwid := (tw - skipped) + ew in
          if (cwid <=? max)%nat then EOut (rem ++ ellipsis) cwid else EPanic
      end
    end.

  (** write_truncated_start (229-270) on a plain formatter: what is written and the returned
      width.  Note the two measures: the decision to truncate and the room left for the ellipsis
      use the whole-string width [sw], the cutting uses per-character widths.  Leading zero-width
      characters are trimmed only after an actual truncation (lines 265-270, since /repo commit
      a58816e). *)
  Definition write_truncated_start (data ell : list A) (max : nat) : list A * nat :=
    let dw := sw data in
    let ew := sw ell in
    if (max <? dw)%nat then
      let '(k, _, w) := truncate_start data (max - ew) in
      let '(ek, _, ew2) := truncate_start ell max in
      (trim_start_zero ek ++ trim_start_zero k, w + ew2)
    else (data, dw).

  (** The function as it was before commit a58816e: the trim also ran when nothing was truncated
      (finding F-C44b, repaired; kept for the refutation witness). *)
  Definition write_truncated_start_old (data ell : list A) (max : nat) : list A * nat :=
    let dw := sw data in
    let ew := sw ell in
    if (max <? dw)%nat then
      let '(k, _, w) := truncate_start data (max - ew) in
      let '(ek, _, ew2) := truncate_start ell max in
      (trim_start_zero ek ++ trim_start_zero k, w + ew2)
    else (trim_start_zero data, dw).

  (** write_truncated_end (271-303). *)
  Definition write_truncated_end (data ell : list A) (max : nat) : list A * nat :=
    let dw := sw data in
    let ew := sw ell in
    if (max <? dw)%nat then
      let '(k, _, w) := truncate_end data (max - ew) in
      let '(ek, _, ew2) := truncate_end ell max in
      (k ++ ek, w + ew2)
    else (data, dw).

  (** write_padding (369-385): the fill character's bytes repeated [n] times. *)
  Fixpoint repeat_fill (fill : list A) (n : nat) : list A :=
    match n with O => [] | S k => fill ++ repeat_fill fill k end.

  (** write_padded_start / _end / _centered (309-366). *)
  Definition write_padded_start (data fill : list A) (min : nat) : list A :=
    repeat_fill fill (min - sw data) ++ data.
  Definition write_padded_end (data fill : list A) (min : nat) : list A :=
    data ++ repeat_fill fill (min - sw data).
  Definition write_padded_centered (data fill : list A) (min : nat) : list A :=
    let fw := min - sw data in
    let left := Nat.div fw 2 in
    repeat_fill fill left ++ data ++ repeat_fill fill (fw - left).
End TextWidth.

Arguments EOut {A}. Arguments EPanic {A}.

(* ------------------------------------------------------------------ wrapping: checker only *)

(** wrap_bytes(text, width) returns sub-slices of [text] (text_util.rs:487-507); the harness
    reports every line as (start offset, bytes, sum of per-character widths, width of the line's
    first word).  The checker says: the lines appear in order and tile the text, what lies
    between two consecutive lines is spaces optionally followed by one newline (nothing but
    separators is dropped, no newline is removed or added), every line is within the width unless
    it is one unbreakable word, and every soft break was necessary (the next word would not have
    fitted: first-fit). *)
Record wline := mk_wline {
  wl_start : N;          (* byte offset in text *)
  wl_bytes : list N;
  wl_width : N;          (* sum of per-character widths of the (lossily decoded) line *)
  wl_first : N;          (* the same for the line's first word (up to the first space) *)
}.

Definition skipn_n {B} (n : N) (l : list B) : list B := skipn (N.to_nat n) l.
Definition is_prefix (p l : list N) : bool := list_eqb N.eqb p (firstn (length p) l).
Definition all_spaces (l : list N) : bool := forallb (N.eqb 32) l.
Definition has_space (l : list N) : bool := existsb (N.eqb 32) l.
Fixpoint drop_spaces (l : list N) : list N :=
  match l with
  | c :: r => if (c =? 32)%N then drop_spaces r else l
  | [] => []
  end.

(** A gap is spaces (soft break) or spaces followed by exactly one newline (hard break). *)
Definition gap_soft (g : list N) : bool := all_spaces g.
Definition gap_hard (g : list N) : bool := list_eqb N.eqb (drop_spaces g) [10%N].

Definition wl_end (l : wline) : N := (wl_start l + N.of_nat (length (wl_bytes l)))%N.

Definition line_ok (text : list N) (width : N) (l : wline) : bool :=
  (wl_end l <=? N.of_nat (length text))%N
  && is_prefix (wl_bytes l) (skipn_n (wl_start l) text)
  && ((wl_width l <=? width)%N || negb (has_space (wl_bytes l)))
  && negb (existsb (N.eqb 10) (wl_bytes l)).

(** [prev] is the previous line; [l :: r] the following ones. *)
Fixpoint lines_after (text : list N) (width : N) (prev : wline) (ls : list wline) : bool :=
  match ls with
  | [] => all_spaces (skipn_n (wl_end prev) text)
  | l :: r =>
    let pos := wl_end prev in
    let g := firstn (N.to_nat (wl_start l - pos)) (skipn_n pos text) in
    (pos <=? wl_start l)%N
    && (gap_hard g
        || (gap_soft g && negb (N.eqb (wl_start l) pos)
            (* first-fit: the next word did not fit after the previous line and the gap *)
            && (width <? wl_width prev + N.of_nat (length g) + wl_first l)%N))
    && line_ok text width l
    && lines_after text width l r
  end.

(** write_wrapped (text_util.rs:515-550) writes the lines of wrap_bytes separated by newlines. *)
Definition join_lines (ls : list wline) : list N :=
  match ls with
  | [] => []
  | l :: r => wl_bytes l ++ flat_map (fun x => 10%N :: wl_bytes x) r
  end.
Definition wrapped_okb (ls : list wline) (wrapped : list N) : bool :=
  list_eqb N.eqb (join_lines ls) wrapped.

Definition lines_ok (text : list N) (width : N) (ls : list wline) : bool :=
  match ls with
  | [] => false                     (* split() yields at least one line *)
  | l :: r => (wl_start l =? 0)%N && line_ok text width l && lines_after text width l r
  end.

(* ------------------------------------------------------------------ correspondence cases *)

Local Open Scope N_scope.

Definition ch := (N * N)%type.                 (* code point, per-character width *)
Definition cwn (c : ch) : nat := N.to_nat (snd c).

Fixpoint group3 (l : list N) : list N :=
  match l with
  | a :: b :: c :: r => (65536 * a + 256 * b + c) :: group3 r
  | _ => []
  end.
Fixpoint digits (s : string) : list N :=
  match s with
  | String c r => (N_of_ascii c - 48) :: digits r
  | EmptyString => []
  end.
(** [chars '00004100754c' '12']: code points as 6 hex digits each, widths one digit each. *)
Definition chars (cs ws : string) : list ch := combine (group3 (hex cs)) (digits ws).
Definition cps (cs : string) : list N := group3 (hex cs).

Definition cps_eqb : list N -> list N -> bool := list_eqb N.eqb.
Definition out_cps (l : list ch) : list N := map fst l.

Inductive case :=
(** elide_start (start = true) / elide_end on (text, ellipsis, max): impl output string, returned
    width, panicked. *)
| CElide (start : bool) (text ell : list ch) (max : N) (out : list N) (w : N) (panicked : bool)
(** write_truncated_start / _end: sw of data and of ellipsis as observed, output, returned
    width. *)
| CTrunc (start : bool) (data ell : list ch) (max sw_data sw_ell : N)
         (out : list N) (w : N) (panicked : bool)
(** write_padded_*: kind 0 start, 1 end, 2 centered. *)
| CPad (kind : N) (data fill : list ch) (min sw_data : N) (out : list N) (panicked : bool)
(** wrap_bytes: text bytes, width, lines as reported; and what write_wrapped wrote for the same
    text (recorded in three labelled regions) on a plain formatter. *)
| CWrap (text : list N) (width : N) (ls : list wline) (wrapped : list N) (panicked : bool).

(** Width of an output string, looking the per-character widths up in the inputs (every output
    character comes from the text, the ellipsis or the fill). *)
Fixpoint width_in (tbl : list ch) (c : N) : N :=
  match tbl with
  | [] => 0
  | (k, w) :: r => if k =? c then w else width_in r c
  end.
Definition out_width (tbl : list ch) (out : list N) : N :=
  fold_right (fun c n => width_in tbl c + n) 0 out.

Fixpoint is_suffix_of (s l : list N) : bool :=
  cps_eqb s l || match l with [] => false | _ :: r => is_suffix_of s r end.
Definition is_prefix_of (p l : list N) : bool := cps_eqb p (firstn (length p) l).

Definition nwidth (l : list ch) : N := N.of_nat (swidth cwn l).

(** The two measures agree on a string (no control characters, no multi-character clusters). *)
Definition measures_agree (l : list ch) (swl : N) : bool := swl =? nwidth l.

(** elide_*: the property on the implementation's output alone. *)
Definition elide_okb (start : bool) (text ell : list ch) (max : N) (out : list N) (w : N) : bool :=
  let tbl := text ++ ell in
  let t := out_cps text in
  let e := out_cps ell in
  (out_width tbl out <=? max)                                      (* width bound *)
  && (w =? out_width tbl out)                                      (* reported width *)
  && (if nwidth text <=? max then cps_eqb out t                    (* fits => unchanged *)
      else if nwidth ell <=? max then
        (* the whole ellipsis at the cut side, the rest a piece of the text's other side *)
        if start then is_prefix_of e out && is_suffix_of (skipn (length e) out) t
        else is_suffix_of e out && is_prefix_of (firstn (length out - length e) out) t
      else
        (* ellipsis wider than the limit: a piece of the ellipsis alone *)
        if start then is_suffix_of out e else is_prefix_of out e).

(** write_truncated_*, strict reading of the property (per-character measure, fits => unchanged). *)
Definition trunc_okb (start : bool) (data ell : list ch) (max swd : N) (out : list N) (w : N) : bool :=
  let tbl := data ++ ell in
  (out_width tbl out <=? max) && (w =? out_width tbl out)
  && (if swd <=? max then cps_eqb out (out_cps data) else true).

(** Known-finding class of write_truncated_* (known_findings.txt, class truncate-mixed-measures):
    the whole-string width of the content or of the ellipsis differs from the sum of the
    character widths (tabs and other control characters, emoji ZWJ / variation sequences): the
    function decides with one measure and cuts with the other. *)
Definition known_class (c : case) : bool :=
  match c with
  | CTrunc start data ell max swd swe _ _ _ =>
    negb (measures_agree data swd && measures_agree ell swe)
  | _ => false
  end.

Definition pad_okb (kind : N) (data fill : list ch) (min swd : N) (out : list N) : bool :=
  let d := out_cps data in
  (N.of_nat (length out) =? N.of_nat (length d) + (min - swd) * N.of_nat (length fill))
  && (if min <=? swd then cps_eqb out d else true)
  && (if kind =? 0 then is_suffix_of d out
      else if kind =? 1 then is_prefix_of d out
      else true).

Definition panicked_of (c : case) : bool :=
  match c with
  | CElide _ _ _ _ _ _ p => p | CTrunc _ _ _ _ _ _ _ _ p => p
  | CPad _ _ _ _ _ _ p => p | CWrap _ _ _ _ p => p
  end.

(** Property checker on the implementation's outputs alone. *)
Definition okb (c : case) : bool :=
  negb (panicked_of c) &&
  match c with
  | CElide start text ell max out w _ => elide_okb start text ell max out w
  | CTrunc start data ell max swd swe out w _ => trunc_okb start data ell max swd out w
  | CPad kind data fill min swd out _ => pad_okb kind data fill min swd out
  | CWrap text width ls ww _ => lines_ok text width ls && wrapped_okb ls ww
  end.

(** A failing case is demoted to a known finding only inside the class (and never a panic). *)
Definition knownb (c : case) : bool :=
  negb (okb c) && negb (panicked_of c) && known_class c.

Definition res_eqb (r : eres (A := ch)) (out : list N) (w : N) (p : bool) : bool :=
  match r with
  | EOut o n => negb p && cps_eqb (out_cps o) out && (N.of_nat n =? w)
  | EPanic => p
  end.

Definition corr (c : case) : bool :=
  match c with
  | CElide start text ell max out w p =>
    res_eqb ((if start then elide_start else elide_end) cwn text ell (N.to_nat max)) out w p
  | CTrunc start data ell max swd swe out w p =>
    (* the whole-string measure as observed on the two strings it is applied to *)
    let sw := fun l : list ch =>
      if cps_eqb (out_cps l) (out_cps data) then N.to_nat swd else N.to_nat swe in
    let '(o, n) := (if start then write_truncated_start else write_truncated_end)
                     cwn sw data ell (N.to_nat max) in
    negb p && cps_eqb (out_cps o) out && (N.of_nat n =? w)
    && implb (cps_eqb (out_cps data) (out_cps ell)) (swd =? swe)
  | CPad kind data fill min swd out p =>
    let sw := fun _ : list ch => N.to_nat swd in
    let o := (if kind =? 0 then write_padded_start sw data fill (N.to_nat min)
              else if kind =? 1 then write_padded_end sw data fill (N.to_nat min)
              else write_padded_centered sw data fill (N.to_nat min)) in
    negb p && cps_eqb (out_cps o) out
  | CWrap _ _ _ _ _ => true
  end.

Definition check_case (c : case) : N :=
  verdict (corr c) (okb c) (knownb c)
          (match c with CElide _ _ _ _ _ _ _ => 1 | CTrunc _ _ _ _ _ _ _ _ _ => 2
                   | CPad _ _ _ _ _ _ _ => 3 | CWrap _ _ _ _ _ => 4 end).
