(** Compact encoding of trees in correspondence cases (shared by C07, C08, C09): a table
    of flat trees indexed by a small tree number (one row per distinct tree id seen by the
    harness, children before parents), decoded into the structural trees of
    Model/TreeMerge.v; and the recorded content-merge outcomes. Definitions only. *)
From Verif Require Import Base.Prelude Model.Merge Model.TreeMerge.

Inductive cval : Type :=
| CF (id : N) (exec : bool) (copy : N)   (* file *)
| CL (id : N)                            (* symlink *)
| CM (id : N)                            (* submodule *)
| CT (tid : N).                          (* directory: row of the table *)
Definition ctree := list (N * cval).

Fixpoint dec_tree (fuel : nat) (tab : list ctree) (tid : N) : tree :=
  match fuel with
  | O => []
  | S f =>
      map (fun e => (fst e,
                     match snd e with
                     | CF i x c => File i x c
                     | CL i => Symlink i
                     | CM i => Submodule i
                     | CT t => Tree (dec_tree f tab t)
                     end))
          (nth (N.to_nat tid) tab [])
  end.
Definition dec (tab : list ctree) (tid : N) : tree := dec_tree (S (length tab)) tab tid.
Definition dec_val (tab : list ctree) (c : cval) : value :=
  match c with
  | CF i x c => File i x c
  | CL i => Symlink i
  | CM i => Submodule i
  | CT t => Tree (dec tab t)
  end.
Definition dec_oval (tab : list ctree) (c : option cval) : oval := option_map (dec_val tab) c.

(** Recorded outcomes of files::try_merge + write_file, keyed by the simplified file-id
    conflict. A key the harness did not record yields an id no file has, so that the
    comparison with the implementation fails visibly. *)
Definition oracle_of (tab : list (list N * option N)) (ids : list N) : option N :=
  match find (fun e => list_eqb N.eqb (fst e) ids) tab with
  | Some e => snd e
  | None => Some 4000000000%N
  end.

Definition trees_eqb : list tree -> list tree -> bool := list_eqb tree_eqb.
Definition ovals_eqb : list oval -> list oval -> bool := list_eqb oval_eqb.
