(** C21 — stacked tables (lib/src/stacked_table.rs); definitions only, proofs in Proofs/C21.v.

    A segment file holds its parent's name and its own sorted entries; names are content
    hashes, so a segment IS its content: a table is the list of the local entry maps of its
    segments, newest first ([e :: p] = segment with local entries [e] and parent [p];
    [[]] = "no table"). Equal lists = equal file names (hash injectivity).

    Keys and values are [N] (the harness maps fixed-size key bytes and value bytes
    injectively and order-preservingly to numbers). *)
From Verif Require Import Base.Prelude Base.SchedS Gen.Tables Model.C21Codec.
From Coq Require Import Arith.

Definition ents := list (N * N).       (* BTreeMap<Vec<u8>, Vec<u8>>: sorted by key, keys unique *)
Definition table := list ents.

Fixpoint find (k : N) (e : ents) : option N :=
  match e with
  | [] => None
  | (k', v) :: r => if (k =? k')%N then Some v else find k r
  end.

(** MutableTable::add_entry = BTreeMap::insert (replaces). stacked_table.rs:248 *)
Fixpoint add_entry (k v : N) (e : ents) : ents :=
  match e with
  | [] => [(k, v)]
  | (k', v') :: r =>
    if (k <? k')%N then (k, v) :: e
    else if (k =? k')%N then (k, v) :: r
    else (k', v') :: add_entry k v r
  end.

(** segment_add_entries_to: every local entry of [src], in order. stacked_table.rs:189,393 *)
Definition add_entries_from (src acc : ents) : ents :=
  fold_left (fun a kv => add_entry (fst kv) (snd kv) a) src acc.

(** TableSegment::get_value: the child shadows the parent. stacked_table.rs:68 *)
Fixpoint lookup (t : table) (k : N) : option N :=
  match t with
  | [] => None
  | e :: r => match find k e with Some v => Some v | None => lookup r k end
  end.

(** TableSegment::num_entries (entries counted per segment). stacked_table.rs:60 *)
Fixpoint num_entries (t : table) : nat :=
  match t with
  | [] => 0
  | e :: r => length e + num_entries r
  end.

Definition ents_eqb : ents -> ents -> bool := list_eqb (pair_eqb N.eqb N.eqb).
Definition table_eqb : table -> table -> bool := list_eqb ents_eqb.

Record mtable := mk_mt { m_parent : table; m_ents : ents }.

Definition lookup_mt (m : mtable) (k : N) : option N :=
  match find k (m_ents m) with Some v => Some v | None => lookup (m_parent m) k end.

(** MutableTable::merge_in (stacked_table.rs:257-286): walk both ancestor chains, always
    stepping up the side with more entries, until a common segment name is met; the segments
    of [other] passed on the way are returned newest first. *)
Fixpoint walk (own : table) : table -> list ents :=
  fix inner (oth : table) : list ents :=
    match oth with
    | [] => []
    | oe :: oth' =>
      match own with
      | [] => oe :: inner oth'
      | _ :: own' =>
        if table_eqb own oth then []
        else if num_entries own <? num_entries oth then oe :: inner oth'
        else walk own' oth
      end
    end.

Definition merge_in (m : mtable) (other : table) : mtable :=
  let files := walk (m_parent m) other in
  mk_mt (m_parent m) (fold_left (fun acc f => add_entries_from f acc) (rev files) (m_ents m)).

(** MutableTable::maybe_squash_with_ancestors (stacked_table.rs:316-350). *)
Fixpoint squash_scan (num_new : nat) (p : table) : list ents * table :=
  match p with
  | [] => ([], [])
  | pe :: p' =>
    if C21_SQUASH_FACTOR * num_new <? length pe then ([], p)
    else let '(fs, rest) := squash_scan (num_new + length pe) p' in (pe :: fs, rest)
  end.

Definition maybe_squash (m : mtable) : mtable :=
  let '(fs, rest) := squash_scan (length (m_ents m)) (m_parent m) in
  match fs with
  | [] => m
  | _ =>
    mk_mt rest
      (add_entries_from (m_ents m) (fold_left (fun acc f => add_entries_from f acc) (rev fs) []))
  end.

(** MutableTable::save_in (stacked_table.rs:352-375): the saved segment, i.e. its name. *)
Definition save_in (m : mtable) : table :=
  match m_ents m, m_parent m with
  | [], _ :: _ => m_parent m
  | _, _ => let m' := maybe_squash m in m_ents m' :: m_parent m'
  end.

Definition of_list (es : ents) : ents := add_entries_from es [].

(** get_head_locked, merging part (stacked_table.rs:557-561). *)
Definition reconcile (t0 : table) (others : list table) : table :=
  save_in (fold_left merge_in others (mk_mt t0 [])).

(* ------------------------------------------------------------------ heads directory *)
Definition memt (t : table) (l : list table) : bool := existsb (table_eqb t) l.
Definition add_head (t : table) (H : list table) : list table := if memt t H then H else H ++ [t].
Definition remove_head (t : table) (H : list table) : list table :=
  filter (fun h => negb (table_eqb h t)) H.
(** `parent_table.name != table.name` / `table.name != merged_table.name` *)
Definition others_than (n : table) (l : list table) : list table :=
  filter (fun h => negb (table_eqb h n)) l.

(* ------------------------------------------------------------------ processes *)
Inductive cmd :=
| CRead                     (* TableStore::get_head *)
| CWrite (es : ents)        (* get_head_locked; start_mutation; add_entry*; save_table; drop lock *)
| CStale (es : ents).       (* start_mutation on the table loaded earlier; add_entry*; save_table *)

Inductive pc :=
| PIdle
| PRead1                                         (* get_head: get_head_tables, unlocked  :522 *)
| PLock (w : option ents)                        (* get_head_locked: lock                :543 *)
| PRead2 (w : option ents)                       (* get_head_locked: get_head_tables     :544 *)
| PAdd (n : table) (todo : list table) (w : option ents) (locked : bool)   (* add_head  :458 *)
| PRem (n : table) (todo : list table) (w : option ents) (locked : bool)   (* remove_head *)
| PUnlock.

Record proc := mk_proc { p_pc : pc; p_prog : list cmd; p_cur : table }.

Record state := mk_state {
  s_heads : list table;
  s_lock : option nat;
  s_procs : list proc
}.

(** Who moves and, for a directory read, the order in which read_dir yields the heads (any
    permutation: the order is the file system's business). *)
Record ev := mk_ev { e_pid : nat; e_read : list table }.

Inductive label :=
| LNone | LBegin
| LRead (ts : list table)
| LLock | LAdd (t : table) | LRemove (t : table) | LUnlock.

Definition subset_t (a b : list table) : bool := forallb (fun t => memt t b) a.
Definition read (s : state) (e : ev) : list table :=
  if subset_t (e_read e) (s_heads s) && subset_t (s_heads s) (e_read e)
     && (length (e_read e) =? length (s_heads s))
  then e_read e else s_heads s.

Definition lock_free (lw : bool) (s : state) : bool :=
  negb lw || match s_lock s with None => true | Some _ => false end.
Definition take_lock (lw : bool) (s : state) (pid : nat) : option nat :=
  if lw then Some pid else s_lock s.
Definition release_lock (s : state) (pid : nat) : option nat :=
  match s_lock s with
  | Some q => if q =? pid then None else Some q
  | None => None
  end.

(** What follows once the head [n] is in hand (no removals pending any more). *)
Definition after_head (p : proc) (n : table) (w : option ents) (locked : bool) : proc :=
  match w with
  | None => mk_proc (if locked then PUnlock else PIdle) (p_prog p) n
  | Some es =>
    (* start_mutation; add_entry*; save_table: segment written, then add_head, then the
       parent head is removed unless it has the same name *)
    let t2 := save_in (mk_mt n (of_list es)) in
    mk_proc (PAdd t2 (match n with [] => [] | _ => others_than t2 [n] end) None locked) (p_prog p) n
  end.

Definition after_todo (p : proc) (n : table) (todo : list table) (w : option ents) (locked : bool)
  : proc :=
  match todo with
  | [] => after_head p n w locked
  | _ => mk_proc (PRem n todo w locked) (p_prog p) (p_cur p)
  end.

(** [fixed] = the removal loop of get_head_locked skips the merged table's own name (the
    code after commit 04357b3); [false] = the code before it. *)
Definition step_lbl (fixed lw : bool) (s : state) (e : ev) : state * label :=
  let pid := e_pid e in
  match nth_error (s_procs s) pid with
  | None => (s, LNone)
  | Some p =>
    let H := s_heads s in
    let upd (q : proc) (H' : list table) (l' : option nat) :=
      mk_state H' l' (set_nth pid q (s_procs s)) in
    let goto (c : pc) := mk_proc c (p_prog p) (p_cur p) in
    match p_pc p with
    | PIdle =>
      match p_prog p with
      | [] => (s, LNone)
      | CRead :: r => (upd (mk_proc PRead1 r (p_cur p)) H (s_lock s), LBegin)
      | CWrite es :: r => (upd (mk_proc (PLock (Some es)) r (p_cur p)) H (s_lock s), LBegin)
      | CStale es :: r =>
        (upd (after_head (mk_proc PIdle r (p_cur p)) (p_cur p) (Some es) false) H (s_lock s), LBegin)
      end
    | PRead1 =>
      let ts := read s e in
      match ts with
      | [] => (upd (goto (PAdd [[]] [] None false)) H (s_lock s), LRead ts)   (* :525 *)
      | [t] => (upd (mk_proc PIdle (p_prog p) t) H (s_lock s), LRead ts)
      | _ => (upd (goto (PLock None)) H (s_lock s), LRead ts)
      end
    | PLock w =>
      if lock_free lw s then (upd (goto (PRead2 w)) H (take_lock lw s pid), LLock)
      else (s, LNone)
    | PRead2 w =>
      let ts := read s e in
      match ts with
      | [] => (upd (goto (PAdd [[]] [] w true)) H (s_lock s), LRead ts)        (* :546 *)
      | [t] => (upd (after_head p t w true) H (s_lock s), LRead ts)            (* :552 *)
      | t0 :: others =>
        let m := reconcile t0 others in
        let todo := others_than m [t0] ++ (if fixed then others_than m others else others) in
        (upd (goto (PAdd m todo w true)) H (s_lock s), LRead ts)
      end
    | PAdd n todo w locked =>
      (upd (after_todo p n todo w locked) (add_head n H) (s_lock s), LAdd n)
    | PRem n todo w locked =>
      match todo with
      | [] => (upd (after_head p n w locked) H (s_lock s), LNone)
      | x :: todo' => (upd (after_todo p n todo' w locked) (remove_head x H) (s_lock s), LRemove x)
      end
    | PUnlock => (upd (goto PIdle) H (release_lock s pid), LUnlock)
    end
  end.

Definition step (fixed lw : bool) (s : state) (e : ev) : state := fst (step_lbl fixed lw s e).

(** The code that exists: the text between `for table in &tables[1..] {` and
    `self.remove_head(table);` is scraped from the source on every run; the loop is guarded
    iff it contains a comparison (`!` = byte 33 of `table.name != merged_table.name`). *)
Definition current_fixed : bool := existsb (N.eqb 33) C21_REMOVE_LOOP_BODY.
Definition parent_guard_scraped : N := C21_PARENT_HEAD_GUARD.

Definition init_state (H : list table) (ps : list (table * list cmd)) : state :=
  mk_state H None (map (fun cp => mk_proc PIdle (snd cp) (fst cp)) ps).

(* ------------------------------------------------------------------ correspondence case *)
(** Tables are referred to by their index in the case's dictionary [c_tabs]. *)
Inductive olabel :=
| ONone | OBegin | ORead (ts : list nat) | OLock | OAdd (t : nat) | ORemove (t : nat) | OUnlock.

Record obs := mk_obs {
  o_pid : nat;
  o_label : olabel;
  o_heads : list nat;                       (* heads directory after the step (set) *)
  o_done : option (nat * list (option N))   (* a command ended here: table returned, get_value of every key *)
}.

(** Observations travel packed: one number per step, digits in base 64, least significant
    first, closed by a sentinel digit: pid; tag; k; k args; h; h heads; d; (id; n; n lookups). *)
Fixpoint digits (fuel : nat) (n : N) : list N :=
  match fuel with
  | O => []
  | S f => if (n =? 0)%N then [] else (n mod 64)%N :: digits f (n / 64)%N
  end.
Definition unpk (n : N) : list N := removelast (digits (S (N.to_nat (N.size n))) n).

Definition opt_of (v : N) : option N := if (v =? 0)%N then None else Some v.

Definition unpack_obs (n : N) : obs :=
  match unpk n with
  | pid :: tag :: k :: r =>
    let args := map N.to_nat (firstn (N.to_nat k) r) in
    let r1 := skipn (N.to_nat k) r in
    let lbl :=
      match tag, args with
      | 1, _ => OBegin
      | 2, _ => ORead args
      | 3, _ => OLock
      | 4, a :: _ => OAdd a
      | 5, a :: _ => ORemove a
      | 6, _ => OUnlock
      | _, _ => ONone
      end%N in
    match r1 with
    | h :: r2 =>
      let heads := map N.to_nat (firstn (N.to_nat h) r2) in
      let r3 := skipn (N.to_nat h) r2 in
      match r3 with
      | 1%N :: id :: nl :: lks =>
        mk_obs (N.to_nat pid) lbl heads (Some (N.to_nat id, map opt_of (firstn (N.to_nat nl) lks)))
      | _ => mk_obs (N.to_nat pid) lbl heads None
      end
    | [] => mk_obs (N.to_nat pid) lbl [] None
    end
  | _ => mk_obs 0 ONone [] None
  end.

Record case := mk_case {
  c_lw : bool;
  c_nkeys : N;                        (* keys are 0 .. nkeys-1 *)
  c_tabs : list table;                (* every table met, decoded from the real segment files *)
  c_init_heads_n : list N;
  c_progs_n : list (N * list cmd);    (* table each instance has loaded at the start (index), program *)
  c_psteps : list N;                  (* packed observations *)
  c_final_pcs_n : list N;
  c_final_order_n : list N;           (* everybody killed: read_dir order of the directory *)
  c_final_heads_n : list N;           (* directory after a fresh instance's get_head() *)
  c_final_n : N * list N;             (* table it returned and its lookups (0 = absent) *)
  c_files : list (N * bytes)          (* some segment files as the real code wrote them: (table, raw bytes) *)
}.

Definition nats (l : list N) : list nat := map N.to_nat l.
Definition c_init_heads (c : case) := nats (c_init_heads_n c).
Definition c_progs (c : case) : list (nat * list cmd) :=
  map (fun ip => (N.to_nat (fst ip), snd ip)) (c_progs_n c).
Definition c_steps (c : case) : list obs := map unpack_obs (c_psteps c).
Definition c_final_pcs (c : case) := nats (c_final_pcs_n c).
Definition c_final_order (c : case) := nats (c_final_order_n c).
Definition c_final_heads (c : case) := nats (c_final_heads_n c).
Definition c_final (c : case) : nat * list (option N) :=
  (N.to_nat (fst (c_final_n c)), map opt_of (snd (c_final_n c))).

Definition tab (c : case) (i : nat) : table := nth i (c_tabs c) [].

(** Values travel as codes (only equality matters): 1 + position in the harness's pool. *)
Definition value_pool : list bytes :=
  [[]; [7]; [8]; [7; 7]; [0]; [1]; [2]; [3]; [4]; [5]; [6]]%N.
Fixpoint pos_in (v : bytes) (l : list bytes) (i : N) : N :=
  match l with
  | [] => 0
  | x :: r => if bytes_eqb x v then i else pos_in v r (i + 1)
  end%N.
Definition value_code (v : bytes) : N := pos_in v value_pool 1.

(** The byte codec of Model/C21Codec.v applied to a real segment file (key size 1): it must
    parse, its entries must be the local entries of the table's newest segment, it must name
    a parent iff the table has older segments, and serialising what was parsed must give
    back the very bytes. *)
Definition file_ok (c : case) (f : N * bytes) : bool :=
  match load 1 (snd f), tab c (N.to_nat (fst f)) with
  | Some (pname, es), seg :: rest =>
    ents_eqb seg (map (fun kv => (hd 0%N (fst kv), value_code (snd kv))) es)
    && Bool.eqb (match pname with [] => true | _ => false end) (match rest with [] => true | _ => false end)
    && bytes_eqb (serialize pname es) (snd f)
  | _, _ => false
  end.

Definition set_eqb (a b : list table) : bool := subset_t a b && subset_t b a.

Definition label_matches (c : case) (l : label) (o : olabel) : bool :=
  match l, o with
  | LNone, ONone | LBegin, OBegin | LLock, OLock | LUnlock, OUnlock => true
  | LRead ts, ORead is => list_eqb table_eqb ts (map (tab c) is)
  | LAdd t, OAdd i => table_eqb t (tab c i)
  | LRemove t, ORemove i => table_eqb t (tab c i)
  | _, _ => false
  end.

Definition keys_upto (n : N) : list N := map N.of_nat (seq 0 (N.to_nat n)).
Definition lookups (c : case) (t : table) : list (option N) := map (lookup t) (keys_upto (c_nkeys c)).
Definition lk_eqb : list (option N) -> list (option N) -> bool := list_eqb (option_eqb N.eqb).

Definition pc_code (p : proc) : nat :=
  match p_pc p with
  | PIdle => match p_prog p with [] => 0 | _ => 1 end
  | PRead1 | PRead2 _ => 2
  | PLock _ => 3
  | PAdd _ _ _ _ => 4
  | PRem _ _ _ _ => 5
  | PUnlock => 6
  end.

Fixpoint replay (c : case) (s : state) (l : list obs) : state * bool :=
  match l with
  | [] => (s, true)
  | o :: r =>
    let e := mk_ev (o_pid o) (match o_label o with ORead is => map (tab c) is | _ => [] end) in
    let '(s', lbl) := step_lbl current_fixed (c_lw c) s e in
    let done_ok :=
      match o_done o with
      | None => true
      | Some (i, lk) =>
        match nth_error (s_procs s') (o_pid o) with
        | Some p =>
          table_eqb (p_cur p) (tab c i) && lk_eqb (lookups c (p_cur p)) lk
          && match p_pc p with PIdle => true | _ => false end
        | None => false
        end
      end in
    let ok := label_matches c lbl (o_label o) && set_eqb (s_heads s') (map (tab c) (o_heads o)) && done_ok in
    let '(s'', ok') := replay c s' r in
    (s'', ok && ok')
  end.

(** Everybody crashes; a fresh instance calls get_head() (reads in directory order = the
    order the harness observed, [c_final_heads] being what is left afterwards). *)
Definition final_load (lw : bool) (s : state) (order : list table) : state :=
  let pid := length (s_procs s) in
  let s1 := mk_state (s_heads s) None (s_procs s ++ [mk_proc PIdle [CRead] []]) in
  run (step current_fixed lw) (repeat (mk_ev pid order) (2 * length (s_heads s) + 8)) s1.

Definition corr (c : case) : bool :=
  let s0 := init_state (map (tab c) (c_init_heads c))
                       (map (fun ip => (tab c (fst ip), snd ip)) (c_progs c)) in
  let '(s1, ok) := replay c s0 (c_steps c) in
  let s2 := final_load (c_lw c) s1 (map (tab c) (c_final_order c)) in
  ok
  && forallb (file_ok c) (c_files c)
  && list_eqb Nat.eqb (map pc_code (s_procs s1)) (c_final_pcs c)
  && set_eqb (s_heads s2) (map (tab c) (c_final_heads c))
  && match nth_error (s_procs s2) (length (s_procs s1)) with
     | Some p => table_eqb (p_cur p) (tab c (fst (c_final c)))
                 && lk_eqb (lookups c (p_cur p)) (snd (c_final c)) && (pc_code p =? 0)
     | None => false
     end.

(* ------------------------------------------------------------------ the property on observations *)
(** Entries written by the command a process is running / has completed, from the trace:
    [writes_of prog] in program order. *)
Definition cmd_ents (c : cmd) : ents :=
  match c with CRead => [] | CWrite es => es | CStale es => es end.

Definition all_written (c : case) : ents :=
  concat (map (fun ip => concat (map cmd_ents (snd ip))) (c_progs c)).

(** A returned value must be one some save wrote for that key. *)
Definition value_ok (c : case) (k : N) (v : N) : bool :=
  existsb (fun kv => (fst kv =? k)%N && (snd kv =? v)%N) (all_written c).

Definition values_ok (c : case) (lk : list (option N)) : bool :=
  forallb (fun kv => match snd kv with None => true | Some v => value_ok c (fst kv) v end)
          (combine (keys_upto (c_nkeys c)) lk).

Definition has_keys (c : case) (lk : list (option N)) (keys : list N) : bool :=
  forallb (fun k => match nth (N.to_nat k) lk None with Some _ => true | None => false end) keys.

(** Walk the trace: [progs] = remaining program of every instance, [running] = the command
    each instance is inside, [saved] = keys of saves completed so far, [snap] = per instance,
    the keys completed when its running command began. *)
Fixpoint head_cmds (progs : list (list cmd)) : list (option cmd) :=
  match progs with [] => [] | p :: r => hd_error p :: head_cmds r end.

Fixpoint obs_walk (c : case) (progs : list (list cmd)) (running : list (option (cmd * list N)))
  (saved : list N) (l : list obs) : bool * list N :=
  match l with
  | [] => (true, saved)
  | o :: r =>
    let pid := o_pid o in
    (* a command begins *)
    let '(progs1, running1) :=
      match o_label o, nth pid running None, nth pid progs [] with
      | OBegin, None, cm :: rest => (set_nth pid rest progs, set_nth pid (Some (cm, saved)) running)
      | _, _, _ => (progs, running)
      end in
    match o_done o with
    | None => obs_walk c progs1 running1 saved r
    | Some (_, lk) =>
      match nth pid running1 None with
      | None => (false, saved)
      | Some (cm, snap) =>
        let ok :=
          values_ok c lk &&
          match cm with
          | CStale es => has_keys c lk (map fst es)
          | CWrite es => has_keys c lk (map fst es) && has_keys c lk snap
          | CRead => has_keys c lk snap
          end in
        let saved' := map fst (cmd_ents cm) ++ saved in
        let '(ok', s') := obs_walk c progs1 (set_nth pid None running1) saved' r in
        (ok && ok', s')
      end
    end
  end.

(** Purely sequential history: the directory never holds two heads. *)
Definition sequential (c : case) : bool :=
  forallb (fun o => length (o_heads o) <=? 1) (c_steps c) && (length (c_init_heads c) <=? 1)
  && (length (c_final_heads c) <=? 1).

(** In a sequential history the last completed save of a key wins: [last_vals] folds the
    completed commands in completion order. *)
Fixpoint completed (progs : list (list cmd)) (running : list (option cmd)) (l : list obs) : list cmd :=
  match l with
  | [] => []
  | o :: r =>
    let pid := o_pid o in
    let '(progs1, running1) :=
      match o_label o, nth pid running None, nth pid progs [] with
      | OBegin, None, cm :: rest => (set_nth pid rest progs, set_nth pid (Some cm) running)
      | _, _, _ => (progs, running)
      end in
    match o_done o, nth pid running1 None with
    | Some _, Some cm => cm :: completed progs1 (set_nth pid None running1) r
    | _, _ => completed progs1 running1 r
    end
  end.

Definition last_value (cms : list cmd) (k : N) : option N :=
  fold_left (fun acc cm => match find k (of_list (cmd_ents cm)) with Some v => Some v | None => acc end)
            cms None.

Definition okb_base (c : case) : bool :=
  let progs := map snd (c_progs c) in
  let n := length progs in
  let '(ok, saved) := obs_walk c progs (repeat None n) [] (c_steps c) in
  let lkf := snd (c_final c) in
  ok && values_ok c lkf && has_keys c lkf saved
  && (negb (sequential c)
      || forallb (fun k => match last_value (completed progs (repeat None n) (c_steps c)) k with
                           | Some v => option_eqb N.eqb (nth (N.to_nat k) lkf None) (Some v)
                           | None => true
                           end) (keys_upto (c_nkeys c))).

(* ------------------------------------------------------------------ strict sequential-wins *)
(** Causal order on saves, reconstructed from the trace. Saves are numbered in the order
    their commands begin. Every table in the heads directory carries the set of saves whose
    effects went into it ([dir]); a save's base is the set of the table it started from;
    s1 < s2 iff s1 is in the base of s2 (bases are cumulative, so this is transitive, also
    through reconciliations). *)
Definition hist := list nat.
Definition memh (x : nat) (h : hist) : bool := existsb (Nat.eqb x) h.

Record pst := mk_pst {
  ps_prog : list cmd;
  ps_cmd : option cmd;      (* command in progress *)
  ps_sid : nat;             (* its save number (CWrite / CStale) *)
  ps_h : hist;              (* saves included in the table it is working on *)
  ps_pre : nat;             (* add_head calls still to come before the save's own one *)
  ps_cur : hist             (* saves included in the table it has loaded *)
}.

Record hws := mk_hws {
  hw_procs : list pst;
  hw_dir : list (nat * hist);            (* table id -> saves it includes *)
  hw_saves : list (nat * ents);          (* save number -> entries written *)
  hw_bases : list (nat * hist);          (* save number -> saves it started from *)
  hw_loads : list (hist * list (option N));   (* every load: saves included, lookups *)
  hw_reads : list (list (nat * hist))    (* every read of two or more heads *)
}.

Definition dir_get (d : list (nat * hist)) (t : nat) : hist :=
  concat (map snd (filter (fun p => fst p =? t) d)).
Definition default_pst : pst := mk_pst [] None 0 [] 0 [].

Definition hw_step (w : hws) (o : obs) : hws :=
  let pid := o_pid o in
  let p := nth pid (hw_procs w) default_pst in
  (* 1. a command begins *)
  let '(p1, saves1) :=
    match o_label o, ps_cmd p, ps_prog p with
    | OBegin, None, cm :: rest =>
      let sid := length (hw_saves w) in
      match cm with
      | CRead => (mk_pst rest (Some cm) 0 [] 1000 (ps_cur p), hw_saves w)
      | CWrite es => (mk_pst rest (Some cm) sid [] 1 (ps_cur p), hw_saves w ++ [(sid, es)])
      | CStale es => (mk_pst rest (Some cm) sid (ps_cur p) 0 (ps_cur p), hw_saves w ++ [(sid, es)])
      end
    | _, _, _ => (p, hw_saves w)
    end in
  (* 2. the step itself *)
  let '(p2, dir2, bases2, reads2) :=
    match o_label o with
    | ORead ts =>
      let h := concat (map (dir_get (hw_dir w)) ts) in
      let pre := match ps_cmd p1 with
                 | Some (CWrite _) => if length ts =? 1 then 0 else 1
                 | _ => ps_pre p1
                 end in
      (mk_pst (ps_prog p1) (ps_cmd p1) (ps_sid p1) h pre (ps_cur p1), hw_dir w, hw_bases w,
       if 2 <=? length ts then hw_reads w ++ [map (fun t => (t, dir_get (hw_dir w) t)) ts]
       else hw_reads w)
    | OAdd t =>
      if ps_pre p1 =? 0 then
        let h' := ps_sid p1 :: ps_h p1 in
        (mk_pst (ps_prog p1) (ps_cmd p1) (ps_sid p1) h' 1000 (ps_cur p1),
         (t, h') :: hw_dir w, hw_bases w ++ [(ps_sid p1, ps_h p1)], hw_reads w)
      else
        (mk_pst (ps_prog p1) (ps_cmd p1) (ps_sid p1) (ps_h p1) (ps_pre p1 - 1) (ps_cur p1),
         (t, ps_h p1) :: hw_dir w, hw_bases w, hw_reads w)
    | ORemove t => (p1, filter (fun q => negb (fst q =? t)) (hw_dir w), hw_bases w, hw_reads w)
    | _ => (p1, hw_dir w, hw_bases w, hw_reads w)
    end in
  (* 3. the command ends *)
  let '(p3, loads3) :=
    match o_done o with
    | Some (_, lk) =>
      (mk_pst (ps_prog p2) None 0 [] 0 (ps_h p2), hw_loads w ++ [(ps_h p2, lk)])
    | None => (p2, hw_loads w)
    end in
  mk_hws (set_nth pid p3 (hw_procs w)) dir2 saves1 bases2 loads3 reads2.

Definition hw_run (c : case) : hws :=
  let w0 := mk_hws (map (fun ip => mk_pst (snd ip) None 0 [] 0 []) (c_progs c)) [] [] [] [] [] in
  let w := fold_left hw_step (c_steps c) w0 in
  (* the fresh instance's get_head() after everybody was killed *)
  let fin := map (fun t => (t, dir_get (hw_dir w) t)) (c_final_order c) in
  mk_hws (hw_procs w) (hw_dir w) (hw_saves w) (hw_bases w)
         (hw_loads w ++ [(concat (map snd fin), snd (c_final c))])
         (if 2 <=? length fin then hw_reads w ++ [fin] else hw_reads w).

(** value save [s] wrote for [k] (the last one, as BTreeMap::insert does) *)
Definition save_val (w : hws) (s : nat) (k : N) : option N :=
  match find (N.of_nat s) (map (fun p => (N.of_nat (fst p), 0%N)) (hw_saves w)) with
  | None => None
  | Some _ => find k (of_list (concat (map snd (filter (fun p => fst p =? s) (hw_saves w)))))
  end.
Definition save_base (w : hws) (s : nat) : hist :=
  concat (map snd (filter (fun p => fst p =? s) (hw_bases w))).

(** The strict rule: a loaded value of [k] must be the value of some save included in the
    loaded table that has no causal successor, also included, that wrote [k] too. *)
Definition strict_val_ok (w : hws) (h : hist) (k v : N) : bool :=
  existsb (fun s =>
    option_eqb N.eqb (save_val w s k) (Some v)
    && negb (existsb (fun s2 => negb (s2 =? s)
                                && match save_val w s2 k with Some _ => true | None => false end
                                && memh s (save_base w s2)) h)) h.

Definition strict_failures (c : case) (w : hws) : list (N * N) :=
  concat (map (fun hl =>
    concat (map (fun kv => match snd kv with
                           | Some v => if strict_val_ok w (fst hl) (fst kv) v then [] else [(fst kv, v)]
                           | None => []
                           end)
                (combine (keys_upto (c_nkeys c)) (snd hl)))) (hw_loads w)).

Definition strict_ok (c : case) : bool :=
  match strict_failures c (hw_run c) with [] => true | _ => false end.

(** Known-finding class squash-rerecords-inherited-value (Props/C21.v C21_strict_refuted):
    at some read of two or more heads, head [a] physically holds [k -> v] in a segment it
    does not share with head [b], although no save that went into [a] but not into [b] wrote
    that; it was copied there from the common history by maybe_squash_with_ancestors; and [b]
    holds another value of [k] written by a save that started from a table already holding
    [k -> v]. Which of the two wins is then decided by read_dir order. *)
Fixpoint suffixes (t : table) : list table :=
  match t with [] => [] | _ :: r => t :: suffixes r end.
Fixpoint unshared (a b : table) : list ents :=
  match a with
  | [] => []
  | e :: r => if memt a (suffixes b) then [] else e :: unshared r b
  end.

Definition rerecord_witness (c : case) (w : hws) (k v : N) : bool :=
  existsb (fun rd =>
    existsb (fun a => existsb (fun b =>
      let ta := tab c (fst a) in
      let tb := tab c (fst b) in
      negb (fst a =? fst b)
      && existsb (fun f => option_eqb N.eqb (find k f) (Some v)) (unshared ta tb)
      && match lookup tb k with
         | Some vb => negb (vb =? v)%N
         | None => false
         end
      && forallb (fun s => memh s (snd b) || negb (option_eqb N.eqb (save_val w s k) (Some v))) (snd a)
      && existsb (fun s2 =>
           match save_val w s2 k with Some _ => true | None => false end
           && existsb (fun s1 => option_eqb N.eqb (save_val w s1 k) (Some v)) (save_base w s2))
           (snd b)) rd) rd) (hw_reads w).

Definition rerecord_class (c : case) : bool :=
  let w := hw_run c in
  forallb (fun kv => rerecord_witness c w (fst kv) (snd kv)) (strict_failures c w).

(** Known-finding class (see Props/C21.v, C21_overlap_refuted): two instances inside their
    add/remove phases at the same time, which needs an ineffective lock or a writer that
    saves without the lock. Decided on the trace: some instance performs an add/remove while
    another instance that already did an add has not finished its command. *)
Fixpoint overlap_walk (inside : list bool) (l : list obs) : bool :=
  match l with
  | [] => false
  | o :: r =>
    let pid := o_pid o in
    let acts := match o_label o with OAdd _ | ORemove _ => true | _ => false end in
    let others_inside := existsb (fun ib => snd ib && negb (fst ib =? pid))
                                 (combine (seq 0 (length inside)) inside) in
    let inside1 := if acts then set_nth pid true inside else inside in
    let inside2 := match o_done o with Some _ => set_nth pid false inside1 | None => inside1 end in
    (acts && others_inside) || overlap_walk inside2 r
  end.

Definition overlapping (c : case) : bool :=
  overlap_walk (repeat false (length (c_progs c))) (c_steps c).

Definition okb (c : case) : bool := okb_base c && strict_ok c.

(** The known bit needs: the model reproduces the run (a correspondence disagreement is never
    known), every failed part lies in its class. *)
Definition check_case (c : case) : N :=
  let corr := corr c in
  let prop := okb c in
  let known :=
    negb prop && corr
    && (okb_base c || overlapping c)
    && (strict_ok c || rerecord_class c || overlapping c) in
  verdict corr prop known 1.
