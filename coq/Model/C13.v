(** C13 — model of reconciling two concurrent operations:
    lib/src/repo.rs [MutableRepo::merge] / [merge_view] (1952-2046), [record_rewrites]
    (2048-2116), [merge_wc_commit] (1586-1611), lib/src/refs.rs [merge_ref_targets]
    (108-196), then [rebase_descendants] and the reference updates
    ([update_local_bookmarks], [update_wc_commits], [update_heads], repo.rs 1201-1325) that
    [RepoLoader::merge_operations] (781-897) runs on the merged transaction.

    Commits are modelled STRUCTURALLY: a commit is the list of (change id, description) of
    itself and its ancestors down to the root (root = []).  So only single-parent history is
    modelled; rebasing a commit is re-parenting its list; commit ids do not appear.
    Ancestry is the suffix relation.  Definitions only. *)
From Verif Require Import Base.Prelude Model.Merge.

Definition cinfo := (N * N)%type.                 (* change id, description *)
Definition commit := list cinfo.                  (* itself first, root = [] *)
Definition term := option commit.                 (* a term of a RefTarget *)
Definition target := list term.                   (* adds at even, removes at odd positions *)

Definition cinfo_eqb : cinfo -> cinfo -> bool := pair_eqb N.eqb N.eqb.
Definition commit_eqb : commit -> commit -> bool := list_eqb cinfo_eqb.
Definition term_eqb : term -> term -> bool := option_eqb commit_eqb.
Definition target_eqb : target -> target -> bool := list_eqb term_eqb.

Record view := mk_view {
  v_heads : list commit;
  v_bookmarks : list (N * target);               (* absent targets are not stored *)
  v_wc : list (N * commit);
}.

Definition memc (c : commit) (l : list commit) : bool := existsb (commit_eqb c) l.

(** [index.is_ancestor(a, b)]: reflexive. *)
Fixpoint suffixb (a b : commit) : bool :=
  commit_eqb a b || match b with [] => false | _ :: t => suffixb a t end.

(** All ancestors (suffixes, root included) of a commit / of a set of heads. *)
Fixpoint suffixes (c : commit) : list commit :=
  c :: match c with [] => [] | _ :: t => suffixes t end.

Fixpoint dedup (l : list commit) : list commit :=
  match l with
  | [] => []
  | x :: t => if memc x t then dedup t else x :: dedup t
  end.

Definition ancs (heads : list commit) : list commit := dedup (flat_map suffixes heads).

Definition change_of (c : commit) : N := match c with [] => 0 | (ch, _) :: _ => ch end.

(** ** [record_rewrites] *)
Inductive rewrite :=
| Rewritten (n : commit)
| Divergent (ns : list commit)
| Abandoned.

(** Commits of [old_heads]' history that are no longer in [new_heads]' history, classified
    by what became of their change id. *)
Definition record_rewrites (old_heads new_heads : list commit) : list (commit * rewrite) :=
  let old_anc := ancs old_heads in
  let new_anc := ancs new_heads in
  let removed := filter (fun c => negb (memc c new_anc)) old_anc in
  let added := filter (fun c => negb (memc c old_anc)) new_anc in
  map (fun r =>
         match filter (fun n => N.eqb (change_of n) (change_of r)) added with
         | [] => (r, Abandoned)
         | [n] => (r, Rewritten n)
         | ns => (r, Divergent ns)
         end) removed.

Fixpoint lookup_rw (m : list (commit * rewrite)) (c : commit) : option rewrite :=
  match m with
  | [] => None
  | (k, v) :: t => if commit_eqb k c then Some v else lookup_rw t c
  end.

Definition has_divergent (m : list (commit * rewrite)) : bool :=
  existsb (fun kv => match snd kv with Divergent _ => true | _ => false end) m.

(** Where a commit ends up once every rewritten ancestor is replaced by its successor and
    every abandoned one by its parent ("descendants follow").  Lexicographic recursion on
    (fuel, length): following a [Rewritten] edge costs fuel. *)
Fixpoint resolve (m : list (commit * rewrite)) (fuel : nat) (c : commit) {struct fuel} : commit :=
  match fuel with
  | O => c
  | S f =>
      (fix go (c : commit) : commit :=
         match lookup_rw m c with
         | Some (Rewritten n) => resolve m f n
         | Some Abandoned => match c with [] => [] | _ :: t => go t end
         | Some (Divergent _) => c
         | None => match c with [] => [] | x :: t => x :: go t end
         end) c
  end.

(** ** Heads *)
(** [normalize_heads]: drop duplicates and every head that is an ancestor of another head;
    an empty set becomes {root}. *)
Definition normalize (l : list commit) : list commit :=
  let d := dedup l in
  match filter (fun h => negb (existsb (fun g => negb (commit_eqb g h) && suffixb h g) d)) d with
  | [] => [[]]
  | r => r
  end.

(** ** Working copies: [merge_wc_commit] *)
Definition merge_wc1 (self base other : option commit) : option commit :=
  match trivial_merge (option_eqb commit_eqb) true [self; base; other] with
  | Some r => r
  | None => match self, other with
            | None, _ | _, None => None
            | _, _ => self
            end
  end.

Fixpoint lookup_n {V} (l : list (N * V)) (k : N) : option V :=
  match l with
  | [] => None
  | (k', v) :: t => if N.eqb k' k then Some v else lookup_n t k
  end.

Fixpoint insert_n {V} (k : N) (v : V) (l : list (N * V)) : list (N * V) :=
  match l with
  | [] => [(k, v)]
  | (k', v') :: t =>
      if N.ltb k k' then (k, v) :: l
      else if N.eqb k k' then (k, v) :: t
      else (k', v') :: insert_n k v t
  end.

Fixpoint remove_n {V} (k : N) (l : list (N * V)) : list (N * V) :=
  match l with
  | [] => []
  | (k', v') :: t => if N.eqb k k' then t else (k', v') :: remove_n k t
  end.

Definition set_opt {V} (k : N) (v : option V) (l : list (N * V)) : list (N * V) :=
  match v with Some x => insert_n k x l | None => remove_n k l end.

Fixpoint union_keys (a b : list N) : list N :=
  match a with
  | [] => b
  | x :: a' => if existsb (N.eqb x) b then union_keys a' b else x :: union_keys a' b
  end.

(** Names whose value differs between base and other ([diff_named_*]). *)
Definition changed_names {V} (eqb : V -> V -> bool) (base other : list (N * V)) : list N :=
  filter (fun k => negb (option_eqb eqb (lookup_n base k) (lookup_n other k)))
         (union_keys (map fst base) (map fst other)).

Definition merge_wc (self base other : list (N * commit)) : list (N * commit) :=
  fold_left (fun acc name =>
               set_opt name (merge_wc1 (lookup_n acc name) (lookup_n base name) (lookup_n other name)) acc)
            (changed_names commit_eqb base other) self.

(** ** Bookmarks: [merge_ref_targets] *)
Definition absent : target := [None].
Definition normal (c : commit) : target := [Some c].
Definition target_of (o : option target) : target := match o with Some t => t | None => absent end.

Fixpoint evens_t (l : target) : list term :=
  match l with [] => [] | a :: t => a :: match t with [] => [] | _ :: t' => evens_t t' end end.
Definition odds_t (l : target) : list term := match l with [] => [] | _ :: t => evens_t t end.

Fixpoint position {A} (p : A -> bool) (l : list A) (i : nat) : option nat :=
  match l with [] => None | x :: t => if p x then Some i else position p t (S i) end.

(** [find_pair_to_remove] (refs.rs:167-196): the first pair of adds (in index order) with
    one an ancestor of (or equal to) the other, together with the first remove that is an
    ancestor of the chosen (ancestor) add — an absent remove counts as a root. *)
Definition find_pair_to_remove (conflict : target) : option (nat * nat) :=
  let adds := evens_t conflict in
  let removes := odds_t conflict in
  let n := length adds in
  let pairs := flat_map (fun i => map (fun j => (i, j)) (seq (S i) (n - S i))) (seq 0 n) in
  (fix scan (ps : list (nat * nat)) : option (nat * nat) :=
     match ps with
     | [] => None
     | (i, j) :: rest =>
         let chosen :=
             match nth i adds None, nth j adds None with
             | Some id1, Some id2 =>
                 if commit_eqb id1 id2 then Some (i, id1)
                 else if suffixb id1 id2 then Some (i, id1)
                 else if suffixb id2 id1 then Some (j, id2)
                 else None
             | _, _ => None
             end in
         match chosen with
         | Some (ai, aid) =>
             match position (fun r => match r with Some id => suffixb id aid | None => true end)
                            removes 0 with
             | Some ri => Some (ri, ai)
             | None => scan rest
             end
         | None => scan rest
         end
     end) pairs.

(** [Vec::swap_remove] *)
Definition vec_swap_remove {A} (i : nat) (l : list A) : list A :=
  match rev l with
  | [] => []
  | lastx :: _ =>
      let l' := removelast l in
      if Nat.eqb i (length l') then l' else set_nth i lastx l'
  end.

(** [Merge::swap_remove(remove_index, add_index)] *)
Definition merge_swap_remove (ri ai : nat) (m : target) : target :=
  vec_swap_remove (2 * ri + 1) (vec_swap_remove (2 * ai) m).

Fixpoint non_trivial (fuel : nat) (m : target) : target :=
  match fuel with
  | O => m
  | S f => match find_pair_to_remove m with
           | Some (ri, ai) => non_trivial f (merge_swap_remove ri ai m)
           | None => m
           end
  end.

Definition merge_ref_targets (left base right : target) : target :=
  match trivial_merge target_eqb true [left; base; right] with
  | Some r => r
  | None =>
      let m := simplify term_eqb (flatten [left; base; right]) in
      match trivial_merge term_eqb true m with
      | Some r => [r]
      | None => non_trivial (length m) m
      end
  end.

Definition set_target (name : N) (t : target) (l : list (N * target)) : list (N * target) :=
  if target_eqb t absent then remove_n name l else insert_n name t l.

Definition merge_bookmarks (self base other : list (N * target)) : list (N * target) :=
  fold_left (fun acc name =>
               set_target name
                 (merge_ref_targets (target_of (lookup_n acc name)) (target_of (lookup_n base name))
                                    (target_of (lookup_n other name))) acc)
            (changed_names target_eqb base other) self.

(** ** Reference updates after the rebase ([update_local_bookmarks], [update_wc_commits]) *)
Definition moved (res : commit -> commit) (c : commit) : bool := negb (commit_eqb (res c) c).

(** One bookmark: every add that moved is merged in as [old -> new], in order. *)
Definition update_bookmark (res : commit -> commit) (t : target) : target :=
  fold_left (fun cur a =>
               match a with
               | Some old => if moved res old
                             then merge_ref_targets cur (normal old) (normal (res old))
                             else cur
               | None => cur
               end)
            (evens_t t) t.

Definition fresh_change : N := 999999.

(** A working copy on an abandoned commit gets a brand-new empty commit on top of where the
    abandoned commit's parent ends up; otherwise it follows the rewrite. *)
Definition update_wc (m : list (commit * rewrite)) (res : commit -> commit) (c : commit) : commit :=
  match lookup_rw m c with
  | Some Abandoned => (fresh_change, 0%N) :: res c
  | _ => res c
  end.

(** ** The whole reconciliation: [self] merges in [other] relative to [base]. *)
Definition merge_views (self base other : view) : option view :=
  let m := record_rewrites (v_heads base) (v_heads other)
           ++ record_rewrites (v_heads base) (v_heads self) in   (* later record wins *)
  if has_divergent m then None else
  let fuel := S (length m) in
  let res := resolve m fuel in
  let wc := merge_wc (v_wc self) (v_wc base) (v_wc other) in
  let added := filter (fun h => negb (memc h (v_heads base))) (v_heads other) in
  let heads := v_heads self ++ added in
  let bm := merge_bookmarks (v_bookmarks self) (v_bookmarks base) (v_bookmarks other) in
  (* [set_local_bookmark_target] makes every added id of a target a head (repo.rs:1796-1801) *)
  let heads := heads ++ flat_map (fun kv => flat_map (fun a => match a with Some c => [c] | None => [] end)
                                                     (evens_t (snd kv))) bm in
  let bm' := fold_right (fun kv acc => set_target (fst kv) (update_bookmark res (snd kv)) acc) [] bm in
  let wc' := map (fun kv => (fst kv, update_wc m res (snd kv))) wc in
  (* a recreated working-copy commit is a new head *)
  let wc_heads := map snd (filter (fun kv => match lookup_rw m (snd kv) with Some Abandoned => true | _ => false end) wc) in
  Some (mk_view (normalize (map res heads ++ map (fun c => (fresh_change, 0%N) :: res c) wc_heads))
                bm' wc').

(** ** The operation DAG and [RepoLoader::merge_operations] (repo.rs:781-897) *)
Record opnode := mk_node {
  n_parents : list nat;      (* positions of the parent operations (smaller positions) *)
  n_rank : N;                (* order of [OperationByEndTime] (end time, then id) *)
  n_view : view;
}.

Definition memn (i : nat) (l : list nat) : bool := existsb (Nat.eqb i) l.

Fixpoint add_new (xs acc : list nat) : list nat :=
  match xs with
  | [] => acc
  | x :: t => if memn x acc then add_new t acc else add_new t (acc ++ [x])
  end.

Definition parents_at (dag : list opnode) (i : nat) : list nat :=
  match nth_error dag i with Some n => n_parents n | None => [] end.

(** Reflexive ancestors of a set of operations. *)
Fixpoint close_anc (fuel : nat) (dag : list opnode) (s : list nat) : list nat :=
  match fuel with
  | O => s
  | S f => close_anc f dag (add_new (flat_map (parents_at dag) s) s)
  end.
Definition op_ancestors (dag : list opnode) (s : list nat) : list nat :=
  close_anc (length dag) dag (add_new s []).

Definition rank_at (dag : list opnode) (i : nat) : N :=
  match nth_error dag i with Some n => n_rank n | None => 0 end.

Fixpoint insert_desc (dag : list opnode) (x : nat) (l : list nat) : list nat :=
  match l with
  | [] => [x]
  | y :: t => if N.ltb (rank_at dag y) (rank_at dag x) then x :: l else y :: insert_desc dag x t
  end.

(** [op_walk::closest_common_ancestors]: the common ancestors that are not ancestors of
    another common ancestor, the latest first. *)
Definition cca (dag : list opnode) (a b : list nat) : list nat :=
  let aa := op_ancestors dag a in
  let ab := op_ancestors dag b in
  let common := filter (fun i => memn i aa && memn i ab) (seq 0 (length dag)) in
  let closest := filter (fun c => negb (existsb (fun d => negb (Nat.eqb d c)
                                                      && memn c (op_ancestors dag [d])) common))
                        common in
  fold_right (insert_desc dag) [] closest.

Inductive mres := MOk (v : view) | MSkip | MBad.

(** The transaction starts at the first operation; every further operation is merged in
    relative to the closest common ancestors of EVERYTHING merged so far and itself; several
    such ancestors are first merged among themselves, the same way. *)
Fixpoint merge_ops (fuel : nat) (dag : list opnode) (ops : list nat) : mres :=
  match fuel with
  | O => MBad
  | S f =>
      match ops with
      | [] => MBad
      | o0 :: rest =>
          match nth_error dag o0 with
          | None => MBad
          | Some n0 =>
              (fix go (cur : view) (merged : list nat) (rest : list nat) : mres :=
                 match rest with
                 | [] => MOk cur
                 | other :: rest' =>
                     match nth_error dag other with
                     | None => MBad
                     | Some no =>
                         let base :=
                             match cca dag merged [other] with
                             | [] => MBad
                             | [a] => match nth_error dag a with Some na => MOk (n_view na) | None => MBad end
                             | ancs => merge_ops f dag ancs
                             end in
                         match base with
                         | MOk vb =>
                             match merge_views cur vb (n_view no) with
                             | Some v' => go v' (merged ++ [other]) rest'
                             | None => MSkip
                             end
                         | other_res => other_res
                         end
                     end
                 end) (n_view n0) [o0] rest
          end
      end
  end.

(** ** Correspondence case *)
Record case := mk_case {
  c_dag : list opnode;     (* every operation involved, parents before children *)
  c_heads : list nat;      (* the operations handed to merge_operations, in that order *)
  c_merged : view;         (* impl: view of the reconciling operation *)
  c_failed : bool;
}.

Definition heads_eqb (a b : list commit) : bool :=
  forallb (fun x => memc x b) a && forallb (fun x => memc x a) b.

Definition view_eqb (a b : view) : bool :=
  heads_eqb (v_heads a) (v_heads b)
  && list_eqb (pair_eqb N.eqb target_eqb) (v_bookmarks a) (v_bookmarks b)
  && list_eqb (pair_eqb N.eqb commit_eqb) (v_wc a) (v_wc b).

(** ** The property checker, on the implementation's merged view only. *)
Definition changes_of (heads : list commit) : list N := map change_of (ancs heads).

Definition visible (heads : list commit) (c : commit) : bool := memc c (ancs heads).

(** K1: every change created or kept by a side is still represented by a visible commit,
    unless the other side abandoned (not rewrote) that very change. *)
Definition kept_changes (side base other merged : view) : bool :=
  forallb (fun c =>
             existsb (N.eqb (change_of c)) (changes_of (v_heads merged))
             || (* abandoned by the other side *)
             (visible (v_heads base) c
              && negb (existsb (N.eqb (change_of c)) (changes_of (v_heads other)))))
          (ancs (v_heads side)).

(** K2: a commit either side removed from view is not visible afterwards. *)
Definition removed_hidden (side base merged : view) : bool :=
  forallb (fun c => visible (v_heads side) c || negb (visible (v_heads merged) c))
          (ancs (v_heads base)).

(** K3/K4 per bookmark: untouched side => the other side's target up to rewrites (same
    changes); both equal => kept; both changed differently to resolved targets => every
    side's change id still occurs among the adds (or a fast-forward to a descendant). *)
Definition target_changes (t : target) : list N :=
  flat_map (fun a => match a with Some c => [change_of c] | None => [] end) (evens_t t).

Definition subsetN (a b : list N) : bool := forallb (fun x => existsb (N.eqb x) b) a.

Definition bookmark_ok (self base other merged : view) (name : N) : bool :=
  let s := target_of (lookup_n (v_bookmarks self) name) in
  let b := target_of (lookup_n (v_bookmarks base) name) in
  let o := target_of (lookup_n (v_bookmarks other) name) in
  let r := target_of (lookup_n (v_bookmarks merged) name) in
  let gone c := existsb (N.eqb c) (changes_of (v_heads base))
                && negb (existsb (N.eqb c) (changes_of (v_heads merged))) in
  let covered (t : target) :=
      forallb (fun c => existsb (N.eqb c) (target_changes r) || gone c) (target_changes t) in
  if target_eqb s b then covered o && (length r <=? length o)%nat
  else if target_eqb o b then covered s && (length r <=? length s)%nat
  else if target_eqb s o then covered s
  else match s, o with
       | [Some cs], [Some co] =>
           (* different moves: both kept (conflict), or fast-forward to the descendant *)
           (covered s && covered o)
           || (match r with
               | [Some cr] =>
                   (* ancestry up to rewrites: the other target's change lies below *)
                   (N.eqb (change_of cr) (change_of cs)
                    && existsb (N.eqb (change_of co)) (map fst cs))
                   || (N.eqb (change_of cr) (change_of co)
                       && existsb (N.eqb (change_of cs)) (map fst co))
               | _ => false
               end)
       | _, _ => true
       end.

(** K5: working copies follow [merge_wc_commit]'s rule up to rewrites. *)
Definition wc_ok (self base other merged : view) (name : N) : bool :=
  let s := lookup_n (v_wc self) name in
  let b := lookup_n (v_wc base) name in
  let o := lookup_n (v_wc other) name in
  let r := lookup_n (v_wc merged) name in
  let expect := if option_eqb commit_eqb b o then s else merge_wc1 s b o in
  match expect, r with
  | None, None => true
  | Some e, Some x =>
      N.eqb (change_of x) (change_of e)
      || N.eqb (change_of x) fresh_change      (* recreated on top of an abandoned commit *)
  | _, _ => false
  end.

(** ** Checks over the whole operation DAG *)
Definition view_at (dag : list opnode) (i : nat) : view :=
  match nth_error dag i with Some n => n_view n | None => mk_view [] [] [] end.

(** A commit some ancestor operation of head [h] still showed and [h] no longer shows:
    rewritten or abandoned on that line of history. *)
Definition removed_on_line (dag : list opnode) (h : nat) (c : commit) : bool :=
  negb (visible (v_heads (view_at dag h)) c)
  && existsb (fun a => visible (v_heads (view_at dag a)) c) (op_ancestors dag [h]).

(** The change was rewritten divergently: at least two other visible commits carry it
    (descendants of a divergently rewritten commit are deliberately left in place). *)
Definition divergent_in (merged : view) (c : commit) : bool :=
  (2 <=? length (filter (fun x => N.eqb (change_of x) (change_of c) && negb (commit_eqb x c))
                        (ancs (v_heads merged))))%nat.

(** [rebase_descendants] deliberately leaves the descendants of a DIVERGENTLY rewritten commit
    in place (it cannot choose a successor), so such a removed commit [d] - and with it its
    ancestors - stays reachable.  [kept_in_place]: [c] is (an ancestor of) a visible removed
    commit whose change at least two other visible commits carry. *)
Definition kept_in_place (dag : list opnode) (heads : list nat) (merged : view) (c : commit) : bool :=
  existsb (fun d => suffixb c d && divergent_in merged d
                    && existsb (fun h' => removed_on_line dag h' d) heads)
          (ancs (v_heads merged)).

(** The add terms of a CONFLICTED bookmark are made visible by [set_local_bookmark_target]
    whatever they are; merging conflicted targets can turn a stale negative term into an add. *)
Definition under_conflicted_bookmark (merged : view) (c : commit) : bool :=
  existsb (fun kv => (1 <? length (snd kv))%nat
                     && existsb (fun a => match a with Some d => suffixb c d | None => false end)
                                (evens_t (snd kv)))
          (v_bookmarks merged).

(** D1: a commit removed on the line of some head must not re-appear, except as (an ancestor
    of) a divergently rewritten commit that is kept in place, or of a side of a conflicted
    bookmark. *)
Definition dag_removed_hidden (dag : list opnode) (heads : list nat) (merged : view) : bool :=
  forallb (fun h =>
     forallb (fun a =>
        forallb (fun c => visible (v_heads (view_at dag h)) c
                          || negb (visible (v_heads merged) c) || kept_in_place dag heads merged c
                          || under_conflicted_bookmark merged c)
                (ancs (v_heads (view_at dag a))))
       (op_ancestors dag [h])) heads.

(** D2: a change a head shows is still represented, unless some line of history dropped it. *)
Definition dag_kept_changes (dag : list opnode) (heads : list nat) (merged : view) : bool :=
  forallb (fun h =>
     forallb (fun c =>
        existsb (N.eqb (change_of c)) (changes_of (v_heads merged))
        || existsb (fun h' =>
             negb (existsb (N.eqb (change_of c)) (changes_of (v_heads (view_at dag h'))))
             && existsb (fun a => existsb (N.eqb (change_of c)) (changes_of (v_heads (view_at dag a))))
                        (op_ancestors dag [h'])) heads)
       (ancs (v_heads (view_at dag h)))) heads.

(** D3 (refs): if one head [w] is such that every other head [h] has, with [w], exactly one
    closest common ancestor and shows the same value as that ancestor (so only [w]'s line
    changed the ref since the true fork points), the reconciled value is [w]'s up to rewrites:
    same number of terms (in particular NOT a new conflict) and the same change ids. *)
Definition only_changer {V} (eqb : V -> V -> bool) (commits_of : V -> list commit)
  (dag : list opnode) (heads : list nat) (value : view -> V) (w : nat) : bool :=
  (* the new value's commits were not rewritten or abandoned on another line either *)
  forallb (fun c => forallb (fun h' => Nat.eqb h' w || negb (removed_on_line dag h' c)) heads)
          (commits_of (value (view_at dag w)))
  &&
  forallb (fun h => Nat.eqb h w ||
             match cca dag [h] [w] with
             | [a] =>
                 eqb (value (view_at dag h)) (value (view_at dag a))
                 (* and no other line rewrote or abandoned the commits the old value names
                    (a rebased ref counts as changed by that line) *)
                 && forallb (fun c => forallb (fun h' => Nat.eqb h' w || negb (removed_on_line dag h' c)) heads)
                            (commits_of (value (view_at dag a)))
             | _ => false
             end) heads.

Definition target_commits (t : target) : list commit :=
  flat_map (fun a => match a with Some c => [c] | None => [] end) t.

Definition bookmark_dag_ok (dag : list opnode) (heads : list nat) (merged : view) (name : N) : bool :=
  let value v := target_of (lookup_n (v_bookmarks v) name) in
  let r := value merged in
  let gone c := negb (existsb (N.eqb c) (changes_of (v_heads merged))) in
  forallb (fun w =>
     negb (only_changer target_eqb target_commits dag heads value w)
     || (let t := value (view_at dag w) in
         (length r <=? length t)%nat
         && (negb (target_eqb t absent) || target_eqb r absent)
         && forallb (fun c => existsb (N.eqb c) (target_changes r) || gone c) (target_changes t)))
    heads.

Definition wc_dag_ok (dag : list opnode) (heads : list nat) (merged : view) (name : N) : bool :=
  let value v := lookup_n (v_wc v) name in
  forallb (fun w =>
     negb (only_changer (option_eqb commit_eqb) (fun o => match o with Some c => [c] | None => [] end) dag heads value w)
     || match value (view_at dag w), value merged with
        | None, None => true
        | Some e, Some x => N.eqb (change_of x) (change_of e) || N.eqb (change_of x) fresh_change
        | _, _ => false
        end)
    heads.

Definition okb (c : case) : bool :=
  negb (c_failed c) &&
  (let dag := c_dag c in let heads := c_heads c in let r := c_merged c in
   let names (f : view -> list N) := fold_right union_keys (f r) (map (fun h => f (view_at dag h)) heads) in
   dag_removed_hidden dag heads r
   && dag_kept_changes dag heads r
   && forallb (bookmark_dag_ok dag heads r) (names (fun v => map fst (v_bookmarks v)))
   && forallb (wc_dag_ok dag heads r) (names (fun v => map fst (v_wc v)))
   && match heads with
      | [i; j] =>
          (* two operations with one closest common ancestor: the pairwise rules as well *)
          match cca dag [i] [j] with
          | [bi] =>
              let s := view_at dag i in let b := view_at dag bi in let o := view_at dag j in
              kept_changes s b o r && kept_changes o b s r
              && removed_hidden s b r && removed_hidden o b r
              && forallb (bookmark_ok s b o r)
                   (union_keys (map fst (v_bookmarks s)) (union_keys (map fst (v_bookmarks b))
                      (union_keys (map fst (v_bookmarks o)) (map fst (v_bookmarks r)))))
              && forallb (wc_ok s b o r)
                   (union_keys (map fst (v_wc s)) (union_keys (map fst (v_wc b))
                      (union_keys (map fst (v_wc o)) (map fst (v_wc r)))))
          | _ => true
          end
      | _ => true
      end).

Definition check_case (c : case) : N :=
  let corr := negb (c_failed c) &&
              match merge_ops (S (length (c_dag c))) (c_dag c) (c_heads c) with
              | MOk v => view_eqb v (c_merged c)
              | MSkip => true          (* divergent rewrites: not modelled, checker only *)
              | MBad => false
              end in
  verdict corr (okb c) false 1.
