(** C30 — matchers (lib/src/matchers.rs) over [RepoPathTree] (lib/src/repo_path.rs:757-823).
    Paths are lists of component names of an arbitrary type with a decidable equality.
    The glob engine (globset + regex) is code jj does not own: [gm prefix_mode pid tail] is
    the verdict of pattern [pid]'s regex ([Glob::regex] when [prefix_mode = false],
    [glob_to_prefix_regex] otherwise) on the '/'-joined [tail]; a Section variable in the
    proofs, a recorded table when running. Definitions only; proofs in Proofs/C30.v. *)
From Verif Require Import Base.Prelude.
Local Open Scope N_scope.

Section Model.
  Context {name pid : Type} (neqb : name -> name -> bool).
  Definition path := list name.
  Variable gm : bool -> pid -> path -> bool.

  Definition is_nil {A} (l : list A) : bool := match l with [] => true | _ => false end.
  Definition path_eqb : path -> path -> bool := list_eqb neqb.

  (** [RepoPathTree<V>]: a value and a map from component to sub-tree (the [HashMap] is an
      association list; [add] never creates a second entry for a key). *)
  Inductive tree (V : Type) := Node (v : V) (ch : list (name * tree V)).
  Arguments Node {V} v ch.
  Definition value {V} (t : tree V) : V := match t with Node v _ => v end.
  Definition children {V} (t : tree V) : list (name * tree V) := match t with Node _ ch => ch end.
  Definition has_children {V} (t : tree V) : bool := negb (is_nil (children t)).

  Fixpoint assoc {A} (c : name) (l : list (name * A)) : option A :=
    match l with
    | [] => None
    | (k, v) :: r => if neqb c k then Some v else assoc c r
    end.

  (** [entries.get_mut(name)] after inserting a default entry when missing, applied to [f]. *)
  Fixpoint update_child {A} (dflt : A) (c : name) (f : A -> A) (l : list (name * A))
    : list (name * A) :=
    match l with
    | [] => [(c, f dflt)]
    | (k, v) :: r => if neqb c k then (k, f v) :: r else (k, v) :: update_child dflt c f r
    end.

  (** [tree.add(path)] followed by an update of the value of the node reached
      ([set_value(..)] in the constructors). *)
  Fixpoint add_modify {V} (dflt : V) (f : V -> V) (p : path) (t : tree V) : tree V :=
    match p with
    | [] => Node (f (value t)) (children t)
    | c :: p' =>
        Node (value t) (update_child (Node dflt []) c (add_modify dflt f p') (children t))
    end.

  (** [tree.get(path)]. *)
  Fixpoint tget {V} (t : tree V) (p : path) : option (tree V) :=
    match p with
    | [] => Some t
    | c :: p' => match assoc c (children t) with Some s => tget s p' | None => None end
    end.

  (** [tree.walk_to(path)]: each sub tree on the way with the remaining path. *)
  Fixpoint walk {V} (t : tree V) (p : path) : list (tree V * path) :=
    (t, p) :: match p with
              | [] => []
              | c :: p' => match assoc c (children t) with Some s => walk s p' | None => [] end
              end.

  (** * Visit *)
  Inductive vset := VAll | VSet (l : list name).
  Inductive visit := AllRecursively | Specific (dirs files : vset) | VNothing.
  Definition SOME : visit := Specific VAll VAll.
  (** [Visit::sets] *)
  Definition sets (dirs files : list name) : visit :=
    if is_nil dirs && is_nil files then VNothing else Specific (VSet dirs) (VSet files).

  (** * FilesMatcher (matchers.rs:131-177) *)
  Inductive files_kind := FDir | FFile.
  Definition is_file (k : files_kind) : bool := match k with FFile => true | FDir => false end.
  Definition files_tree (files : list path) : tree files_kind :=
    fold_left (fun t f => add_modify FDir (fun _ => FFile) f t) files (Node FDir []).
  Definition files_matches (t : tree files_kind) (file : path) : bool :=
    match tget t file with Some sub => is_file (value sub) | None => false end.
  Definition files_tree_to_visit_sets (t : tree files_kind) : visit :=
    sets (map fst (filter (fun e => has_children (snd e)) (children t)))
         (map fst (filter (fun e => is_file (value (snd e))) (children t))).
  Definition files_visit (t : tree files_kind) (dir : path) : visit :=
    match tget t dir with Some sub => files_tree_to_visit_sets sub | None => VNothing end.

  (** * PrefixMatcher (matchers.rs:179-236) *)
  Inductive prefix_kind := PDir | PPrefix.
  Definition is_prefix_kind (k : prefix_kind) : bool :=
    match k with PPrefix => true | PDir => false end.
  Definition prefix_tree (prefixes : list path) : tree prefix_kind :=
    fold_left (fun t f => add_modify PDir (fun _ => PPrefix) f t) prefixes (Node PDir []).
  Definition prefix_matches (t : tree prefix_kind) (file : path) : bool :=
    existsb (fun e => is_prefix_kind (value (fst e))) (walk t file).
  Definition prefix_tree_to_visit_sets (t : tree prefix_kind) : visit :=
    sets (map fst (children t))
         (map fst (filter (fun e => is_prefix_kind (value (snd e))) (children t))).
  Fixpoint prefix_visit_loop (w : list (tree prefix_kind * path)) : visit :=
    match w with
    | [] => VNothing
    | (sub, tail) :: r =>
        if is_prefix_kind (value sub) then AllRecursively
        else if is_nil tail then prefix_tree_to_visit_sets sub
        else prefix_visit_loop r
    end.
  Definition prefix_visit (t : tree prefix_kind) (dir : path) : visit :=
    prefix_visit_loop (walk t dir).

  (** * GlobsMatcher (matchers.rs:238-345). A node's value is the set of patterns registered
      for that directory ([None] = no [RegexSet]). *)
  Definition globs_tree (pats : list (path * pid)) : tree (option (list pid)) :=
    fold_left (fun t dp =>
                 add_modify None (fun v => match v with
                                           | None => Some [snd dp]
                                           | Some l => Some (l ++ [snd dp])
                                           end) (fst dp) t)
              pats (Node None []).
  Definition is_match (pm : bool) (pats : list pid) (tail : path) : bool :=
    existsb (fun pid => gm pm pid tail) pats.
  Fixpoint take_while {A} (f : A -> bool) (l : list A) : list A :=
    match l with
    | [] => []
    | x :: r => if f x then x :: take_while f r else []
    end.
  Definition globs_matches (pm : bool) (t : tree (option (list pid))) (file : path) : bool :=
    existsb (fun e => match value (fst e) with
                      | Some pats => is_match pm pats (snd e)
                      | None => false
                      end)
            (take_while (fun e => negb (is_nil (snd e))) (walk t file)).
  Definition visit_is_nothing (v : visit) : bool :=
    match v with VNothing => true | _ => false end.
  Fixpoint globs_visit_loop (pm : bool) (max_visit : visit)
           (w : list (tree (option (list pid)) * path)) : visit :=
    match w with
    | [] => max_visit
    | (sub, tail) :: r =>
        match value sub with
        | Some pats =>
            if pm && is_match pm pats tail then AllRecursively
            else if negb pm then SOME          (* max_visit = SOME; break *)
            else globs_visit_loop pm SOME r    (* the "dir found" test fails: max_visit is SOME *)
        | None =>
            if is_nil tail && visit_is_nothing max_visit
            then sets (map fst (children sub)) []
            else globs_visit_loop pm max_visit r
        end
    end.
  Definition globs_visit (pm : bool) (t : tree (option (list pid))) (dir : path) : visit :=
    globs_visit_loop pm VNothing (walk t dir).

  (** * Combinators (matchers.rs:374-520), arm by arm *)
  Definition mem_name (c : name) (l : list name) : bool := existsb (neqb c) l.
  Definition union_vset (a b : vset) : vset :=
    match a, b with
    | VAll, _ | _, VAll => VAll
    | VSet x, VSet y => VSet (x ++ y)
    end.
  Definition inter_vset (a b : vset) : vset :=
    match a, b with
    | VAll, VAll => VAll
    | x, VAll => x
    | VAll, y => y
    | VSet x, VSet y => VSet (filter (fun c => mem_name c y) x)
    end.
  Definition union_visit (v1 : visit) (v2 : unit -> visit) : visit :=
    match v1 with
    | AllRecursively => AllRecursively
    | VNothing => v2 tt
    | Specific d1 f1 =>
        match v2 tt with
        | AllRecursively => AllRecursively
        | VNothing => Specific d1 f1
        | Specific d2 f2 => Specific (union_vset d1 d2) (union_vset f1 f2)
        end
    end.
  Definition difference_visit (unwanted : visit) (wanted : unit -> visit) : visit :=
    match unwanted with
    | AllRecursively => VNothing
    | VNothing => wanted tt
    | Specific _ _ =>
        match wanted tt with
        | AllRecursively => SOME
        | w => w
        end
    end.
  Definition intersection_visit (v1 : visit) (v2 : unit -> visit) : visit :=
    match v1 with
    | AllRecursively => v2 tt
    | VNothing => VNothing
    | Specific d1 f1 =>
        match v2 tt with
        | AllRecursively => Specific d1 f1
        | VNothing => VNothing
        | Specific d2 f2 =>
            let dirs := inter_vset d1 d2 in
            let files := inter_vset f1 f2 in
            match dirs, files with
            | VSet d, VSet f => if is_nil d && is_nil f then VNothing else Specific dirs files
            | _, _ => Specific dirs files
            end
        end
    end.

  (** * Matcher expressions *)
  Inductive mexpr :=
  | MNothing
  | MEverything
  | MFiles (files : list path)
  | MPrefix (prefixes : list path)
  | MGlobs (prefix_mode : bool) (pats : list (path * pid))
  | MUnion (a b : mexpr)
  | MIntersection (a b : mexpr)
  | MDifference (wanted unwanted : mexpr).

  (** The built matcher: the trees are constructed once, as the Rust constructors do. *)
  Inductive matcher :=
  | BNothing
  | BEverything
  | BFiles (t : tree files_kind)
  | BPrefix (t : tree prefix_kind)
  | BGlobs (pm : bool) (t : tree (option (list pid)))
  | BUnion (a b : matcher)
  | BIntersection (a b : matcher)
  | BDifference (wanted unwanted : matcher).

  Fixpoint build (e : mexpr) : matcher :=
    match e with
    | MNothing => BNothing
    | MEverything => BEverything
    | MFiles fs => BFiles (files_tree fs)
    | MPrefix ps => BPrefix (prefix_tree ps)
    | MGlobs pm pats => BGlobs pm (globs_tree pats)
    | MUnion a b => BUnion (build a) (build b)
    | MIntersection a b => BIntersection (build a) (build b)
    | MDifference a b => BDifference (build a) (build b)
    end.

  Fixpoint matches (m : matcher) (file : path) : bool :=
    match m with
    | BNothing => false
    | BEverything => true
    | BFiles t => files_matches t file
    | BPrefix t => prefix_matches t file
    | BGlobs pm t => globs_matches pm t file
    | BUnion a b => matches a file || matches b file
    | BIntersection a b => matches a file && matches b file
    | BDifference a b => matches a file && negb (matches b file)
    end.

  Fixpoint mvisit (m : matcher) (dir : path) : visit :=
    match m with
    | BNothing => VNothing
    | BEverything => AllRecursively
    | BFiles t => files_visit t dir
    | BPrefix t => prefix_visit t dir
    | BGlobs pm t => globs_visit pm t dir
    | BUnion a b => union_visit (mvisit a dir) (fun _ => mvisit b dir)
    | BIntersection a b => intersection_visit (mvisit a dir) (fun _ => mvisit b dir)
    | BDifference w u => difference_visit (mvisit u dir) (fun _ => mvisit w dir)
    end.

  (** Assumption on the glob oracle needed in prefix mode only: the regexes produced by
      [glob_to_prefix_regex] end in [(?:/|$)], so a match on a path is a match on every
      extension of that path. *)
  Definition gm_prefix_closed : Prop :=
    forall pid t q, gm true pid t = true -> gm true pid (t ++ q) = true.
  Fixpoint uses_prefix_globs (m : matcher) : bool :=
    match m with
    | BGlobs pm _ => pm
    | BUnion a b | BIntersection a b | BDifference a b =>
        uses_prefix_globs a || uses_prefix_globs b
    | _ => false
    end.

  (** * What a tree walk needs from [visit] at directory [dir], for a path [dir ++ q] below
      it ([q] non-empty), given whether that path matches. *)
  Definition vset_mem (c : name) (s : vset) : bool :=
    match s with VAll => true | VSet l => mem_name c l end.
  Definition visit_allows (v : visit) (q : path) (matched : bool) : bool :=
    match q with
    | [] => true
    | c :: q' =>
        match v with
        | AllRecursively => matched
        | VNothing => negb matched
        | Specific dirs files =>
            negb matched || (if is_nil q' then vset_mem c files else vset_mem c dirs)
        end
    end.

  Fixpoint strip_prefix (d p : path) : option path :=
    match d, p with
    | [], _ => Some p
    | a :: d', b :: p' => if neqb a b then strip_prefix d' p' else None
    | _ :: _, [] => None
    end.

  Definition vset_eqb (a b : vset) : bool :=
    match a, b with
    | VAll, VAll => true
    | VSet x, VSet y => forallb (fun c => mem_name c y) x && forallb (fun c => mem_name c x) y
    | _, _ => false
    end.
  Definition visit_eqb (a b : visit) : bool :=
    match a, b with
    | AllRecursively, AllRecursively | VNothing, VNothing => true
    | Specific d1 f1, Specific d2 f2 => vset_eqb d1 d2 && vset_eqb f1 f2
    | _, _ => false
    end.
End Model.

Arguments Node {name V} v ch.
Arguments VAll {name}.
Arguments VSet {name} l.
Arguments AllRecursively {name}.
Arguments Specific {name} dirs files.
Arguments VNothing {name}.
Arguments MNothing {name pid}.
Arguments MEverything {name pid}.
Arguments MFiles {name pid} files.
Arguments MPrefix {name pid} prefixes.
Arguments MGlobs {name pid} prefix_mode pats.
Arguments MUnion {name pid} a b.
Arguments MIntersection {name pid} a b.
Arguments MDifference {name pid} wanted unwanted.

(** * Correspondence case (names are numbers) *)
Definition npath := list N.

(** Recorded glob verdicts: the entries that are [true]; everything else asked is [false]. *)
Definition gm_table (tbl : list (bool * N * npath)) (pm : bool) (pid : N) (tail : npath) : bool :=
  existsb (fun e => Bool.eqb (fst (fst e)) pm && N.eqb (snd (fst e)) pid
                    && list_eqb N.eqb (snd e) tail) tbl.

Record case := mk_case {
  c_expr : @mexpr N N;
  c_globs : list (bool * N * npath);       (* glob oracle: (prefix_mode, pattern, tail) that match *)
  c_matches : list (npath * bool);         (* impl: matcher.matches(path) *)
  c_visits : list (npath * @visit N);      (* impl: matcher.visit(dir) *)
  c_panicked : bool;
}.

(** All contiguous sub-ranges of a path: the tails on which the harness asks the glob oracle. *)
Fixpoint prefixes_of (p : npath) : list npath :=
  [] :: match p with [] => [] | c :: t => map (cons c) (prefixes_of t) end.
Fixpoint suffixes_of (p : npath) : list npath :=
  p :: match p with [] => [] | _ :: t => suffixes_of t end.
Definition subranges (p : npath) : list npath := flat_map prefixes_of (suffixes_of p).

(** The oracle assumption [gm_prefix_closed], checked on the recorded verdicts: a prefix-mode
    match on a tail persists on every asked extension of that tail. *)
Definition closed_on (tbl : list (bool * N * npath)) (univ : list npath) : bool :=
  forallb (fun e =>
    negb (fst (fst e))
    || forallb (fun t' => match strip_prefix N.eqb (snd e) t' with
                          | Some _ => gm_table tbl true (snd (fst e)) t'
                          | None => true
                          end) univ) tbl.

(** The property on the implementation's answers: every recorded [visit] answer is
    consistent with every recorded [matches] answer below that directory; and the recorded
    prefix-mode glob verdicts are closed under extension on the asked tails. *)
Definition okb (c : case) : bool :=
  negb (c_panicked c) &&
  forallb (fun dv =>
    forallb (fun pb =>
      match strip_prefix N.eqb (fst dv) (fst pb) with
      | Some q => visit_allows N.eqb (snd dv) q (snd pb)
      | None => true
      end) (c_matches c)) (c_visits c)
  && closed_on (c_globs c) (flat_map (fun pb => subranges (fst pb)) (c_matches c)).

Definition check_case (c : case) : N :=
  let m := build N.eqb (c_expr c) in
  let gm := gm_table (c_globs c) in
  let corr :=
    negb (c_panicked c)
    && forallb (fun pb => Bool.eqb (matches N.eqb gm m (fst pb)) (snd pb)) (c_matches c)
    && forallb (fun dv => visit_eqb N.eqb (mvisit N.eqb gm m (fst dv)) (snd dv)) (c_visits c) in
  verdict corr (okb c) false 1.
