(** Model of lib/src/conflicts.rs (materialize / parse of conflict markers and
    update_from_content). Definitions only; proofs live in Proofs/C05*.v, Proofs/C06*.v.

    Conventions: a [Merge<BString>] is the alternating term vector (add, remove, add, ...)
    of Model/Merge.v, here [hunk := list bytes]; a merge is resolved iff it has one term.
    Marker bytes, lengths and label texts come from Gen/Tables.v (scraped from the source on
    every run). [usize] lengths and positions are [nat]; [saturating_add] never saturates on
    inputs that fit in memory and is modelled as [+]. *)
From Verif Require Import Base.Prelude Gen.Tables.
Local Open Scope N_scope.

(** Type abbreviations are parsing-only notations (not definitions) so that every term of
    this development mentions [list N] itself and rewriting never meets two spellings. *)
Notation bytes := (list N) (only parsing).
Notation hunk := (list (list N)) (only parsing).
Notation term := (list N * list N)%type (only parsing).

Definition LF : N := 10.
Definition CR : N := 13.
Definition SP : N := 32.

(** [bstr::ByteSlice::lines_with_terminator]: split after every LF, terminators kept; a
    final unterminated line is yielded if non-empty; the empty input has no line. *)
Fixpoint lines (l : bytes) : list bytes :=
  match l with
  | [] => []
  | b :: t =>
      if b =? LF then [b] :: lines t
      else match lines t with
           | [] => [[b]]
           | x :: r => (b :: x) :: r
           end
  end.

Fixpoint last_opt (l : bytes) : option N :=
  match l with
  | [] => None
  | [b] => Some b
  | _ :: t => last_opt t
  end.

(** [content.last().is_none_or(|last| *last == b'\n')] (conflicts.rs:530); its negation is
    [term.contents.last().is_some_and(|ch| *ch != b'\n')] (conflicts.rs:604). *)
Definition ends_ok (c : bytes) : bool :=
  match last_opt c with None => true | Some b => b =? LF end.

Definition ends_with (l suffix : bytes) : bool :=
  bytes_eqb (skipn (length l - length suffix) l) suffix.

(** [Vec::pop_if(|x| *x == c)]: the shortened vector and whether a byte was popped. *)
Definition pop_if (c : N) (l : bytes) : bytes * bool :=
  match rev l with
  | b :: t => if b =? c then (rev t, true) else (l, false)
  | [] => (l, false)
  end.

(** Decimal rendering of [usize] as [format!("{}")] does. *)
Fixpoint dec_aux (fuel : nat) (n : N) (acc : bytes) : bytes :=
  match fuel with
  | O => acc
  | S f => let d := 48 + n mod 10 in
           if n <? 10 then d :: acc else dec_aux f (n / 10) (d :: acc)
  end.
Definition dec (n : nat) : bytes := dec_aux (S n) (N.of_nat n) [].

(* ------------------------------------------------------------------ marker lines *)

(** [ConflictMarkerLineChar] (conflicts.rs:336-345), in the arm order of [parse_byte]. *)
Inductive mkind := KStart | KEnd | KAdd | KRemove | KDiff | KNote | KGitAnc | KGitSep.

Definition mkind_eqb (a b : mkind) : bool :=
  match a, b with
  | KStart, KStart | KEnd, KEnd | KAdd, KAdd | KRemove, KRemove
  | KDiff, KDiff | KNote, KNote | KGitAnc, KGitAnc | KGitSep, KGitSep => true
  | _, _ => false
  end.

Definition mbyte (l : list N) : N := hd 0 l.
Definition kind_byte (k : mkind) : N :=
  match k with
  | KStart => mbyte MARKER_CONFLICT_START
  | KEnd => mbyte MARKER_CONFLICT_END
  | KAdd => mbyte MARKER_ADD
  | KRemove => mbyte MARKER_REMOVE
  | KDiff => mbyte MARKER_DIFF
  | KNote => mbyte MARKER_NOTE
  | KGitAnc => mbyte MARKER_GIT_ANCESTOR
  | KGitSep => mbyte MARKER_GIT_SEPARATOR
  end.
Definition all_kinds : list mkind :=
  [KStart; KEnd; KAdd; KRemove; KDiff; KNote; KGitAnc; KGitSep].
Definition parse_byte (b : N) : option mkind :=
  find (fun k => kind_byte k =? b) all_kinds.

(** [u8::is_ascii_whitespace]: space, tab, LF, form feed, CR. *)
Definition is_ws (b : N) : bool :=
  (b =? 32) || (b =? 9) || (b =? 10) || (b =? 12) || (b =? 13).

Fixpoint run_len (c : N) (l : bytes) : nat :=
  match l with
  | b :: t => if b =? c then S (run_len c t) else O
  | [] => O
  end.
Fixpoint after_run (c : N) (l : bytes) : bytes :=
  match l with
  | b :: t => if b =? c then after_run c t else l
  | [] => []
  end.

(** [parse_conflict_marker_any_len] (conflicts.rs:394-407). *)
Definition marker_any_len (line : bytes) : option (mkind * nat) :=
  match line with
  | [] => None
  | c :: _ =>
      match parse_byte c with
      | None => None
      | Some k =>
          match after_run c line with
          | [] => Some (k, run_len c line)
          | nb :: _ => if is_ws nb then Some (k, run_len c line) else None
          end
      end
  end.

(** [parse_conflict_marker] (conflicts.rs:411-415). *)
Definition parse_marker (line : bytes) (expected_len : nat) : option mkind :=
  match marker_any_len line with
  | Some (k, n) => if Nat.leb expected_len n then Some k else None
  | None => None
  end.

(** [write_conflict_marker] (conflicts.rs:377-390). *)
Definition write_marker (k : mkind) (len : nat) (suffix : bytes) : bytes :=
  repeat (kind_byte k) len ++ match suffix with [] => [] | _ => SP :: suffix end.

(** [choose_materialized_conflict_marker_len] (conflicts.rs:419-431). *)
Definition max_marker_len (files : list bytes) : nat :=
  fold_left Nat.max
    (flat_map (fun f => flat_map (fun l => match marker_any_len l with
                                            | Some (_, n) => [n] | None => [] end)
                                 (lines f)) files) O.
Definition choose_marker_len (files : list bytes) : nat :=
  Nat.max (max_marker_len files + N.to_nat CONFLICT_MARKER_LEN_INCREMENT)
          (N.to_nat MIN_CONFLICT_MARKER_LEN).

(** [detect_eol] (conflicts.rs:433-448): CRLF iff at least one term contains a LF and the
    first LF of every such term is preceded by CR. *)
Fixpoint first_eol_crlf (prev : N) (l : bytes) : option bool :=
  match l with
  | [] => None
  | b :: t => if b =? LF then Some (prev =? CR) else first_eol_crlf b t
  end.
Definition detect_eol (files : list bytes) : bytes :=
  let flags := flat_map (fun f => match first_eol_crlf 0 f with
                                   | Some x => [x] | None => [] end) files in
  match flags with
  | [] => [LF]
  | _ => if forallb (fun x => x) flags then [CR; LF] else [LF]
  end.

(* ------------------------------------------------------------------ materialize *)

Inductive style := StDiff | StDiffExp | StSnapshot | StGit.
Definition allows_diff (s : style) : bool :=
  match s with StDiff | StDiffExp => true | _ => false end.

(** A line diff hunk of two inputs: [DiffHunk] with [Matching]/[Different] kind. *)
Record dhunk := mk_dhunk { d_matching : bool; d_left : bytes; d_right : bytes }.

(** [write_diff_hunks] (conflicts.rs:71-94). *)
Definition prefix_lines (p : N) (c : bytes) : bytes :=
  concat (map (fun l => p :: l) (lines c)).
Fixpoint write_diff_hunks (ds : list dhunk) : bytes :=
  match ds with
  | [] => []
  | d :: t =>
      (if d_matching d then prefix_lines SP (d_left d)
       else prefix_lines 45 (d_left d) ++ prefix_lines 43 (d_right d))
      ++ write_diff_hunks t
  end.

(** [diff_size] (conflicts.rs:780-788). *)
Fixpoint diff_size (ds : list dhunk) : nat :=
  match ds with
  | [] => O
  | d :: t => ((if d_matching d then O else length (d_left d) + length (d_right d))
               + diff_size t)%nat
  end.

(** [HunkTerm]: contents and label. *)

(** [ConflictLabels::get_add(i)] = term [2i], [get_remove(i)] = term [2i+1] of the label
    merge, filtered to non-empty (conflict_labels.rs:90-103). The alternating position is
    used directly. *)
Definition get_label (labels : list bytes) (pos : nat) : option bytes :=
  match nth_error labels pos with
  | Some [] => None
  | Some l => Some l
  | None => None
  end.

(** [build_hunk_sides] (conflicts.rs:576-610). *)
Fixpoint build_sides_from (labels : list bytes) (num_bases : nat) (pos : nat) (h : hunk)
  : list term :=
  match h with
  | [] => []
  | c :: t =>
      let idx := Nat.div2 pos in
      let lab :=
        match get_label labels pos with
        | Some l => l
        | None =>
            if Nat.even pos then LABEL_SIDE_N ++ dec (S idx)
            else if Nat.eqb num_bases 1 then LABEL_BASE
                 else LABEL_BASE_N ++ dec (S idx)
        end in
      let lab' := if ends_ok c then lab else lab ++ [SP] ++ NO_ENDING_EOL_COMMENT in
      (c, lab') :: build_sides_from labels num_bases (S pos) t
  end.
Definition build_sides (h : hunk) (labels : list bytes) : list term :=
  build_sides_from labels (Nat.div2 (length h)) O h.

(** [materialize_git_style_conflict] (conflicts.rs:612-659). *)
Definition git_conflict (eol : bytes) (len : nat) (tl_ tb_ tr_ : term) : bytes :=
  write_marker KStart len (snd tl_) ++ eol ++ fst tl_
  ++ write_marker KGitAnc len (snd tb_) ++ eol ++ fst tb_
  ++ write_marker KGitSep len [] ++ eol
  ++ fst tr_
  ++ write_marker KEnd len (snd tr_).

Section Materialize.
  (** The line diff of two byte strings ([ContentDiff::by_line([l, r]).hunks()]) is code of
      another module; here it is an oracle. For running, the harness records its answers. *)
  Variable D : bytes -> bytes -> list dhunk.
  Variable eol : bytes.
  Variable len : nat.

  Definition write_side (t : term) : bytes := write_marker KAdd len (snd t) ++ eol ++ fst t.
  Definition write_base (t : term) : bytes :=
    write_marker KRemove len (snd t) ++ eol ++ fst t.
  Definition write_diff (base add : term) (diff : list dhunk) : bytes :=
    write_marker KDiff len (LABEL_DIFF_FROM ++ snd base) ++ eol
    ++ write_marker KNote len (LABEL_DIFF_TO ++ snd add) ++ eol
    ++ write_diff_hunks diff.

  Definition dterm : term := ([], []).

  (** The [for (base_index, left) in hunk.removes().enumerate()] loop of
      [materialize_jj_style_conflict] (conflicts.rs:726-765): output and final value of
      [snapshot_written]. *)
  Fixpoint jj_loop (st : style) (adds removes : list term) (base_index : nat)
           (snapshot_written : bool) : bytes * bool :=
    match removes with
    | [] => ([], snapshot_written)
    | lft :: rs =>
        let add_index := if snapshot_written then S base_index else base_index in
        let right1 := nth add_index adds dterm in
        if negb (allows_diff st) then
          let '(out, sw) := jj_loop st adds rs (S base_index) snapshot_written in
          (write_base lft ++ write_side right1 ++ out, sw)
        else
          let diff1 := D (fst lft) (fst right1) in
          let right2 := nth (S add_index) adds dterm in
          let diff2 := D (fst lft) (fst right2) in
          if negb snapshot_written && Nat.ltb (diff_size diff2) (diff_size diff1) then
            let '(out, sw) := jj_loop st adds rs (S base_index) true in
            (write_side right1 ++ write_diff lft right2 diff2 ++ out, sw)
          else
            let '(out, sw) := jj_loop st adds rs (S base_index) snapshot_written in
            (write_diff lft right1 diff1 ++ out, sw)
    end.

  Fixpoint t_evens (l : list term) : list term :=
    match l with [] => [] | x :: t => x :: t_odds t end
  with t_odds (l : list term) : list term :=
    match l with [] => [] | _ :: t => t_evens t end.

  (** [materialize_jj_style_conflict] (conflicts.rs:661-778). *)
  Definition jj_conflict (st : style) (info : bytes) (sides : list term) : bytes :=
    let adds := t_evens sides in
    let removes := t_odds sides in
    let first_snapshot :=
      match st with StDiff => false | _ => true end in
    let '(body, sw) := jj_loop st adds removes O first_snapshot in
    write_marker KStart len info ++ eol
    ++ (if first_snapshot then write_side (nth O adds dterm) else [])
    ++ body
    ++ (if sw then [] else write_side (nth (length adds - 1) adds dterm))
    ++ write_marker KEnd len (info ++ LABEL_CONFLICT_ENDS).

  (** [materialize_conflict_hunks] (conflicts.rs:502-568). *)
  Fixpoint mat_hunks (st : style) (labels : list bytes) (num_conflicts : nat)
           (conflict_index : nat) (hunks : list hunk) : bytes :=
    match hunks with
    | [] => []
    | [c] :: t => c ++ mat_hunks st labels num_conflicts conflict_index t
    | h :: t =>
        let idx := S conflict_index in
        let info := LABEL_CONFLICT_PREFIX ++ dec idx ++ LABEL_CONFLICT_OF ++ dec num_conflicts in
        let all_eol := forallb ends_ok h in
        let sides0 := build_sides h labels in
        let sides := if all_eol then sides0
                     else map (fun t => (fst t ++ eol, snd t)) sides0 in
        (match st, sides with
         | StGit, [tl_; tb_; tr_] => git_conflict eol len tl_ tb_ tr_
         | _, _ => jj_conflict st info sides
         end)
        ++ (if all_eol then eol else [])
        ++ mat_hunks st labels num_conflicts idx t
    end.

  Definition is_resolved (h : hunk) : bool :=
    match h with [_] => true | _ => false end.

  Definition materialize_conflict_hunks (hunks : list hunk) (st : style)
             (labels : list bytes) : bytes :=
    mat_hunks st labels (length (filter (fun h => negb (is_resolved h)) hunks)) O hunks.
End Materialize.

(* ------------------------------------------------------------------ parse *)

Fixpoint app_last (l : list bytes) (x : bytes) : list bytes :=
  match l with
  | [] => []
  | [y] => [y ++ x]
  | h :: t => h :: app_last t x
  end.

(** [Merge::from_removes_adds] for [length adds = S (length removes)]. *)
Fixpoint interleave (adds removes : list bytes) : hunk :=
  match adds with
  | [] => []
  | a :: at_ =>
      match removes with
      | [] => [a]
      | r :: rt => a :: r :: interleave at_ rt
      end
  end.

Definition invalid_hunk : hunk := [[]].

Inductive jstate := JDiff | JRemove | JAdd | JUnknown.

(** One iteration of the line loop of [parse_jj_style_conflict_hunk] (conflicts.rs:941-995);
    [None] = the early [return Merge::resolved("")]. *)
Definition jj_step (L : nat) (st : option (jstate * list bytes * list bytes)) (line : bytes)
  : option (jstate * list bytes * list bytes) :=
  match st with
  | None => None
  | Some (s, rs, as_) =>
      match parse_marker line L with
      | Some KDiff => Some (JDiff, rs ++ [[]], as_ ++ [[]])
      | Some KRemove => Some (JRemove, rs ++ [[]], as_)
      | Some KAdd => Some (JAdd, rs, as_ ++ [[]])
      | Some KNote => Some (s, rs, as_)
      | _ =>
          match s with
          | JDiff =>
              match line with
              | 45 :: rest => Some (s, app_last rs rest, as_)
              | 43 :: rest => Some (s, rs, app_last as_ rest)
              | 32 :: rest => Some (s, app_last rs rest, app_last as_ rest)
              | _ =>
                  if bytes_eqb line [LF] || bytes_eqb line [CR; LF]
                  then Some (s, app_last rs line, app_last as_ line)
                  else None
              end
          | JRemove => Some (s, app_last rs line, as_)
          | JAdd => Some (s, rs, app_last as_ line)
          | JUnknown => None
          end
      end
  end.

Definition jj_init : option (jstate * list bytes * list bytes) :=
  Some (JUnknown, @nil bytes, @nil bytes).

Definition parse_jj_hunk (input : bytes) (L : nat) : hunk :=
  match fold_left (jj_step L) (lines input) jj_init with
  | Some (_, rs, as_) =>
      if Nat.eqb (length as_) (S (length rs)) then interleave as_ rs else invalid_hunk
  | None => invalid_hunk
  end.

Inductive gstate := GLeft | GBase | GRight.

(** One iteration of [parse_git_style_conflict_hunk] (conflicts.rs:1016-1043). *)
Definition git_step (L : nat) (st : option (gstate * bytes * bytes * bytes)) (line : bytes)
  : option (gstate * bytes * bytes * bytes) :=
  match st with
  | None => None
  | Some (s, l, b, r) =>
      match parse_marker line L, s with
      | Some KGitAnc, GLeft => Some (GBase, l, b, r)
      | Some KGitAnc, _ => None
      | Some KGitSep, GBase => Some (GRight, l, b, r)
      | Some KGitSep, _ => None
      | _, GLeft => Some (s, l ++ line, b, r)
      | _, GBase => Some (s, l, b ++ line, r)
      | _, GRight => Some (s, l, b, r ++ line)
      end
  end.

Definition git_init : option (gstate * bytes * bytes * bytes) :=
  Some (GLeft, @nil N, @nil N, @nil N).

Definition parse_git_hunk (input : bytes) (L : nat) : hunk :=
  match fold_left (git_step L) (lines input) git_init with
  | Some (GRight, l, b, r) => [l; b; r]
  | _ => invalid_hunk
  end.

(** [parse_conflict_hunk] (conflicts.rs:907-929). *)
Definition parse_conflict_hunk (input : bytes) (L : nat) : hunk :=
  let initial := match lines input with
                 | [] => None
                 | l :: _ => parse_marker l L
                 end in
  match initial with
  | Some KDiff | Some KRemove | Some KAdd => parse_jj_hunk input L
  | None | Some KGitAnc => parse_git_hunk input L
  | Some _ => invalid_hunk
  end.

Definition slice (input : bytes) (a b : nat) : bytes := firstn (b - a) (skipn a input).
Definition num_sides (h : hunk) : nat := Nat.div2 (S (length h)).

Record pstate := mk_pstate {
  p_pos : nat;
  p_resolved_start : nat;
  p_conflict_start : option nat;
  p_conflict_start_len : nat;
  p_crlf : bool;
  p_hunks : list hunk;
}.

Definition pop_term (crlf : bool) (t : bytes) : bytes :=
  let '(t1, popped) := pop_if LF t in
  if popped && crlf then fst (pop_if CR t1) else t1.

(** One iteration of the line loop of [parse_conflict] (conflicts.rs:852-890). *)
Definition pc_step (input : bytes) (nsides L : nat) (st : pstate) (line : bytes) : pstate :=
  let pos := p_pos st in
  let next := (pos + length line)%nat in
  match parse_marker line L with
  | Some KStart =>
      mk_pstate next (p_resolved_start st) (Some pos) (length line)
                (ends_with line [CR; LF]) (p_hunks st)
  | Some KEnd =>
      match p_conflict_start st with
      | Some csi =>
          let body := slice input (csi + p_conflict_start_len st) pos in
          let h := parse_conflict_hunk body L in
          if Nat.eqb (num_sides h) nsides then
            let resolved_slice := slice input (p_resolved_start st) csi in
            let h' := if ends_with line [LF] then h else map (pop_term (p_crlf st)) h in
            mk_pstate next next None (p_conflict_start_len st) (p_crlf st)
                      (p_hunks st
                       ++ (match resolved_slice with [] => [] | _ => [[resolved_slice]] end)
                       ++ [h'])
          else
            mk_pstate next (p_resolved_start st) None (p_conflict_start_len st)
                      (p_crlf st) (p_hunks st)
      | None =>
          mk_pstate next (p_resolved_start st) None (p_conflict_start_len st)
                    (p_crlf st) (p_hunks st)
      end
  | _ =>
      mk_pstate next (p_resolved_start st) (p_conflict_start st)
                (p_conflict_start_len st) (p_crlf st) (p_hunks st)
  end.

(** [parse_conflict] (conflicts.rs:838-900). *)
Definition parse_conflict (input : bytes) (nsides L : nat) : option (list hunk) :=
  match input with
  | [] => None
  | _ =>
      let st := fold_left (pc_step input nsides L) (lines input)
                          (mk_pstate O O None O false []) in
      match p_hunks st with
      | [] => None
      | hs =>
          if Nat.ltb (p_resolved_start st) (length input)
          then Some (hs ++ [[skipn (p_resolved_start st) input]])
          else Some hs
      end
  end.
