(** C01 — Conflict simplification and flattening preserve meaning.
    Property theorems only; proofs live in Proofs/C01.v. The model ([Model/Merge.v]) is the
    alternating term vector of lib/src/merge.rs with [get_simplified_mapping] transcribed
    literally; [den m v] = (#occurrences of v as an add) - (#occurrences as a remove). *)
From Verif Require Import Base.Prelude Model.Merge Proofs.C01.
Local Open Scope Z_scope.

Section Statements.
  Context {T : Type} (eqb : T -> T -> bool).
  Hypothesis eqb_spec : forall x y, eqb x y = true <-> x = y.

  (** Simplifying a conflict of any arity leaves every value's net count unchanged. *)
  Theorem C01_simplify_den : forall (m : list T) (v : T),
    den eqb (simplify eqb m) v = den eqb m v.
  Proof. exact (simplify_den eqb eqb_spec). Qed.

  (** ... and keeps it a conflict (odd number of terms), never longer than the input. *)
  Theorem C01_simplify_arity : forall (m : list T),
    Nat.even (length (simplify eqb m)) = Nat.even (length m)
    /\ (length (simplify eqb m) <= length m)%nat.
  Proof. exact (simplify_arity eqb eqb_spec). Qed.

  (** Flattening a conflict of conflicts (any outer and inner arities) yields the signed sum
      of the inner denotations: outer adds count positively, outer removes negatively. *)
  Theorem C01_flatten_den : forall (mm : list (list T)) (v : T),
    Nat.odd (length mm) = true -> Forall (fun m => Nat.odd (length m) = true) mm ->
    den eqb (flatten mm) v = den_nested eqb mm v.
  Proof. exact (flatten_den eqb). Qed.

  (** Meaning of the boolean checker that the harness applies to the implementation's outputs. *)
  Theorem C01_den_eqb_spec : forall l1 l2 : list T,
    den_eqb eqb l1 l2 = true <-> forall v, den eqb l1 v = den eqb l2 v.
  Proof. exact (den_eqb_spec eqb eqb_spec). Qed.
End Statements.

Check @C01_simplify_den : forall T (eqb : T -> T -> bool), (forall x y, eqb x y = true <-> x = y) ->
  forall m v, den eqb (simplify eqb m) v = den eqb m v.
Check @C01_flatten_den : forall T (eqb : T -> T -> bool) mm v, Nat.odd (length mm) = true -> Forall (fun m => Nat.odd (length m) = true) mm ->
  den eqb (flatten mm) v = den_nested eqb mm v.

(** Non-vacuity: a 7-term conflict that really simplifies, and a nested one. *)
Example C01_nonvacuous :
  simplify N.eqb [1; 2; 3; 1; 2; 3; 4]%N = [4]%N
  /\ flatten [[1; 2; 3]; [4; 5; 6]; [7]]%N = [1; 2; 3; 6; 5; 4; 7]%N
  /\ Forall (fun m => Nat.odd (length m) = true) [[1; 2; 3]; [4; 5; 6]; [7]]%N.
Proof. repeat split; repeat constructor. Qed.

Print Assumptions C01_simplify_den.
Print Assumptions C01_flatten_den.
