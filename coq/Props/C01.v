(** C01 — Conflict simplification and flattening preserve meaning.
    Property theorems only; proofs live in Proofs/C01*.v. The model ([Model/Merge.v]) is the
    alternating term vector of lib/src/merge.rs ([values[0]] an add, [values[1]] a remove, ...)
    with [get_simplified_mapping] transcribed literally as a loop over an index vector;
    [den m v] = (#occurrences of v as an add) - (#occurrences as a remove). A [Merge] always
    has an odd number of terms ([Merge::from_vec] asserts it); theorems about the loop carry
    that guard. *)
From Verif Require Import Base.Prelude Model.Merge Model.C01 Proofs.C01 Proofs.C01Simp
  Proofs.C01Update Proofs.C01Checker Proofs.C01Deep Proofs.C01Resolved Proofs.C01Changes.
Local Open Scope Z_scope.

Section Statements.
  Context {T : Type} (eqb : T -> T -> bool).
  Hypothesis eqb_spec : forall x y, eqb x y = true <-> x = y.

  (** Simplifying a conflict of any arity leaves every value's net count unchanged. *)
  Theorem C01_simplify_den : forall (m : list T) (v : T),
    den eqb (simplify eqb m) v = den eqb m v.
  Proof. exact (simplify_den eqb eqb_spec). Qed.

  (** ... and keeps it a conflict (odd number of terms), never longer than the input. *)
  Theorem C01_simplify_arity : forall (m : list T),
    Nat.even (length (simplify eqb m)) = Nat.even (length m)
    /\ (length (simplify eqb m) <= length m)%nat.
  Proof. exact (simplify_arity eqb eqb_spec). Qed.

  (** Flattening a conflict of conflicts (any outer and inner arities) yields the signed sum
      of the inner denotations: outer adds count positively, outer removes negatively. *)
  Theorem C01_flatten_den : forall (mm : list (list T)) (v : T),
    Nat.odd (length mm) = true -> Forall (fun m => Nat.odd (length m) = true) mm ->
    den eqb (flatten mm) v = den_nested eqb mm v.
  Proof. exact (flatten_den eqb). Qed.

  (** Conflicts whose terms are themselves conflicts, nested to any depth: flattening
      [n] times a conflict nested [n + 1] levels deep (odd arity at every level) gives a flat
      conflict in which every value's net count is its signed count through all levels
      ([wdeep]: adds count positively, removes negatively, at each level). *)
  Theorem C01_flatten_deep_den : forall (n : nat) (x : nested (S n) T) (v : T),
    wf_deep (S n) x -> den eqb (flat_deep n x) v = wdeep eqb (S n) v x.
  Proof. exact (flat_deep_den eqb). Qed.

  (** A simplified conflict has no value that is both a side (add) and a base (remove). *)
  Theorem C01_simplified_disjoint : forall (m : list T) (v : T),
    Nat.odd (length m) = true ->
    In v (adds (simplify eqb m)) -> ~ In v (removes (simplify eqb m)).
  Proof. exact (simplified_disjoint eqb eqb_spec). Qed.

  (** Simplifying again is a no-op. *)
  Theorem C01_simplify_idem : forall (m : list T),
    Nat.odd (length m) = true -> simplify eqb (simplify eqb m) = simplify eqb m.
  Proof. exact (simplify_idem eqb eqb_spec). Qed.

  (** A conflict with no value on both sides whose net counts are those of one value [v] is
      the resolved conflict [v]; so [simplify] resolves every conflict that denotes a single
      value (the form in which C07/C08 use C01). *)
  Theorem C01_simplified_single : forall (m : list T) (v : T),
    Nat.odd (length m) = true ->
    (forall a, In a (adds m) -> ~ In a (removes m)) ->
    (forall w, den eqb m w = if eqb v w then 1 else 0) ->
    m = [v].
  Proof. exact (simplified_single eqb eqb_spec). Qed.

  Theorem C01_simplify_resolves : forall (m : list T) (v : T),
    Nat.odd (length m) = true ->
    (forall w, den eqb m w = if eqb v w then 1 else 0) ->
    simplify eqb m = [v].
  Proof. exact (simplify_resolves eqb eqb_spec). Qed.

  (** The loop of [get_simplified_mapping] ends because the cursor leaves the vector, not
      because the model's fuel [S (length m)] runs out: any larger fuel gives the same result. *)
  Theorem C01_simplify_terminates : forall (m : list T) (extra : nat),
    simp_loop eqb (S (length m) + extra) (enumerate_from 0 m) 0 = simplified_pairs eqb m.
  Proof. exact (simplify_fuel_enough eqb eqb_spec). Qed.

  (** The index mapping is duplicate-free, in range, parity preserving (adds come from adds,
      removes from removes), and position [j] of the simplified conflict holds the original
      term at index [mapping j]. *)
  Theorem C01_mapping_sound : forall (m : list T),
    Nat.odd (length m) = true ->
    NoDup (simplified_mapping eqb m)
    /\ length (simplified_mapping eqb m) = length (simplify eqb m)
    /\ forall j i, nth_error (simplified_mapping eqb m) j = Some i ->
         (i < length m)%nat /\ Nat.even i = Nat.even j
         /\ nth_error (simplify eqb m) j = nth_error m i.
  Proof. exact (simplified_mapping_sound eqb eqb_spec). Qed.

  (** [simplify] = [apply_simplified_mapping (get_simplified_mapping ())]. *)
  Theorem C01_simplify_apply_mapping : forall (m : list T) (d : T),
    Nat.odd (length m) = true ->
    simplify eqb m = map (fun i => nth i m d) (simplified_mapping eqb m).
  Proof. exact (simplify_apply_mapping eqb eqb_spec). Qed.

  (** Writing an edited simplified conflict [s] back: the result has the original arity,
      equals the original at every index outside the mapping, and holds [s]'s term [j] at
      index [mapping j] (so an edit lands only on surviving positions). The implementation
      asserts [length s = length (simplify m)]. Writing the unedited simplified form back
      gives the original conflict, which therefore simplifies to the same thing. *)
  Theorem C01_update_lands : forall (m s : list T),
    Nat.odd (length m) = true -> length s = length (simplify eqb m) ->
    length (update_from_simplified eqb m s) = length m
    /\ (forall i, ~ In i (simplified_mapping eqb m) ->
          nth_error (update_from_simplified eqb m s) i = nth_error m i)
    /\ (forall j i, nth_error (simplified_mapping eqb m) j = Some i ->
          nth_error (update_from_simplified eqb m s) i = nth_error s j).
  Proof. exact (update_lands_guarded eqb eqb_spec). Qed.

  Theorem C01_update_same : forall (m : list T),
    Nat.odd (length m) = true ->
    update_from_simplified eqb m (simplify eqb m) = m
    /\ simplify eqb (update_from_simplified eqb m (simplify eqb m)) = simplify eqb m.
  Proof. exact (update_same_both eqb eqb_spec). Qed.

  (** Meaning of the generic boolean checkers. *)
  Theorem C01_den_eqb_spec : forall l1 l2 : list T,
    den_eqb eqb l1 l2 = true <-> forall v, den eqb l1 v = den eqb l2 v.
  Proof. exact (den_eqb_spec eqb eqb_spec). Qed.

  Theorem C01_disjointb_spec : forall l : list T,
    disjointb eqb l = true <-> forall v, In v (adds l) -> ~ In v (removes l).
  Proof. exact (disjointb_spec eqb eqb_spec). Qed.
End Statements.

(** Meaning of the whole checker [C01.okb] that every run applies to the implementation's
    outputs (each field of [C01_ok] is one conjunct; see Proofs/C01Checker.v):
    den-equality of [simplify], odd arity, disjointness, idempotence, soundness of the
    observed mapping, den-equality of [flatten] (one level, and two levels through
    [flatten().flatten()]), the write-back landing exactly on the mapped
    positions, and the equivalent multiset-of-changes law. *)
Theorem C01_okb_spec : forall c : C01.case, C01.okb c = true <-> C01_ok c.
Proof. exact okb_spec. Qed.

(** The last conjunct (multiset of changes) is implied by the mapping and write-back
    conjuncts: it is a redundant cross-check computed without the mapping. *)
Theorem C01_changes_law : forall (m s : list N) (mp : list nat) (e u : list N),
  mapping_ok m s mp -> lands m mp e u ->
  forall x, count N.eqb x (changes m u) = count N.eqb x (changes s e).
Proof. exact changes_law. Qed.

(** The model's own outputs pass the whole checker, for every input in the domain of the
    Rust functions (odd arities at every level, edited form of the simplified arity). *)
Theorem C01_model_ok : forall m nested n3 e,
  Nat.odd (length m) = true ->
  Nat.odd (length nested) = true -> Forall (fun x => Nat.odd (length x) = true) nested ->
  wf_deep 3 n3 ->
  length e = length (simplify N.eqb m) ->
  C01_ok (model_case m nested n3 e).
Proof. exact model_case_ok. Qed.

Check @C01_simplify_den : forall T (eqb : T -> T -> bool), (forall x y, eqb x y = true <-> x = y) ->
  forall m v, den eqb (simplify eqb m) v = den eqb m v.
Check @C01_flatten_den : forall T (eqb : T -> T -> bool) mm v, Nat.odd (length mm) = true -> Forall (fun m => Nat.odd (length m) = true) mm ->
  den eqb (flatten mm) v = den_nested eqb mm v.
Check @C01_simplified_disjoint : forall T (eqb : T -> T -> bool), (forall x y, eqb x y = true <-> x = y) ->
  forall m v, Nat.odd (length m) = true -> In v (adds (simplify eqb m)) -> ~ In v (removes (simplify eqb m)).
Check @C01_simplify_idem : forall T (eqb : T -> T -> bool), (forall x y, eqb x y = true <-> x = y) ->
  forall m, Nat.odd (length m) = true -> simplify eqb (simplify eqb m) = simplify eqb m.

(** Non-vacuity: a 7-term conflict that really simplifies, a pair that cancels only after
    an earlier cancellation, a nested conflict, a mapping that is not monotone, and an edit
    that lands on the surviving positions. *)
Example C01_nonvacuous :
  simplify N.eqb [1; 2; 3; 1; 2; 3; 4]%N = [4]%N
  /\ simplify N.eqb [1; 2; 3; 1; 2]%N = [3]%N
  /\ simplified_mapping N.eqb [0; 1; 2; 0; 1]%N = [2]%nat
  /\ simplified_mapping N.eqb [5; 6; 7; 5; 8]%N = [4; 1; 2]%nat
  /\ update_from_simplified N.eqb [5; 6; 7; 5; 8]%N [100; 101; 102]%N = [5; 101; 102; 5; 100]%N
  /\ flatten [[1; 2; 3]; [4; 5; 6]; [7]]%N = [1; 2; 3; 6; 5; 4; 7]%N
  /\ flat_deep 2 [[[1; 2; 3]]; [[4]; [5; 6; 7]; [8]]; [[9]]]%N = [1; 2; 3; 8; 5; 6; 7; 4; 9]%N
  /\ Forall (fun m => Nat.odd (length m) = true) [[1; 2; 3]; [4; 5; 6]; [7]]%N.
Proof. repeat split; repeat constructor. Qed.

Print Assumptions C01_simplify_den.
Print Assumptions C01_flatten_den.
Print Assumptions C01_flatten_deep_den.
Print Assumptions C01_simplified_disjoint.
Print Assumptions C01_simplify_idem.
Print Assumptions C01_simplify_resolves.
Print Assumptions C01_mapping_sound.
Print Assumptions C01_update_lands.
Print Assumptions C01_okb_spec.
Print Assumptions C01_model_ok.
