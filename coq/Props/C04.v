(** C04 — File content merge obeys the merge identity laws.
    Model/Files.v transcribes lib/src/files.rs ([merge_inner], [resolve_diff_hunks],
    [merge_hunk_by_word], [collect_hunks] / [collect_merged] / [collect_resolved]) on top of
    the diff model (Model/Diff.v) and [trivial_merge] (Model/Merge.v). *)
From Coq Require Import Lia Arith ZArith Sorted.
From Verif Require Import Base.Prelude Model.Merge Model.Diff Model.Files Model.C04
     Proofs.C02 Proofs.FilesDen Proofs.DiffA2 Proofs.DiffA4 Proofs.DiffEq Proofs.DiffThm Proofs.C04 Proofs.DiffB4.

(** The laws are proved relative to the following hypotheses on the matching function of the
    diff (Layer B of the diff model): its results are in range and strictly increasing in
    both coordinates, matched tokens are equal, and a token list is matched with itself by
    the identity. *)
Section Laws.
  Variable M : list bytes -> list bytes -> list (nat * nat).
  Hypothesis M_valid : forall a b,
    Forall (fun p => fst p < length a /\ snd p < length b) (M a b)
    /\ StronglySorted (fun p q => fst p < fst q /\ snd p < snd q) (M a b).
  Hypothesis M_eq : forall a b, Forall (fun p => nth (fst p) a [] = nth (snd p) b []) (M a b).
  Hypothesis M_self : forall a, M a a = map (fun i => (i, i)) (seq 0 (length a)).

  (** If the terms cancel pairwise except for one occurrence of [X] (net count 1 for [X],
      0 for everything else), the merge is [X] exactly: for every odd arity, both same-change
      settings and both hunk levels, and in all three result forms. *)
  Theorem C04_cancel_law : forall (accept word : bool) (terms : list bytes) (X : bytes),
    Nat.odd (length terms) = true ->
    (forall v, den bytes_eqb terms v = if bytes_eqb X v then 1%Z else 0%Z) ->
    merge M accept word terms = [X]
    /\ merge_hunks M accept word terms = Resolved X
    /\ try_merge M accept word terms = Some X.
  Proof. exact (cancel_law M M_valid M_eq M_self). Qed.

  (** With same-change conflicts accepted: if all adds are [S] and all removes are [B], the
      merge is [S]. (With any setting, if all terms are equal it is that term: a special case
      of [C04_cancel_law].) *)
  Theorem C04_same_sides : forall (word : bool) (terms : list bytes) (S B : bytes),
    Nat.odd (length terms) = true ->
    Forall (fun a => a = S) (evens terms) -> Forall (fun r => r = B) (odds terms) ->
    merge M true word terms = [S]
    /\ merge_hunks M true word terms = Resolved S
    /\ try_merge M true word terms = Some S.
  Proof. exact (same_sides_law M M_valid M_eq M_self). Qed.

  (** Key lemma: equal inputs receive equal slices in every hunk of the diff. *)
  Theorem C04_equal_inputs_equal_slices : forall (s : steps) (ins : list bytes),
    ins <> [] ->
    forall h, In h (hunks (run_steps M s ins)) ->
    forall i j, i < length ins -> j < length ins -> nth i ins [] = nth j ins [] ->
                nth i (contents ins (snd h)) [] = nth j (contents ins (snd h)) [].
  Proof. intros s ins Hne h Hh. now apply (hunks_equal_slices M M_valid M_self s ins Hne h Hh). Qed.
End Laws.

(** Per-hunk resolution only needs the net counts: every image of a cancelling term vector
    under a function resolves to the image of the surviving side. *)
Theorem C04_resolves_under_maps : forall (accept : bool) (terms : list bytes) (X : bytes) (g : bytes -> bytes),
  Nat.odd (length terms) = true ->
  (forall v, den bytes_eqb terms v = if bytes_eqb X v then 1%Z else 0%Z) ->
  trivial_merge bytes_eqb accept (map g terms) = Some (g X).
Proof. intros accept terms X g Ho Hd. now apply (rum_delta bytes_eqb bytes_eqb_spec accept terms X Ho Hd). Qed.

(** Meaning of the law part of the checker evaluated on the REAL results of files::merge. *)
Theorem C04_laws_okb_spec : forall terms accept r,
  laws_okb terms accept r = true <->
  (forall x, (forall v, den bytes_eqb terms v = if bytes_eqb x v then 1%Z else 0%Z) -> r = [x])
  /\ (accept = true ->
      forall s rest, terms = s :: rest -> Forall (fun a => a = s) (evens terms) ->
                     Forall (fun b => b = hd s rest) (odds terms) -> r = [s]).
Proof. exact laws_okb_spec. Qed.

(** The model passes it. *)
Theorem C04_model_laws_ok : forall M,
  (forall a b, valid_matching (length a) (length b) (M a b)) ->
  (forall a b, eq_matching a b (M a b)) ->
  (forall a, M a a = identity_matching (length a)) ->
  forall accept word terms, Nat.odd (length terms) = true ->
  laws_okb terms accept (merge M accept word terms) = true.
Proof. exact model_laws_ok. Qed.

(** The three hypotheses hold for the modelled histogram matching (Layer B of the diff
    model: proved in Proofs/DiffB1..B5), so the laws hold unconditionally for the model. *)
Theorem C04_layerB_hyps :
  (forall a b, valid_matching (length a) (length b) (M_hist a b))
  /\ (forall a b, eq_matching a b (M_hist a b))
  /\ (forall a, M_hist a a = identity_matching (length a)).
Proof.
  split; [intros a b; apply M_hist_valid|]. split; [intros a b; apply M_hist_valid|exact M_hist_self].
Qed.

Theorem C04_cancel_law_hist : forall (accept word : bool) (terms : list bytes) (X : bytes),
  Nat.odd (length terms) = true ->
  (forall v, den bytes_eqb terms v = if bytes_eqb X v then 1%Z else 0%Z) ->
  merge M_hist accept word terms = [X]
  /\ merge_hunks M_hist accept word terms = Resolved X
  /\ try_merge M_hist accept word terms = Some X.
Proof.
  destruct C04_layerB_hyps as (V & E & S). exact (cancel_law M_hist V E S).
Qed.

Theorem C04_same_sides_hist : forall (word : bool) (terms : list bytes) (S B : bytes),
  Nat.odd (length terms) = true ->
  Forall (fun a => a = S) (evens terms) -> Forall (fun r => r = B) (odds terms) ->
  merge M_hist true word terms = [S]
  /\ merge_hunks M_hist true word terms = Resolved S
  /\ try_merge M_hist true word terms = Some S.
Proof.
  destruct C04_layerB_hyps as (V & E & Sf). exact (same_sides_law M_hist V E Sf).
Qed.

(** Shape of the results, for every valid matching function: [merge] returns a resolved merge
    or one of the input's arity; [merge_hunks] is [Resolved c] exactly when [try_merge] is
    [Some c], and then [merge] is the resolved [c]; for more than one term, [merge] is resolved
    only then. Every hunk is either one slice of one input, chosen by [trivial_merge], or the
    full vector of that hunk's slices in term order (hunks come in input order: they are the
    images of the diff's hunks, which partition every input - C03). *)
Theorem C04_shape : forall M,
  (forall a b, valid_matching (length a) (length b) (M a b)) ->
  forall (accept word : bool) (terms : list bytes),
  Nat.odd (length terms) = true ->
  let r := merge M accept word terms in
  (length r = 1 \/ length r = length terms)
  /\ (forall c, try_merge M accept word terms = Some c <-> merge_hunks M accept word terms = Resolved c)
  /\ (forall c, try_merge M accept word terms = Some c -> r = [c])
  /\ (1 < length terms -> (length r = 1 <-> exists c, try_merge M accept word terms = Some c)).
Proof. exact shape_thm. Qed.

Theorem C04_hunk_shape : forall M,
  (forall a b, valid_matching (length a) (length b) (M a b)) ->
  forall (accept : bool) (terms : list bytes) (h : hunk),
  Nat.odd (length terms) = true ->
  In h (hunks (run_steps M line_steps (diff_inputs terms))) ->
  let ins := diff_inputs terms in
  let cs := contents ins (snd h) in
  let r := resolve_hunk accept (length (odds terms)) ins h in
  (exists c, r = [c] /\ In c cs)
  \/ (r = from_removes_adds (firstn (length (odds terms)) cs) (skipn (length (odds terms)) cs)
      /\ length r = length terms /\ 1 < length terms).
Proof. exact resolve_hunk_shape. Qed.

(** The hunks of a [MergeResult::Conflict]: resolved texts are non-empty and never adjacent
    (adjacent resolved hunks are coalesced), unresolved hunks have the input's arity, and
    term by term they concatenate to the result of [merge]. *)
Theorem C04_conflict_shape : forall M,
  (forall a b, valid_matching (length a) (length b) (M a b)) ->
  forall (accept word : bool) (terms : list bytes) (hs : list (list bytes)),
  Nat.odd (length terms) = true ->
  merge_hunks M accept word terms = Conflict hs ->
  Forall (fun h => match h with [c] => c <> [] | _ => length h = length terms /\ 1 < length terms end) hs
  /\ no_adjacent_resolved hs = true
  /\ forall t, t < length terms ->
       concat (map (hunk_term t) hs) = nth t (merge M accept word terms) [].
Proof. exact conflict_shape. Qed.

(** Under same-change = keep, identical adds resolve only if all terms are identical: with at
    least three terms, all adds equal to [S] and some remove different from [S], the merge
    stays unresolved at both hunk levels (every hunk of the line diff and of the word diffs has
    the same net-count shape; a hunk with two non-zero net counts never resolves under keep). *)
Theorem C04_keep_law : forall M,
  (forall a b, valid_matching (length a) (length b) (M a b)) ->
  (forall a b, eq_matching a b (M a b)) ->
  (forall a, M a a = identity_matching (length a)) ->
  forall (word : bool) (terms : list bytes) (S : bytes),
  Nat.odd (length terms) = true -> 3 <= length terms ->
  Forall (fun a => a = S) (evens terms) -> ~ Forall (fun r => r = S) (odds terms) ->
  try_merge M false word terms = None.
Proof. exact keep_law. Qed.

(** Meaning of the corresponding checker clause, evaluated on the REAL result of files::merge,
    and the model passes it. *)
Theorem C04_keep_okb_spec : forall terms accept r,
  keep_okb terms accept r = true <->
  (accept = false -> 3 <= length terms ->
   forall S, Forall (fun a => a = S) (evens terms) -> ~ Forall (fun b => b = S) (odds terms) ->
             length r <> 1).
Proof. exact keep_okb_spec. Qed.

Theorem C04_model_keep_ok : forall word terms, Nat.odd (length terms) = true ->
  keep_okb terms false (merge M_hist false word terms) = true.
Proof.
  destruct C04_layerB_hyps as (V & E & S). exact (model_keep_ok M_hist V E S).
Qed.

(** Identical sides over two different bases are two different changes and stay conflicted
    (the documented meaning of "same change"): the general identical-sides law is false. *)
Theorem C04_same_sides_general_refuted :
  exists terms S, Nat.odd (length terms) = true /\ Forall (fun a => a = S) (evens terms)
                  /\ merge M_hist true false terms <> [S].
Proof.
  exists [hex "610a"; hex "620a"; hex "610a"; hex "630a"; hex "610a"], (hex "610a").
  split; [reflexivity|]. split; [repeat constructor|]. vm_compute. discriminate.
Qed.

Example C04_nonvacuous :
  (* X = "a\nx\n", pairs (B, B) with B = "a\nb\n" and (C, C) with C = "b\n", shuffled *)
  let X := hex "610a780a" in let B := hex "610a620a" in let C := hex "620a" in
  (forall v, In v [B; C; X; hex ""] ->
             den bytes_eqb [B; B; C; C; X] v = if bytes_eqb X v then 1%Z else 0%Z)
  /\ merge M_hist false true [B; B; C; C; X] = [X]
  /\ merge M_hist false false [hex "610a780a"; hex "610a620a"; hex "610a790a"]
     = [hex "610a780a"; hex "610a620a"; hex "610a790a"].
Proof. vm_compute. repeat split; intros v [<-|[<-|[<-|[<-|[]]]]]; reflexivity. Qed.

Print Assumptions C04_cancel_law.
Print Assumptions C04_same_sides.
Print Assumptions C04_laws_okb_spec.
Print Assumptions C04_cancel_law_hist.
Print Assumptions C04_shape.
Print Assumptions C04_keep_law.
