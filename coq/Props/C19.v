(** C19 — Revset evaluation matches set semantics (P-part).
    Model/C19.v: the resolved expression language of lib/src/revset.rs, its translation
    [resolve] to the backend language (resolve_visibility), the set-theoretic meaning
    [bden] of backend expressions over a commit graph, and the optimizer [optimize]
    (resolve_referenced_commits [rrc] + the ten bottom-up passes, transcribed one by one,
    u64 saturation explicit).  [den W c e] = the set an expression denotes in context [c].
    NOT modelled: the lazy index walks of revset_engine.rs / rev_walk.rs; they are tied to
    [den] by the correspondence check only (differential testing, not proof). *)
From Verif Require Import Base.Prelude Base.DagR Gen.Tables Model.C19 Proofs.C19 Proofs.C19Rrc.
From Coq Require Import Sorted.
Local Open Scope nat_scope.

(** Hypotheses on the commit graph, all decidable and checked on every correspondence case:
    parents precede children in index order ([wf_graph]), parent lists and the index fit
    32-bit positions ([pc_ok], [small]: the index's own representation), every commit but
    the root has a parent. *)
Definition graph_ok (G : graph) : Prop :=
  wf_graph G /\ pc_ok G /\ small G /\
  (forall x, x < length G -> x <> 0 -> parents G x <> []).

(** HEADLINE.  For every graph, every filter interpretation, every view (visible heads, at
    least one of them in the index) and every expression whose pre-existing scope nodes are
    well formed ([pre_ok]; trivially true for expressions without [WithinReference] /
    [WithinVisibility] nodes, see [C19_optimize_sound_plain]): the optimized expression
    denotes the same set of commits as the expression [evaluate_unoptimized] evaluates. *)
Theorem C19_optimize_sound : forall (W : world) (e : expr) (c0 : vctx),
  graph_ok (w_graph W) ->
  x_refs c0 = [] -> (exists v, In v (x_vis c0) /\ v < length (w_graph W)) ->
  pre_ok W e ->
  den W c0 (optimize e) = den W c0 (rrc e).
Proof.
  intros W e c0 [H1 [H2 [H3 H4]]] Hr Hv Hp. exact (optimize_sound W H1 H2 H3 H4 e c0 Hr Hv Hp).
Qed.

Theorem C19_optimize_sound_plain : forall (W : world) (e : expr) (c0 : vctx),
  graph_ok (w_graph W) ->
  x_refs c0 = [] -> (exists v, In v (x_vis c0) /\ v < length (w_graph W)) ->
  no_scope e = true ->
  den W c0 (optimize e) = den W c0 (rrc e).
Proof.
  intros W e c0 Hg Hr Hv Hn. apply C19_optimize_sound; auto. now apply no_scope_pre_ok.
Qed.

(** The same with the decidable hypotheses that [check_case] evaluates on every case. *)
Theorem C19_optimize_sound_checked : forall (W : world) (e : expr) (c0 : vctx),
  graph_ok (w_graph W) ->
  x_refs c0 = [] -> has_pos (length (w_graph W)) (x_vis c0) = true ->
  pre_okb (length (w_graph W)) e = true ->
  den W c0 (optimize e) = den W c0 (rrc e).
Proof.
  intros W e c0 Hg Hr Hv Hp. apply C19_optimize_sound; auto.
  - now apply has_pos_spec.
  - now apply pre_okb_pre_ok.
Qed.

(** Listing = what [Revset::stream] yields.  When neither evaluation raises the
    generation-bound error (see [C19_optimize_error_refuted] for why this side condition
    cannot be dropped), optimized and unoptimized evaluation list the same commits. *)
Theorem C19_eval_agree : forall (W : world) (e : expr) (c0 : vctx),
  graph_ok (w_graph W) ->
  x_refs c0 = [] -> (exists v, In v (x_vis c0) /\ v < length (w_graph W)) ->
  pre_ok W e ->
  berr W (resolve c0 (optimize e)) = false -> berr W (resolve c0 (rrc e)) = false ->
  eval W c0 (optimize e) = eval W c0 (rrc e).
Proof.
  intros W e c0 Hg Hr Hv Hp E1 E2. unfold eval. rewrite E1, E2. f_equal. f_equal.
  exact (C19_optimize_sound W e c0 Hg Hr Hv Hp).
Qed.

(** Pass by pass: each of the ten rewriting rules keeps scoping and denotation at every
    well-scoped position, in every context (then [C19_bottom_up_sound] lifts a rule to the
    bottom-up traversal). *)
Theorem C19_passes_sound : forall (W : world), graph_ok (w_graph W) ->
  Forall (sound_post W) passes.
Proof. intros W [H1 [H2 [H3 H4]]]. exact (passes_sound W H1 H2 H3 H4). Qed.

Theorem C19_bottom_up_sound : forall (W : world), graph_ok (w_graph W) ->
  forall post, sound_post W post ->
  forall e c, okctx W c -> wfs W (x_refs c) e ->
    wfs W (x_refs c) (tr post e) /\ den W c (tr post e) = den W c e.
Proof.
  intros W [H1 [H2 [H3 H4]]] post Hp e c Hc Hw. exact (tr_sound W H1 H2 H3 H4 post Hp e c Hc Hw).
Qed.

(** [resolve_referenced_commits] makes every scope list the commits mentioned inside it. *)
Theorem C19_rrc_scoped : forall (W : world) (e : expr), pre_ok W e -> top_ok W (rrc e).
Proof. exact rrc_top_ok. Qed.

(** Nested generation ranges fold exactly, with [u64::saturating_add] and the engine's
    clamp to [u32::MAX], on graphs that fit the index. *)
Theorem C19_fold_generation : forall (W : world), graph_ok (w_graph W) ->
  forall p g1 g2 S,
  anc_gen (w_graph W) p g1 (anc_gen (w_graph W) p g2 S)
  = anc_gen (w_graph W) p (add_generation g1 g2) S.
Proof. intros W [H1 [H2 [H3 H4]]]. exact (anc_gen_add W H1 H3). Qed.

(** Everything a well-scoped expression denotes lies inside [all()] — the reason
    [resolve_referenced_commits] must run before [x & all() -> x]. *)
Theorem C19_within_all : forall (W : world), graph_ok (w_graph W) ->
  forall e c, okctx W c -> wfs W (x_refs c) e ->
  forall x, bmem (den W c e) x = true -> bmem (den W c EAll) x = true.
Proof. intros W [H1 [H2 [H3 H4]]]. exact (sub_all W H1 H2 H3 H4). Qed.

(** The listing of a denotation: strictly descending index positions (newest first), hence
    duplicate-free, and exactly the members. *)
Theorem C19_order : forall (n : nat) (s : bset),
  StronglySorted gt (blist n s) /\ NoDup (blist n s) /\
  (forall x, In x (blist n s) <-> x < n /\ bmem s x = true).
Proof.
  intros n s. split; [apply blist_sorted|]. split; [apply StronglySorted_gt_NoDup, blist_sorted|].
  apply blist_In.
Qed.

(** Heads and roots of the set semantics are the declarative ones. *)
Theorem C19_heads_roots : forall (G : graph), graph_ok G -> forall S x,
  (bmem (heads G S) x = true <->
   x < length G /\ bmem S x = true /\
   ~ exists k y, 1 <= k /\ y < length G /\ bmem S y = true /\ reach (parents G) k y x) /\
  (bmem (roots G S) x = true <->
   x < length G /\ bmem S x = true /\
   ~ exists k r, 1 <= k /\ bmem S r = true /\ reach (parents G) k x r).
Proof.
  intros G [H1 [H2 [H3 H4]]] S x. split; [apply heads_spec|apply roots_spec]; assumption.
Qed.

(** What the per-case checker [okb] means on the implementation's outputs: optimized and
    unoptimized evaluation list the same commits, the listing is strictly descending and
    inside the index, and its members are exactly the denotation of the expression (after
    reference collection, which is what [evaluate_unoptimized] evaluates). *)
Theorem C19_checker_spec : forall (c : case) (l1 l2 : list N),
  c_res_opt c = Some l1 -> c_res_unopt c = Some l2 -> okb c = true ->
  P l1 = P l2 /\
  P l2 = blist (length (w_graph (case_world c)))
               (den (case_world c) (case_ctx c) (rrc (c_expr c))) /\
  StronglySorted gt (P l2).
Proof.
  intros c l1 l2 H1 H2. unfold okb. rewrite H1, H2. rewrite andb_true_iff, lnat_eqb_eq.
  intros [He Hs]. split; auto. split.
  - now apply set_ok_blist.
  - apply set_ok_spec in Hs. tauto.
Qed.

(** KNOWN FINDING (class [known_class], "fold-generation-lower-bound-overflow"): the
    statement "optimized and unoptimized evaluations agree" is false at the level of
    errors.  [fold_generation] adds two lower bounds; when the sum exceeds [u32::MAX] the
    engine's [to_u32_generation_range] raises an error although each part alone is fine
    (and denotes the empty set).  Witness: [parents(parents(root(), 4294967295), 1)]. *)
Definition C19_witness_world : world := mk_world [[]; [0]] [0%Z; 0%Z] [].
Definition C19_witness_expr : expr :=
  EAncestors (EAncestors ERoot (4294967295, 4294967296)%N PR_FULL) (1, 2)%N PR_FULL.
Theorem C19_optimize_error_refuted :
  eval C19_witness_world (mk_vctx [] [1] true) (rrc C19_witness_expr) = Some [] /\
  eval C19_witness_world (mk_vctx [] [1] true) (optimize C19_witness_expr) = None.
Proof. split; vm_compute; reflexivity. Qed.

(** The mirror image of the same class: [ancestors(parents(root(), 4294967296), 0)] fails
    unoptimized (the inner lower bound is out of range) but the optimizer folds the inner
    range into the empty outer one, so the optimized evaluation succeeds (empty). *)
Definition C19_witness_expr2 : expr :=
  EAncestors (EAncestors ERoot (4294967296, 4294967297)%N PR_FULL) (0, 0)%N PR_FULL.
Theorem C19_optimize_error_refuted_mirror :
  eval C19_witness_world (mk_vctx [] [1] true) (rrc C19_witness_expr2) = None /\
  eval C19_witness_world (mk_vctx [] [1] true) (optimize C19_witness_expr2) = Some [].
Proof. split; vm_compute; reflexivity. Qed.

(** The model's pass list is the pass order of [optimize] in the source. *)
Example C19_pass_order :
  REVSET_OPTIMIZE_PASSES ++ [REVSET_OPTIMIZE_LAST_PASS] =
  ["resolve_referenced_commits"; "unfold_difference"; "fold_redundant_expression";
   "fold_generation"; "flatten_intersections"; "sort_negations_and_ancestors";
   "fold_ancestors_union"; "internalize_filter"; "fold_heads_range"; "fold_difference";
   "fold_not_in_ancestors"]%string
  /\ length passes = 10.
Proof. split; reflexivity. Qed.

(** Non-vacuity: a graph with a merge and a hidden commit satisfies the hypotheses, and an
    expression exercising several passes is rewritten and keeps a non-empty denotation. *)
Definition C19_ex_world : world :=
  mk_world [[]; [0]; [0]; [1; 2]; [1]; [3]] [0%Z; 1%Z; 2%Z; 3%Z; 4%Z; 5%Z]
           [bof_list 6 [1; 3; 5]].
Definition C19_ex_expr : expr :=
  EHeads (EIntersection (ERange (ECommits [1]) (ECommits [5; 4]) GEN_FULL PR_FULL) (EFilter 0)).
Example C19_nonvacuous :
  graph_ok (w_graph C19_ex_world) /\
  pre_ok C19_ex_world C19_ex_expr /\
  optimize C19_ex_expr =
    EWithinReference (EHeadsRange (ECommits [1]) (ECommits [5; 4]) PR_FULL (EFilter 0)) [1; 5; 4] /\
  blist 6 (den C19_ex_world (mk_vctx [] [5] true) (optimize C19_ex_expr)) = [5] /\
  blist 6 (den C19_ex_world (mk_vctx [] [5] true) (rrc C19_ex_expr)) = [5].
Proof.
  split.
  { split; [apply wf_graphb_spec; reflexivity|].
    split; [apply pc_okb_spec; reflexivity|].
    split; [apply small_dec; reflexivity|].
    apply rootedb_spec. reflexivity. }
  split; [cbn; tauto|]. repeat split; vm_compute; reflexivity.
Qed.

Print Assumptions C19_optimize_sound.
Print Assumptions C19_eval_agree.
Print Assumptions C19_checker_spec.
Print Assumptions C19_optimize_error_refuted.
