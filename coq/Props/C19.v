(** C19 — Revset evaluation matches set semantics (P-part).
    Model/C19.v: the resolved expression language of lib/src/revset.rs, its translation
    [resolve] to the backend language (resolve_visibility), the set-theoretic meaning
    [bden] of backend expressions over a commit graph, and the optimizer [optimize]
    (resolve_referenced_commits + the ten bottom-up passes, transcribed one by one).
    NOT modelled: the lazy index walks of revset_engine.rs / rev_walk.rs; they are tied to
    [den] by the correspondence check only. *)
From Verif Require Import Base.Prelude Base.DagR Gen.Tables Model.C19 Proofs.C19.
From Coq Require Import Sorted.
Local Open Scope nat_scope.

(** The listing of a denotation: strictly descending index positions (newest first), hence
    duplicate-free, and exactly the members. *)
Theorem C19_order : forall (n : nat) (s : bset),
  StronglySorted gt (blist n s) /\ NoDup (blist n s) /\
  (forall x, In x (blist n s) <-> x < n /\ bmem s x = true).
Proof.
  intros n s. split; [apply blist_sorted|]. split; [apply StronglySorted_gt_NoDup, blist_sorted|].
  apply blist_In.
Qed.

(** What the per-case checker [okb] means on the implementation's outputs: optimized and
    unoptimized evaluation list the same commits, the listing is strictly descending and
    inside the index, and its members are exactly the denotation of the expression (after
    reference collection, which is what [evaluate_unoptimized] evaluates). *)
Theorem C19_checker_spec : forall (c : case) (l1 l2 : list N),
  c_res_opt c = Some l1 -> c_res_unopt c = Some l2 -> okb c = true ->
  P l1 = P l2 /\
  P l2 = blist (length (w_graph (case_world c)))
               (den (case_world c) (case_ctx c) (rrc (c_expr c))) /\
  StronglySorted gt (P l2).
Proof.
  intros c l1 l2 H1 H2. unfold okb. rewrite H1, H2. rewrite andb_true_iff, lnat_eqb_eq.
  intros [He Hs]. split; auto. split.
  - now apply set_ok_blist.
  - apply set_ok_spec in Hs. tauto.
Qed.

(** Bottom-up rewriting ([transform_expression_bottom_up]) with a rule that is sound at
    every well-scoped position preserves scoping and denotation of the whole expression,
    in every context, for every graph. *)
Theorem C19_bottom_up_sound : forall (W : world),
  wf_graph (w_graph W) -> pc_ok (w_graph W) -> small (w_graph W) ->
  (forall x, x < length (w_graph W) -> x <> 0 -> parents (w_graph W) x <> []) ->
  forall post, sound_post W post ->
  forall e c, okctx W c -> wfs W (x_refs c) e ->
    wfs W (x_refs c) (tr post e) /\ den W c (tr post e) = den W c e.
Proof. intros W H1 H2 H3 H4 post Hp e c Hc Hw. exact (tr_sound W H1 H2 H3 H4 post Hp e c Hc Hw). Qed.

(** The model's pass list is the pass order of [optimize] in the source. *)
Example C19_pass_order :
  REVSET_OPTIMIZE_PASSES ++ [REVSET_OPTIMIZE_LAST_PASS] =
  ["resolve_referenced_commits"; "unfold_difference"; "fold_redundant_expression";
   "fold_generation"; "flatten_intersections"; "sort_negations_and_ancestors";
   "fold_ancestors_union"; "internalize_filter"; "fold_heads_range"; "fold_difference";
   "fold_not_in_ancestors"]%string
  /\ length passes = 10.
Proof. split; reflexivity. Qed.

Print Assumptions C19_order.
Print Assumptions C19_checker_spec.
Print Assumptions C19_bottom_up_sound.
