(** C07 — Tree merges are the path-wise merge of their inputs.
    Model: Model/TreeMerge.v (lib/src/tree_merge.rs, MergedTree::{merge, merge_no_resolve,
    resolve, path_value}, Merge<Tree>::{value, sub_tree}). Trees are content (structural
    equality stands for tree ids). The content merge of file conflicts is an oracle
    ([content_merge], arbitrary). All statements hold for every odd number of sides, every
    nesting depth, both same-change settings. *)
From Verif Require Import Base.Prelude Model.Merge Model.TreeMerge Model.TreeCase Model.C07.
From Verif Require Import Proofs.TreeValue Proofs.TreeMerge Proofs.C07 Proofs.MergeIdentities.
From Verif Require Import Model.TreeMerger Proofs.C07Sched Proofs.ResolveLoop.
Local Open Scope Z_scope.

Section Statements.
  Context (accept : bool) (content_merge : list N -> option N).

  (** merge_trees returns a resolved merge or one with as many sides as its input. *)
  Theorem C07_arity : forall ts : list tree, Nat.odd (length ts) = true ->
    length (merge_trees accept content_merge ts) = 1%nat
    \/ length (merge_trees accept content_merge ts) = length ts.
  Proof. exact (merge_trees_length accept content_merge). Qed.

  (** The directory recursion is well founded: any fuel above the nesting depth of the
      inputs gives the same result as the fuel [merge_trees] supplies. *)
  Theorem C07_fuel : forall f (ts : list tree), Nat.odd (length ts) = true ->
    (max_tdepth ts <= f)%nat ->
    merge_dir accept content_merge (S f) ts = merge_dir_full accept content_merge ts.
  Proof. exact (merge_dir_full_fuel accept content_merge). Qed.

  (** At every path no proper prefix of which is a file/directory clash among the inputs,
      MergedTree::path_value of the merged trees is the merge of the inputs' values at that
      path on their own: trivial resolution first, then the file merge (exec bit, copy id,
      content); where all inputs are directories, the merge of those directories. *)
  Theorem C07_pathwise : forall (ts : list tree) (p : list N),
    Nat.odd (length ts) = true -> p <> [] -> clash_above accept ts p = false ->
    path_value accept (merge_trees accept content_merge ts) p
    = merge_path accept content_merge (map (value_at p) ts).
  Proof. exact (pathwise accept content_merge). Qed.

  (** At a clash itself the merged trees carry the inputs' entries unchanged (an unresolved
      conflict), and every path below it reads as absent. *)
  Theorem C07_clash : forall (ts : list tree) (q : list N),
    Nat.odd (length ts) = true -> q <> [] -> clash_above accept ts q = false ->
    clash accept (map (value_at q) ts) = true ->
    path_value accept (merge_trees accept content_merge ts) q = map (value_at q) ts
    /\ forall p, p <> [] -> path_value accept (merge_trees accept content_merge ts) (q ++ p) = [None].
  Proof. exact (clash_theorem accept content_merge). Qed.

  (** The result is conflict-free exactly when no path is conflicted. *)
  Theorem C07_conflict_free_iff : forall ts : list tree, Nat.odd (length ts) = true ->
    (is_single (merge_trees accept content_merge ts) = true <->
     forall p, p <> [] -> is_single (path_value accept (merge_trees accept content_merge ts) p) = true).
  Proof. exact (conflict_free_iff accept content_merge). Qed.

  (** A merge in which one side equals the base yields the other side's tree. *)
  Theorem C07_base_identity : forall a b : tree,
    merged_tree_merge accept content_merge [[a]; [b]; [b]] = [a]
    /\ merged_tree_merge accept content_merge [[b]; [b]; [a]] = [a].
  Proof.
    intros a b. split;
      [exact (base_identity_left accept content_merge a b)
      |exact (base_identity_right accept content_merge a b)].
  Qed.

  (** ... also when the base is itself conflicted, of any arity (Merge::simplify cancels
      everything that can be cancelled: Proofs/SimplifyDisjoint.v). *)
  Theorem C07_base_identity_general : forall (x : tree) (b : list tree),
    Nat.odd (length b) = true ->
    merged_tree_merge accept content_merge [[x]; b; b] = [x]
    /\ merged_tree_merge accept content_merge [b; b; [x]] = [x].
  Proof. exact (base_identity_general accept content_merge). Qed.

  (** The concurrent merger (Model/TreeMerger.v: the work items ReadTrees / WrittenTrees /
      MergedFiles of tree_merge.rs:196-329 complete in any order, given as the list of the
      paths of the items that complete): whenever it returns, it returns the recursive
      directory merge, whatever the schedule. *)
  Theorem C07_schedule_independent : forall (ts : list tree) (schedule : list (list N)) trees,
    Nat.odd (length ts) = true ->
    run accept content_merge ts schedule = EWritten trees ->
    trees = merge_dir_full accept content_merge ts.
  Proof. exact (schedule_independent accept content_merge). Qed.

  (** ... and no schedule can go on for ever: the completion of an item in flight strictly
      decreases the remaining work, so at most [read_work] items complete, in any order,
      before the merge of [ts] returns. *)
  Theorem C07_schedule_bounded : forall (ts : list tree) (schedule : list (list N)),
    Nat.odd (length ts) = true ->
    (completions accept content_merge (ERead ts) schedule
     <= read_work accept (max_tdepth ts) ts)%nat.
  Proof.
    intros ts schedule Hodd.
    apply (completions_bounded accept content_merge schedule (max_tdepth ts) (ERead ts)).
    split; [assumption|apply le_n].
  Qed.

  (** Progress: a merge that has not returned has an item in flight ([root_ok]: the states
      the root task goes through, preserved by every step). *)
  Theorem C07_schedule_progress : forall f e,
    root_ok f e -> (forall trees, e <> EWritten trees) ->
    exists p, in_flight e = Some p /\ valid p e = true.
  Proof. exact progress. Qed.

  (** Total correctness of the concurrent merger model: every schedule that never idles
      (each step completes an item in flight until the merge has returned) and is at least
      [read_work - 1] long returns exactly the recursive directory merge; and such schedules
      exist (completing the first item in flight each time). *)
  Theorem C07_schedule_total : forall (ts : list tree) (schedule : list (list N)),
    Nat.odd (length ts) = true -> busy accept content_merge (ERead ts) schedule ->
    (read_work accept (max_tdepth ts) ts <= S (length schedule))%nat ->
    run accept content_merge ts schedule = EWritten (merge_dir_full accept content_merge ts).
  Proof. exact (busy_schedule_total accept content_merge). Qed.
  Theorem C07_schedule_exists : forall ts : list tree, Nat.odd (length ts) = true ->
    let schedule := canonical accept content_merge (read_work accept (max_tdepth ts) ts) (ERead ts) in
    busy accept content_merge (ERead ts) schedule
    /\ run accept content_merge ts schedule = EWritten (merge_dir_full accept content_merge ts).
  Proof. exact (canonical_schedule_total accept content_merge). Qed.

  (** merge_no_resolve (flatten + simplify) keeps the net count of every tree, hence of
      every value at every path. *)
  Theorem C07_merge_no_resolve_den : forall (mm : list (list tree)) p v,
    den oval_eqb (map (value_at p) (merge_no_resolve mm)) v
    = den oval_eqb (map (value_at p) (flatten mm)) v.
  Proof. exact merge_no_resolve_den_at. Qed.

  (** The resolve loop (merge, simplify, merge again while sides get cancelled) terminates:
      each further round starts from strictly fewer sides, and [length ts] rounds of fuel
      are never exhausted (any larger fuel gives the same result). *)
  Theorem C07_resolve_terminates : forall f f' (ts : list tree), Nat.odd (length ts) = true ->
    (length ts <= f)%nat -> (length ts <= f')%nat ->
    resolve_loop accept content_merge f ts = resolve_loop accept content_merge f' ts.
  Proof. exact (resolve_loop_fuel accept content_merge). Qed.
  Theorem C07_resolve_round_decreases : forall ts : list tree, Nat.odd (length ts) = true ->
    let m := merge_trees accept content_merge ts in
    is_single m = false -> length (simplify tree_eqb m) <> length m ->
    (length (simplify tree_eqb m) < length ts)%nat.
  Proof. exact (resolve_round_decreases accept content_merge). Qed.
  (** ... and the further rounds do not disturb what the first round resolved: a path whose
      input values resolve trivially to [v], with no file/directory clash above it, reads
      [v] in the tree MergedTree::resolve finally returns. *)
  Theorem C07_resolve_keeps_resolved : forall (ts : list tree) (p : list N) (v : oval),
    Nat.odd (length ts) = true -> p <> [] -> clash_above accept ts p = false ->
    tm accept (map (value_at p) ts) = Some v ->
    path_value accept (resolve accept content_merge ts) p = [v].
  Proof.
    intros ts p v H1 H2 H3 H4. apply resolve_keeps. repeat split; assumption.
  Qed.
End Statements.

(** Meaning of the checker the harness applies to the implementation's outputs. *)
Theorem C07_okb_spec : forall c : case,
  okb c = true <->
  exists m r, c_merged c = Some m /\ c_result c = Some r /\
    let tab := c_tab c in
    let orc := oracle_of (c_oracle c) in
    values_ok_P (c_accept c) orc (map (dec tab) (c_unresolved c)) (dec_values c)
    /\ flag_ok_P (map (dec tab) m) (dec_values c)
    /\ final_ok_P (c_accept c) orc (map (dec tab) m) (map (dec tab) r)
    /\ identity_ok_P (dec_inputs c) (map (dec tab) r).
Proof. exact okb_spec. Qed.

(** The single-pass resolve that /repo had before commit 4915e33 is not idempotent: for
    these five trees its result is a three-sided conflict that merging once more resolves
    completely (the debug assertion of MergedTree::resolve failed on it). *)
Definition w_f (i : N) : value := File i false 0.
Definition w_A : tree := [(0, Tree [(0, w_f 1)]); (1, w_f 10)]%N.
Definition w_B : tree := [(0, w_f 2); (1, w_f 10)]%N.
Definition w_C : tree := [(0, w_f 2); (1, w_f 11)]%N.
Definition w_D : tree := [(1, w_f 11)]%N.
Definition w_E : tree := [(0, Tree [(1, w_f 3)]); (1, w_f 12)]%N.
Definition w_oracle (_ : list N) : option N := None.

Theorem C07_resolve_old_refuted :
  exists ts accept,
    let r := resolve_old accept w_oracle ts in
    merge_trees accept w_oracle r <> r
    /\ resolve accept w_oracle ts = merge_trees accept w_oracle r
    /\ is_single (resolve accept w_oracle ts) = true.
Proof.
  exists [w_A; w_B; w_C; w_D; w_E], false. vm_compute. repeat split; congruence.
Qed.

Check C07_pathwise : forall accept content_merge (ts : list tree) (p : list N),
  Nat.odd (length ts) = true -> p <> [] -> clash_above accept ts p = false ->
  path_value accept (merge_trees accept content_merge ts) p
  = merge_path accept content_merge (map (value_at p) ts).
Check C07_base_identity : forall accept content_merge (a b : tree),
  merged_tree_merge accept content_merge [[a]; [b]; [b]] = [a]
  /\ merged_tree_merge accept content_merge [[b]; [b]; [a]] = [a].

(** Non-vacuity: a three-way merge with a trivially resolved file, a content-merged file, a
    recursively merged directory and a file/directory clash. *)
Definition nv_base : tree :=
  [(0, w_f 1); (1, w_f 5); (2, Tree [(0, w_f 7)]); (3, w_f 9)]%N.
Definition nv_left : tree :=
  [(0, w_f 2); (1, w_f 6); (2, Tree [(0, w_f 7); (1, w_f 8)]); (3, Tree [(0, w_f 4)])]%N.
Definition nv_right : tree :=
  [(0, w_f 1); (1, w_f 16); (2, Tree [(0, w_f 17)]); (3, w_f 19)]%N.
Definition nv_oracle (ids : list N) : option N :=
  if list_eqb N.eqb ids [6; 5; 16]%N then Some 30%N else None.
Example C07_nonvacuous :
  let ts := [nv_left; nv_base; nv_right] in
  let m := merge_trees true nv_oracle ts in
  clash_above true ts [2; 1]%N = false
  /\ path_value true m [0]%N = [Some (w_f 2)]
  /\ path_value true m [1]%N = [Some (w_f 30)]
  /\ path_value true m [2; 0]%N = [Some (w_f 17)]
  /\ path_value true m [2; 1]%N = [Some (w_f 8)]
  /\ clash true (map (value_at [3]%N) ts) = true
  /\ clash_above true ts [3; 0]%N = true
  /\ path_value true m [3; 0]%N = [None]
  /\ length m = 3%nat.
Proof. vm_compute. repeat split. Qed.

(** Two different completion orders of the same merge (sub-directory 2 before or after the
    file merge at 1) both return, and return the same trees. *)
Example C07_schedules_nonvacuous :
  let ts := [nv_left; nv_base; nv_right] in
  let s1 := [[]; [1]; [2]; [2]; [3]]%N in
  let s2 := [[]; [3]; [2]; [1]; [2]]%N in
  run true nv_oracle ts s1 = EWritten (merge_dir_full true nv_oracle ts)
  /\ run true nv_oracle ts s2 = EWritten (merge_dir_full true nv_oracle ts)
  /\ run true nv_oracle ts [[]; [1]]%N <> run true nv_oracle ts [[]; [2]]%N.
Proof. vm_compute. repeat split. congruence. Qed.

Print Assumptions C07_pathwise.
Print Assumptions C07_schedule_independent.
Print Assumptions C07_schedule_bounded.
Print Assumptions C07_schedule_total.
Print Assumptions C07_schedule_exists.
Print Assumptions C07_resolve_keeps_resolved.
Print Assumptions C07_clash.
Print Assumptions C07_conflict_free_iff.
Print Assumptions C07_base_identity.
Print Assumptions C07_base_identity_general.
Print Assumptions C07_resolve_terminates.
Print Assumptions C07_okb_spec.
