(** C20 — Shortest unique id prefixes are unique, minimal and resolvable.
    Model/C20.v transcribes the prefix machinery of the commit index
    (lib/src/default_index/composite.rs:187-291 over per-segment sorted tables,
    readonly.rs:857-895, mutable.rs resolve_neighbor_ids / resolve_id_prefix) and of
    lib/src/id_prefix.rs (disambiguation set first, then the repo). Ids are hex-digit
    lists; [segs] is the stack of per-segment tables, each sorted by key ([sorted_tb]);
    [all_keys segs] are the ids of all segments. The statements hold for every
    segmentation. *)
From Verif Require Import Base.Prelude Base.DagI Model.C20 Proofs.C20.
From Coq Require Import Lia Arith.
Local Open Scope nat_scope.

Section Neighbours.
  Context {V : Type}.
  Variable segs : list (@table V).
  Hypothesis sorted : Forall sorted_tb segs.

  (** Unique (commit and change ids alike): every other indexed id shares fewer than
      [shortest_len] digits with [k], i.e. the prefix of that length matches no other id. *)
  Theorem C20_unique : forall k x, In x (all_keys segs) -> x <> k ->
    common_len k x < shortest_len k segs.
  Proof. intros k. exact (shortest_len_unique k segs sorted). Qed.

  (** Minimal: one digit less is shared with some other indexed id; length 0 is returned
      only when there is no other id at all. *)
  Theorem C20_minimal : forall k,
    (forall m, shortest_len k segs = S m ->
       exists x, In x (all_keys segs) /\ x <> k /\ m <= common_len k x) /\
    (shortest_len k segs = 0 -> forall x, In x (all_keys segs) -> x = k).
  Proof. exact (minimal_thm segs sorted). Qed.
End Neighbours.

Section Commits.
  Variable segs : list (@table unit).
  Hypothesis sorted : Forall sorted_tb segs.
  Variable w : nat.
  Hypothesis even_w : Nat.even w = true.
  Hypothesis same_len : forall x, In x (all_keys segs) -> length x = w.
  Hypothesis distinct : NoDup (all_keys segs).

  (** Resolution does not depend on the segmentation: folding the segments with
      PrefixResolution::plus is classifying the matching ids of the whole index. *)
  Theorem C20_resolve_flat : forall pfx, length pfx <= w ->
    resolve_commit pfx segs = classify (filter (matches pfx) (all_keys segs)).
  Proof. exact (resolve_flat_thm segs sorted w even_w same_len). Qed.

  (** Resolves back: the prefix of the shown length resolves to exactly that commit, and every
      shorter prefix is ambiguous. *)
  Theorem C20_resolves_back : forall k, In k (all_keys segs) ->
    resolve_commit (firstn (shortest_len k segs) k) segs = SingleMatch k /\
    forall l, l < shortest_len k segs -> resolve_commit (firstn l k) segs = AmbiguousMatch.
  Proof. exact (resolves_back_thm segs sorted w even_w same_len distinct). Qed.

  (** With a disambiguation set D (ids of the repo): a commit of D is shown with its D-local
      shortest length, resolves back, and shorter non-empty prefixes are ambiguous; a commit
      outside D keeps its repo-wide length and still resolves back. *)
  Theorem C20_two_level : 1 <= w -> forall D, (forall x, In x D -> In x (all_keys segs)) ->
    forall k, In k (all_keys segs) ->
    (In k D ->
       shortest_commit2 (Some D) k segs = set_shortest k D /\
       resolve_commit2 (Some D) (firstn (set_shortest k D) k) segs = SingleMatch k /\
       forall l, 1 <= l -> l < set_shortest k D ->
         resolve_commit2 (Some D) (firstn l k) segs = AmbiguousMatch) /\
    (~ In k D -> 1 <= shortest_len k segs ->
       shortest_commit2 (Some D) k segs = shortest_len k segs /\
       resolve_commit2 (Some D) (firstn (shortest_len k segs) k) segs = SingleMatch k).
  Proof. exact (two_level_thm segs sorted w even_w same_len distinct). Qed.
End Commits.

(** Change ids: the same change id may sit in several segments (and on several commits).
    The prefix of the shown length resolves to exactly that change, listing the positions of
    all entries carrying it (newest segment first, descending inside a segment); every
    shorter prefix is ambiguous. *)
Theorem C20_change_resolves_back : forall (segs : list (@table (list nat))),
  Forall sorted_tb segs -> forall w, Nat.even w = true ->
  (forall x, In x (all_keys segs) -> length x = w) ->
  forall k, In k (all_keys segs) ->
  (let pfx := firstn (shortest_len k segs) k in
   resolve_change pfx segs =
     SingleMatch (k, flat_map (fun e => rev (snd e)) (matching_entries pfx segs)) /\
   forall e, In e (matching_entries pfx segs) <-> (exists tb, In tb segs /\ In e tb) /\ fst e = k) /\
  (forall l, l < shortest_len k segs -> resolve_change (firstn l k) segs = AmbiguousMatch).
Proof. exact change_resolves_thm. Qed.

(** The two-level index for change ids: a change of the disambiguation set is shown with
    its set-local length and that prefix resolves — through the repo, by the full id — to
    exactly that change with all its positions; shorter non-empty prefixes are ambiguous; a
    change outside the set keeps its repo-wide length and resolves as in the repo
    ([C20_change_resolves_back]). *)
Theorem C20_two_level_change : forall (segs : list (@table (list nat))),
  Forall sorted_tb segs -> forall w, Nat.even w = true -> 1 <= w ->
  (forall x, In x (all_keys segs) -> length x = w) ->
  forall Dc, (forall x, In x Dc -> In x (all_keys segs)) ->
  forall k, In k (all_keys segs) ->
  (In k Dc ->
     shortest_change2 (Some Dc) k segs = set_shortest k Dc /\
     resolve_change2 (Some Dc) (firstn (set_shortest k Dc) k) segs =
       SingleMatch (k, positions_of segs k) /\
     forall l, 1 <= l -> l < set_shortest k Dc ->
       resolve_change2 (Some Dc) (firstn l k) segs = AmbiguousMatch) /\
  (~ In k Dc -> 1 <= shortest_len k segs ->
     shortest_change2 (Some Dc) k segs = shortest_len k segs /\
     resolve_change2 (Some Dc) (firstn (shortest_len k segs) k) segs =
       resolve_change (firstn (shortest_len k segs) k) segs).
Proof. exact two_level_change_thm. Qed.

(** Visibility of a change's targets: the state the checker expects for a position is
    Visible exactly when that commit is an ancestor of one of the view's heads. *)
Theorem C20_visible : forall (c : case), wf (c_graph c) -> forall p,
  visible_at c p = true <-> exists h, In h (c_heads c) /\ anc (c_graph c) p h.
Proof. exact visible_thm. Qed.

(** Refs shadow: the length shown after disambiguate_prefix_with_refs is at least the
    minimum, its prefix is not a bookmark or tag name (unless the whole id is shown), and
    every shorter length from the minimum on is such a name. *)
Theorem C20_refs_shadow : forall k names m,
  let r := disambiguate_with_refs k names m in
  let is_name j := existsb (id_eqb (firstn j k)) names in
  (r = length k \/ (m <= r /\ r < length k /\ is_name r = false)) /\
  (forall j, m <= j -> j < r -> j < length k -> is_name j = true) /\
  (m <= length k -> m <= r).
Proof. exact refs_shadow_thm. Qed.

(** The tables the model builds from a segment's entries are sorted, so the theorems apply to
    what the correspondence run evaluates. *)
Theorem C20_tables_sorted : forall seg, sorted_tb (commit_table seg) /\ sorted_tb (change_table seg).
Proof. exact tables_sorted_thm. Qed.

(** The checker on the implementation's answers: acceptance of a shortest length / of a
    resolution means the declarative statement against the flat list of ids. *)
Theorem C20_checker_sound :
  (forall k len l, short_ok k len l = true -> short_holds k len l) /\
  (forall pfx l r positions, res_spec pfx l r positions = true -> res_holds pfx l r positions) /\
  (forall k len names ids lower, refs_short_ok k len names ids lower = true ->
     refs_short_holds k len names ids lower).
Proof. exact checker_sound_thm. Qed.

(** Every clause the checker evaluates on a case: acceptance of a recorded answer means the
    declarative statement [query_holds] (shortest lengths unique and minimal, resolutions
    decided by the ids that exist - through the disambiguation set first where there is one -,
    positions and visibility of a change's targets, ref-aware lengths). *)
Theorem C20_query_ok_sound : forall (c : case) (q : query),
  query_ok c (all_commits_of c) (all_changes_of c) q = true -> query_holds c q.
Proof. exact query_ok_sound. Qed.

Example C20_nonvacuous :
  let s1 : @table unit := [(dg "12a0", tt); (dg "12b4", tt); (dg "7f00", tt)] in
  let s2 : @table unit := [(dg "12a7", tt); (dg "c001", tt)] in
  shortest_len (dg "12a0") [s2; s1] = 4 /\ shortest_len (dg "7f00") [s2; s1] = 1 /\
  resolve_commit (dg "12a") [s2; s1] = AmbiguousMatch /\
  resolve_commit (dg "12b") [s2; s1] = SingleMatch (dg "12b4") /\
  resolve_commit2 (Some [dg "12a7"; dg "c001"]) (dg "12a") [s2; s1] = SingleMatch (dg "12a7") /\
  disambiguate_with_refs (dg "12b4") [dg "12b"; dg "12b4"] 3 = 4.
Proof. vm_compute. repeat split. Qed.

Print Assumptions C20_unique.
Print Assumptions C20_minimal.
Print Assumptions C20_resolves_back.
Print Assumptions C20_two_level.
Print Assumptions C20_change_resolves_back.
Print Assumptions C20_two_level_change.
Print Assumptions C20_visible.
Print Assumptions C20_query_ok_sound.
