(** C24 — Checkout writes the tree and an immediate snapshot sees no change.

    [check_out] / [run_update] (Base/WcC.v) transcribe TreeState::check_out / update of
    lib/src/local_working_copy.rs; [diff_fs] is the order of
    MergedTree::diff_stream_for_file_system (sorted paths; a file that replaces a directory
    is held back until the directory's entries have been emitted). [models t u f] says
    that the disk [f] holds exactly the files and links of the tree [t] (already
    restricted to the sparse patterns), a directory wherever one is needed, and otherwise
    the untracked entries [u]. The theorems hold for all trees of files, executables and
    symbolic links with valid non-reserved names (no path both file and directory), all
    prefix sparse patterns, and all untracked entries not in the way of the tree paths.

    Conflicts in trees (materialized as marker files by the code of C05/C06) and EOL
    conversion (C29) are outside this model; the snapshot is the declarative one (what
    the disk holds at the tracked paths): the real snapshot is tied by the correspondence
    check, which compares the tree it returns with the tree checked out. *)
From Verif Require Import Base.Prelude Base.FsC Base.WcC Base.C24Chk Base.WcNames Model.C24.
From Verif Require Import Proofs.FsC Proofs.WcCore Proofs.C24Step Proofs.C24Run Proofs.C24Diff Proofs.C24Main.
Local Open Scope string_scope.
Local Open Scope list_scope.

Section Statements.
  Variable rn : list name.

  (** From a disk that is the old tree (inside the sparse patterns) plus untracked entries
      not in the way, checking out the new tree succeeds, skips nothing, and leaves
      exactly the new tree plus the same untracked entries. *)
  Theorem C24_disk_is_tree : forall w t2 u f,
    let m := matches (wc_sparse w) in
    tok rn (restrict m (wc_tree w)) -> tok rn (restrict m t2) -> flat_ok (wc_tree w) ->
    uokp rn u (keys (restrict m (wc_tree w)) ++ keys (restrict m t2)) ->
    models (restrict m (wc_tree w)) u f ->
    let '(o, w') := check_out rn f w t2 in
    (exists st, o_res o = ROk st /\ n_skipped st = 0%N)
    /\ models (restrict m t2) u (o_fs o)
    /\ wc_tree w' = t2 /\ wc_sparse w' = wc_sparse w.
  Proof. exact (check_out_clean rn). Qed.

  (** Switching from any tree gives the same disk as checking out from scratch. *)
  Theorem C24_path_independent : forall m ta tb t2 u fa fb sa sb,
    tok rn (restrict m ta) -> tok rn (restrict m tb) -> tok rn (restrict m t2) ->
    flat_ok ta -> flat_ok tb ->
    uokp rn u (keys (restrict m ta) ++ keys (restrict m t2)) ->
    uokp rn u (keys (restrict m tb) ++ keys (restrict m t2)) ->
    models (restrict m ta) u fa -> models (restrict m tb) u fb ->
    forall q, lookup (o_fs (run_update rn fa sa (diff_fs m ta t2))) q
            = lookup (o_fs (run_update rn fb sb (diff_fs m tb t2))) q.
  Proof. exact (path_independent rn). Qed.

  (** Reading the tracked paths back from such a disk gives the identical tree. *)
  Theorem C24_snapshot_fixpoint : forall t u f,
    tok rn t -> nodup_paths (keys t) = true -> models t u f -> snap f (keys t) = t.
  Proof. exact (snapshot_fixpoint rn). Qed.

  (** Any sequence of checkouts: every step succeeds without skipping, and the final disk
      is the last tree plus the untracked entries. *)
  Theorem C24_sequence : forall sp ts w u f,
    wc_sparse w = sp ->
    tok rn (restrict (matches sp) (wc_tree w)) -> flat_ok (wc_tree w) ->
    (forall t, In t ts -> tok rn (restrict (matches sp) t) /\ flat_ok t) ->
    uokp rn u (keys (restrict (matches sp) (wc_tree w))
               ++ flat_map (fun t => keys (restrict (matches sp) t)) ts) ->
    models (restrict (matches sp) (wc_tree w)) u f ->
    exists f' w', run_seq rn f w ts = Some (f', w')
      /\ wc_tree w' = last ts (wc_tree w) /\ wc_sparse w' = sp
      /\ models (restrict (matches sp) (wc_tree w')) u f'.
  Proof. exact (sequence_clean rn). Qed.

  (** The order of diff_stream_for_file_system is safe: every intermediate tree is a tree
      (removed files come before the file that replaces their directory), the entries lead
      from the old tree to the new one, files are written in sorted order (the debug
      assertion of merge_in) and no path is both written and removed. *)
  Theorem C24_diff_order_valid : forall m t1 t2 u,
    tok rn (restrict m t1) -> tok rn (restrict m t2) -> flat_ok t1 ->
    uokp rn u (keys (restrict m t1) ++ keys (restrict m t2)) ->
    valid rn u (restrict m t1) (diff_fs m t1 t2)
    /\ (forall q, leaf (patch_all (restrict m t1) (diff_fs m t1 t2)) q = leaf (restrict m t2) q)
    /\ sorted_strict (map fst (writes (diff_fs m t1 t2))) = true
    /\ (forall q, In q (map fst (writes (diff_fs m t1 t2))) -> ~ In q (removes (diff_fs m t1 t2))).
  Proof. exact (diff_fs_valid rn). Qed.

  (** The hypotheses are decided on every recorded input; the initial workspace is the disk
      of the empty tree. *)
  Theorem C24_hypotheses_decided : forall c, pre_ok rn c = true ->
    wf_fs (c_disk0 c) /\ WcCore.anchor rn (c_disk0 c)
    /\ (forall s, In s (c_steps c) ->
          tok rn (st_tree s) /\ nodup_paths (keys (st_tree s)) = true /\ flat_ok (st_tree s))
    /\ uokp rn (c_disk0 c) (flat_map (fun s => keys (st_tree s)) (c_steps c)).
  Proof. exact (pre_ok_sound rn). Qed.

  Theorem C24_initial_disk : forall u, wf_fs u -> models [] u u.
  Proof. exact models_empty. Qed.
End Statements.

(** The boolean checker run on the real results means exactly [case_ok]: after every step
    the real disk is the tree plus the untracked entries and nothing was skipped, the real
    snapshot returned the tree checked out, the tracked paths of the real disk read back as
    that tree, the from-scratch workspace has the same disk, and every observation made
    on the real code alone (conflicted trees, other EOL / exec-bit settings: snapshot
    fixpoint and path independence, recorded as booleans by the harness) holds. *)
Theorem C24_checker_spec : forall c, C24Chk.okb c = true <-> case_ok c.
Proof. exact okb_spec. Qed.

Check C24_disk_is_tree.
Check C24_path_independent.
Check C24_snapshot_fixpoint.

(** Non-vacuity: a directory replaced by a file and a file replaced by a directory, an
    exec flip and a link, with an untracked file inside a tracked directory. *)
Definition ex_u : fs :=
  [(pth ".jj", EDir); (pth ".jj/repo", EDir); (pth "a", EDir); (pth "a/u", EFile "mine" false)].
Definition ex_t1 : tree :=
  [(pth "a/b/c", TFile "x" false); (pth "a/d", TFile "y" false); (pth "e", TFile "z" true); (pth "l", TSym "a")].
Definition ex_t2 : tree :=
  [(pth "a/b", TFile "x" true); (pth "a/d/f", TSym "g"); (pth "e", TFile "z" false)].

Example C24_nonvacuous :
  let w0 := mkWc [] [] [[]] in
  let '(o1, w1) := check_out reserved_names ex_u w0 ex_t1 in
  let '(o2, w2) := check_out reserved_names (o_fs o1) w1 ex_t2 in
  let '(o3, _) := check_out reserved_names ex_u w0 ex_t2 in
  tree_ok_b reserved_names ex_t1 = true /\ tree_ok_b reserved_names ex_t2 = true
  /\ compat_b ex_u (keys ex_t1 ++ keys ex_t2) = true
  /\ o_res o1 = ROk (mkStats 4 0 0 0) /\ o_res o2 = ROk (mkStats 2 1 3 0)
  /\ models_b ex_t1 ex_u (o_fs o1) = true /\ models_b ex_t2 ex_u (o_fs o2) = true
  /\ fs_eqb (o_fs o2) (o_fs o3) = true
  /\ snap (o_fs o2) (keys ex_t2) = ex_t2
  /\ lookup (o_fs o2) (pth "a/u") = Some (EFile "mine" false).
Proof. vm_compute. repeat split. Qed.

Print Assumptions C24_disk_is_tree.
Print Assumptions C24_path_independent.
Print Assumptions C24_snapshot_fixpoint.
Print Assumptions C24_sequence.
Print Assumptions C24_diff_order_valid.
Print Assumptions C24_checker_spec.
