(** C02 — Automatic conflict resolution is exactly the cancellation rule.
    [trivial_merge] of Model/Merge.v transcribes lib/src/merge.rs (1-term and 3-term fast
    paths in the source's arm order, then the counting path). *)
From Verif Require Import Base.Prelude Model.Merge Model.C02 Proofs.C02.
Local Open Scope Z_scope.

Section Statements.
  Context {T : Type} (eqb : T -> T -> bool).
  Hypothesis eqb_spec : forall x y, eqb x y = true <-> x = y.

  (** For every odd arity and both same-change settings: the merge resolves to [v] iff,
      after cancelling equal add/remove terms, only [v] is left — or, when same-change
      conflicts are accepted, [v] and exactly one other value with negative net count. *)
  Theorem C02_spec : forall (accept : bool) (l : list T) (v : T),
    Nat.odd (length l) = true ->
    (trivial_merge eqb accept l = Some v <->
     0 < den eqb l v /\
     ((forall w, w <> v -> den eqb l w = 0) \/
      (accept = true /\
       exists w, w <> v /\ den eqb l w < 0 /\ forall u, u <> v -> u <> w -> den eqb l u = 0))).
  Proof. exact (trivial_merge_spec eqb eqb_spec). Qed.

  (** The 1- and 3-term fast paths compute the same function as the general counting path. *)
  Theorem C02_fast_path_agrees : forall accept (l : list T),
    Nat.odd (length l) = true -> trivial_merge eqb accept l = count_path eqb accept l.
  Proof. exact (fast_path_agrees eqb eqb_spec). Qed.

  (** The result is a function of the net counts alone: reordering adds among themselves or
      removes among themselves, or padding with cancelling pairs, cannot change it. *)
  Theorem C02_den_only : forall accept (l1 l2 : list T),
    Nat.odd (length l1) = true -> Nat.odd (length l2) = true ->
    (forall v, den eqb l1 v = den eqb l2 v) ->
    trivial_merge eqb accept l1 = trivial_merge eqb accept l2.
  Proof. exact (trivial_merge_den_only eqb eqb_spec). Qed.

  (** The checker applied to implementation outputs accepts exactly the model's answer. *)
  Theorem C02_checker_complete : forall accept (l : list T) r,
    Nat.odd (length l) = true ->
    (result_ok eqb accept l r = true <-> r = trivial_merge eqb accept l).
  Proof. exact (result_ok_complete eqb eqb_spec). Qed.

  (** Simplifying a conflict first never changes whether, or to what, it resolves (the tree merge
      simplifies before it calls resolve_trivial; C01 and C02 compose). *)
  Theorem C02_simplify_invariant : forall accept (m : list T),
    Nat.odd (length m) = true ->
    trivial_merge eqb accept (simplify eqb m) = trivial_merge eqb accept m.
  Proof. exact (trivial_merge_simplify eqb eqb_spec). Qed.

  (** SameChange::Accept only resolves more: what resolves under Reject resolves to the same
      value under Accept. *)
  Theorem C02_accept_monotone : forall (l : list T) (v : T),
    Nat.odd (length l) = true ->
    trivial_merge eqb false l = Some v -> trivial_merge eqb true l = Some v.
  Proof. exact (trivial_merge_accept_mono eqb eqb_spec). Qed.

  (** The resolved value is one of the conflict's own terms - nothing is invented. *)
  Theorem C02_result_is_term : forall (l : list T) accept (v : T),
    Nat.odd (length l) = true -> trivial_merge eqb accept l = Some v -> In v l.
  Proof. exact (trivial_merge_in eqb eqb_spec). Qed.
End Statements.

Example C02_nonvacuous :
  trivial_merge N.eqb true [1; 2; 1; 2; 1]%N = Some 1%N
  /\ trivial_merge N.eqb false [1; 2; 1; 2; 1]%N = None
  /\ trivial_merge N.eqb true [1; 2; 1; 3; 1]%N = None
  /\ trivial_merge N.eqb false [5; 2; 2; 5; 7]%N = Some 7%N.
Proof. repeat split. Qed.

Print Assumptions C02_spec.
Print Assumptions C02_den_only.
Print Assumptions C02_simplify_invariant.
