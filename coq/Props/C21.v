(** C21 — Stacked tables keep every saved entry under concurrent writers.

    Model: Model/C21.v. A table is the list of the local entry maps of its segments, newest
    first; segment names are content hashes, so equal lists = equal names. The heads protocol
    (add_head / remove_head with the two name guards, get_head, get_head_locked, save_table)
    runs under Base/SchedS.v: any number of store instances, schedules of any length, any
    readdir order at every read, working or ineffective lock, stale-head writers ([CStale]).
    [step true] is the code that exists (guard of commit 04357b3, scraped from the source on
    every run as C21_REMOVE_LOOP_BODY); [step false] is the code before it. *)
From Verif Require Import Base.Prelude Base.SchedS Gen.Tables Model.C21Codec Proofs.C21Codec Model.C21 Proofs.C21.

(* ------------------------------------------------------------------ single-instance laws *)

(** merge_in keeps every key of both sides ... *)
Theorem C21_merge_keeps_all : forall (m : mtable) (o : table) (k : N),
  lookup_mt m k <> None \/ lookup o k <> None -> lookup_mt (merge_in m o) k <> None.
Proof. exact merge_in_keeps. Qed.

(** ... invents none, and every value found afterwards is the value one of the sides had. *)
Theorem C21_merge_no_invention : forall (m : mtable) (o : table) (k : N),
  lookup_mt (merge_in m o) k <> None -> lookup_mt m k <> None \/ lookup o k <> None.
Proof. exact merge_in_only. Qed.

Theorem C21_merge_value : forall (m : mtable) (o : table) (k v : N),
  wf_table o -> lookup_mt (merge_in m o) k = Some v ->
  lookup_mt m k = Some v \/ lookup o k = Some v.
Proof. exact merge_in_value. Qed.

(** maybe_squash_with_ancestors never changes a lookup (any squash factor). *)
Theorem C21_squash_same_lookup : forall (m : mtable) (k : N),
  wf_mt m -> lookup_mt (maybe_squash m) k = lookup_mt m k.
Proof. exact squash_same_lookup. Qed.

(** save_in (empty-mutation shortcut, squash) never changes a lookup; the segment written
    is well formed again. *)
Theorem C21_save_same_lookup : forall (m : mtable) (k : N),
  wf_mt m -> lookup (save_in m) k = lookup_mt m k /\ wf_table (save_in m).
Proof. intros m k H. split; [apply save_in_lookup|apply save_in_wf]; exact H. Qed.

(** A later sequential save of a key wins over an earlier one. *)
Theorem C21_sequential_wins : forall (ess : list ents) (n : table) (k : N),
  wf_table n ->
  lookup (seq_saves n ess) k =
  fold_left (fun acc es => match find k (of_list es) with Some v => Some v | None => acc end)
            ess (lookup n k).
Proof. exact sequential_wins. Qed.

(** Reconciling divergent heads keeps exactly the keys of all of them. *)
Theorem C21_reconcile_keeps_all : forall (t0 : table) (others : list table) (k : N),
  lookup (reconcile t0 others) k <> None <->
  lookup t0 k <> None \/ (exists o, In o others /\ lookup o k <> None).
Proof. exact reconcile_keys. Qed.

(** The segment byte codec (u32-LE lengths, key || offset index, concatenated values) loses
    nothing: loading a serialised segment gives back its parent name and its entries, for
    every key size and every value size (reload never changes a lookup). *)
Theorem C21_codec_roundtrip : forall ks parent es,
  (forall k v, In (k, v) es -> length k = ks) ->
  (blen parent < 4294967296)%N -> (blen es < 4294967296)%N ->
  (blen (concat (map snd es)) < 4294967296)%N ->
  load ks (serialize parent es) = Some (parent, es).
Proof. exact codec_roundtrip. Qed.

(* ------------------------------------------------------------------ the heads protocol *)

(** Whenever at most one instance at a time is removing heads — for every number of
    instances, every schedule, every readdir order, stale-head writers included — a key
    found under some head at any moment is found under some head at every later moment. *)
Theorem C21_protocol_exclusive : forall lw H ps sched1 sched2 k,
  Forall excl (states (step true lw) (sched1 ++ sched2) (init_state H ps)) ->
  (exists h, In h (s_heads (run (step true lw) sched1 (init_state H ps))) /\ lookup h k <> None) ->
  (exists h, In h (s_heads (run (step true lw) (sched1 ++ sched2) (init_state H ps))) /\ lookup h k <> None).
Proof. exact protocol_exclusive. Qed.

(** With a working lock and every writer going through get_head_locked (jj's own usage:
    git_backend.rs) ALL schedules qualify: nothing is ever lost. *)
Theorem C21_protocol_locked : forall H ps sched1 sched2 k,
  no_stale ps ->
  (exists h, In h (s_heads (run (step true true) sched1 (init_state H ps))) /\ lookup h k <> None) ->
  (exists h, In h (s_heads (run (step true true) (sched1 ++ sched2) (init_state H ps))) /\ lookup h k <> None).
Proof. exact protocol_locked. Qed.

(** A table recorded by add_head (label [LAdd t]) is a head right after that step, so by the
    two theorems above all its keys stay reachable. *)
Theorem C21_added_is_head : forall fixed lw s e t,
  snd (step_lbl fixed lw s e) = LAdd t -> In t (s_heads (step fixed lw s e)).
Proof. exact add_label_in_heads. Qed.

(** A completed save holds every key written and every key of the table it started from. *)
Theorem C21_save_holds : forall (n : table) (es : ents) (k : N),
  lookup (save_in (mk_mt n (of_list es))) k <> None <-> In k (map fst es) \/ lookup n k <> None.
Proof. exact save_keys. Qed.

(** The lemma that needs the guard: after get_head_locked's whole removal loop the merged
    table is still a head. *)
Theorem C21_reconcile_keeps_merged_head : forall t0 others H,
  let m := reconcile t0 others in
  let todo := others_than m [t0] ++ others_than m others in
  In m (fold_left (fun H x => remove_head x H) todo (add_head m H)).
Proof. exact reconcile_keeps_merged_head. Qed.

(** The correspondence check runs [step current_fixed]; the theorems above are about
    [step true]. They are the same function as long as the source has the guard. *)
Theorem C21_current_code_has_guard : current_fixed = true.
Proof. vm_compute. reflexivity. Qed.

(* ------------------------------------------------------------------ refutations *)
Definition ev0 (p : nat) : ev := mk_ev p [].

(** F4: the code BEFORE commit 04357b3 ([step false]). Writer 0 saves {k0}, stale writer 1
    saves {k0,k1} from the same empty head, instance 2 reconciles: the merged table is
    byte-identical to the second head and is removed again; the directory ends EMPTY although
    both saves completed. The same schedule under the current code ends with one head
    holding both keys. Strictly sequential: every instance runs its command to the end. *)
Theorem C21_old_code_refuted :
  let s0 := init_state [] [([], [CRead; CStale [(0, 2)]]);
                           ([], [CRead; CStale [(0, 2); (1, 3)]]);
                           ([], [CRead])]%N in
  let sched := map ev0 [0; 0; 0; 1; 1; 0; 0; 0; 1; 1; 1; 2; 2; 2; 2; 2; 2; 2; 2] in
  s_heads (run (step false true) sched s0) = []
  /\ s_heads (run (step true true) sched s0) = [[[(0, 2); (1, 3)]]]%N
  /\ Forall excl (states (step false true) sched s0).
Proof.
  cbv zeta. split; [vm_compute; reflexivity|]. split; [vm_compute; reflexivity|].
  apply Forall_forall. intros s Hs i j p q Hp Hq Ap Aq.
  vm_compute in Hs.
  repeat (destruct Hs as [<-|Hs];
          [repeat (destruct i as [|i]; try discriminate; simpl in Hp; try (inversion Hp; subst p; clear Hp));
           repeat (destruct j as [|j]; try discriminate; simpl in Hq; try (inversion Hq; subst q; clear Hq));
           try reflexivity; try discriminate|]).
  destruct Hs.
Qed.

(** F6 (found by this development): the CURRENT code, when two instances are inside their
    add/remove phases at the same time (ineffective lock, or a writer that calls save_table
    without the lock). Writer 1, started from head p = {k0->6}, has recorded t = {k0->9} and
    is about to remove its parent p; instance 2 reads [t; p], merges them into a table that
    is byte-identical to p, records p, removes t; writer 1 resumes and removes p: the
    directory is EMPTY and the completed save of k0 is lost. *)
Theorem C21_overlap_refuted :
  let p := [[(0, 6)]]%N in
  let t := [[(0, 9)]]%N in
  let s0 := init_state [] [([], [CRead; CStale [(0, 6)]]);
                           ([], [CRead; CStale [(0, 9)]]);
                           ([], [CRead])]%N in
  let before := map ev0 [0; 0; 0; 0; 0; 0; 1; 1; 1; 1] in
  let reconciler := map (fun _ => mk_ev 2 [t; p]) [1; 2; 3; 4; 5; 6; 7] in
  let resume := map ev0 [1] in
  s_heads (run (step true true) before s0) = [p; t]
  /\ s_heads (run (step true true) (before ++ reconciler) s0) = [p]
  /\ s_heads (run (step true true) (before ++ reconciler ++ resume) s0) = [].
Proof. cbv zeta. repeat split; vm_compute; reflexivity. Qed.

(* ------------------------------------------------------------------ strict sequential-wins *)
(** Strict reading of "a later sequential save of a key wins" under divergence. Within one
    lineage the last save wins (C21_sequential_wins). At reconciliation the first head's value
    of [k] — its causally last one — is displaced only by a value that physically sits in a
    segment of another head that is not shared with it (C21_other_only_unshared); hence if no
    unshared segment of the other heads holds [k] (they neither wrote [k] since the fork nor
    had it re-recorded there by maybe_squash_with_ancestors), it survives
    (C21_causal_max_wins). *)
Theorem C21_other_only_unshared : forall (m : mtable) (o : table) (k v : N), wf_table o ->
  lookup_mt (merge_in m o) k = Some v ->
  lookup_mt m k = Some v \/ exists f, In f (walk (m_parent m) o) /\ find k f = Some v.
Proof. exact merge_other_only_unshared. Qed.

Theorem C21_causal_max_wins : forall (t0 : table) (others : list table) (k : N),
  wf_table t0 -> Forall wf_table others ->
  (forall o f, In o others -> In f (walk t0 o) -> ~ In k (map fst f)) ->
  lookup (reconcile t0 others) k = lookup t0 k.
Proof. exact reconcile_own_value_wins. Qed.

(** Known finding squash-rerecords-inherited-value: the strict rule is FALSE of the current
    code. [A] holds k0 -> 1. A writer saves k0 -> 2 on top of it ([B], causally later). A stale
    writer that also started from [A] saves k1 -> 3 only; its save squashes with [A], so its
    own, unshared segment [C] now physically holds the inherited k0 -> 1. Reconciling [B; C]
    (read_dir order) returns the OLDER value 1 for k0; [C; B] returns 2. *)
Theorem C21_strict_refuted :
  let A := [[(0, 1)]]%N in
  let B := save_in (mk_mt A (of_list [(0, 2)]%N)) in
  let C := save_in (mk_mt A (of_list [(1, 3)]%N)) in
  B = [[(0, 2)]]%N /\ C = [[(0, 1); (1, 3)]]%N
  /\ walk B C = [[(0, 1); (1, 3)]]%N          (* nothing of C is recognised as shared *)
  /\ lookup (reconcile B [C]) 0%N = Some 1%N  (* the causally older value wins *)
  /\ lookup (reconcile C [B]) 0%N = Some 2%N.
Proof. cbv zeta. repeat split; vm_compute; reflexivity. Qed.

(** The same as a run of the protocol (strictly sequential sections, working lock): writer 1
    saves k0->2 after loading A, stale writer 2 saves k1->3 from A, instance 3 reconciles in
    directory order [B; C] and loads k0 -> 1. *)
Theorem C21_strict_refuted_run :
  let s0 := init_state [] [([], [CRead; CStale [(0, 1)]]);
                           ([], [CRead; CStale [(0, 2)]]);
                           ([], [CRead; CStale [(1, 3)]]);
                           ([], [CRead])]%N in
  let sched := map ev0 [0; 0; 0; 0; 0; 0;  1; 1;  2; 2;  1; 1; 1;  2; 2; 2;
                        3; 3; 3; 3; 3; 3; 3; 3] in
  let s := run (step true true) sched s0 in
  Forall excl (states (step true true) sched s0) /\
  match nth_error (s_procs s) 3 with
  | Some p => p_pc p = PIdle /\ p_prog p = [] /\ lookup (p_cur p) 0%N = Some 1%N
  | None => False
  end.
Proof.
  cbv zeta. split.
  - apply Forall_forall. intros s Hs i j p q Hp Hq Ap Aq.
    vm_compute in Hs.
    repeat (destruct Hs as [<-|Hs];
            [repeat (destruct i as [|i]; try discriminate; simpl in Hp; try (inversion Hp; subst p; clear Hp));
             repeat (destruct j as [|j]; try discriminate; simpl in Hq; try (inversion Hq; subst q; clear Hq));
             try reflexivity; try discriminate|]).
    destruct Hs.
  - vm_compute. repeat split.
Qed.

(* ------------------------------------------------------------------ checker *)
(** Meaning of the two list checks the boolean checker applies to the lookups the REAL table
    returned: every required key is present; every value present was written by some save. *)
Theorem C21_has_keys_spec : forall c lk ks,
  has_keys c lk ks = true <-> forall k, In k ks -> nth (N.to_nat k) lk None <> None.
Proof.
  intros c lk ks. unfold has_keys. rewrite forallb_forall. split; intros H k Hk; specialize (H k Hk).
  - destruct (nth (N.to_nat k) lk None); [discriminate|discriminate].
  - destruct (nth (N.to_nat k) lk None); [reflexivity|congruence].
Qed.

Check C21_protocol_exclusive.
Check C21_protocol_locked.

(** Non-vacuity: a divergent directory {k0} / {k1,k2} reconciled by one instance under the
    lock keeps all three keys; squash and merge really happen. *)
Example C21_nonvacuous :
  let a := [[(0, 1)]]%N in
  let b := [[(1, 1); (2, 1)]]%N in
  let s0 := init_state [a; b] [([], [CRead])] in
  let s := run (step true true) (map ev0 [0; 0; 0; 0; 0; 0; 0]) s0 in
  s_heads s = [[[(0, 1); (1, 1); (2, 1)]]]%N
  /\ reconcile a [b] = [[(0, 1); (1, 1); (2, 1)]]%N
  /\ save_in (mk_mt [[(0, 1); (1, 1); (2, 1); (3, 1); (4, 1)]]%N [(5, 1)]%N)
     = [[(5, 1)]; [(0, 1); (1, 1); (2, 1); (3, 1); (4, 1)]]%N.
Proof. cbv zeta. repeat split; vm_compute; reflexivity. Qed.

Print Assumptions C21_protocol_exclusive.
Print Assumptions C21_protocol_locked.
Print Assumptions C21_old_code_refuted.
Print Assumptions C21_overlap_refuted.
Print Assumptions C21_squash_same_lookup.
Print Assumptions C21_codec_roundtrip.
Print Assumptions C21_causal_max_wins.
Print Assumptions C21_strict_refuted.
