(** C08 — Rebasing carries a commit's changes and nothing else.
    Model: Model/Rebase.v (lib/src/rewrite.rs: find_recursive_merge_commits,
    merge_commit_trees, rebase_with_empty_behavior) on top of the tree merge model of C07.
    Trees may be conflicted (any odd number of terms); "the value of X at p" is the list
    of the terms' values, compared through its net counts [den]. *)
From Verif Require Import Base.Prelude Model.Merge Model.TreeMerge Model.TreeCase Model.Rebase Model.C08.
From Verif Require Import Proofs.TreeValue Proofs.TreeMerge Proofs.C07 Proofs.C08 Proofs.MergeIdentities Proofs.ThereBack Proofs.C08Full Proofs.GraphCA.
Local Open Scope Z_scope.

Section Statements.
  Context (accept : bool) (content_merge : list N -> option N).
  Context (common_ancestors : list nat -> list nat -> list nat) (tree_of : nat -> list tree) (root : nat).
  Notation rebase := (rebase accept content_merge common_ancestors tree_of root).
  Notation merge_commit_trees := (merge_commit_trees accept content_merge common_ancestors tree_of root).

  (** Rebasing onto parents whose trees are the old parents' trees — in particular onto the
      commit's current parents — leaves its tree unchanged, exactly, conflicted or not. *)
  Theorem C08_same_parents : forall fuel (old_parents new_parents : list nat) (old_tree : list tree),
    map tree_of new_parents = map tree_of old_parents ->
    rebase fuel old_parents new_parents old_tree = Some old_tree.
  Proof. exact (same_parents accept content_merge common_ancestors tree_of root). Qed.

  (** Otherwise the new tree is MergedTree::merge [new base; old base; old tree]. *)
  Theorem C08_rebase_is_merge : forall fuel old_parents new_parents old_tree ob nb,
    map tree_of new_parents <> map tree_of old_parents ->
    merge_commit_trees fuel old_parents = Some ob ->
    merge_commit_trees fuel new_parents = Some nb ->
    rebase fuel old_parents new_parents old_tree = Some (rebase_tree accept content_merge nb ob old_tree).
  Proof. exact (rebase_is_merge accept content_merge common_ancestors tree_of root). Qed.

  (** Every path the commit did not change takes the new base's value: if the commit's tree
      and its old base have the same net counts at [p], and the new base resolves to [v]
      there, the merge of [new base; old base; old tree] reads [v] at [p]. Stated for the
      first round of MergedTree::resolve ([merge_trees] of the simplified, flattened
      input); [C08_resolved_is_first_round] covers the rebased tree itself whenever that
      round leaves no conflict. *)
  Theorem C08_unchanged_paths : forall (nb ob ot : list tree),
    Nat.odd (length nb) = true -> Nat.odd (length ob) = true -> Nat.odd (length ot) = true ->
    forall p v, p <> [] -> clash_above accept (rebase_input nb ob ot) p = false ->
    (forall u, den oval_eqb (vals p ot) u = den oval_eqb (vals p ob) u) ->
    tm accept (vals p nb) = Some v ->
    path_value accept (merge_trees accept content_merge (rebase_input nb ob ot)) p = [v].
  Proof. exact (unchanged_paths accept content_merge). Qed.

  (** Every path the old and new base agree on keeps the commit's value. *)
  Theorem C08_agreeing_parents : forall (nb ob ot : list tree),
    Nat.odd (length nb) = true -> Nat.odd (length ob) = true -> Nat.odd (length ot) = true ->
    forall p v, p <> [] -> clash_above accept (rebase_input nb ob ot) p = false ->
    (forall u, den oval_eqb (vals p ob) u = den oval_eqb (vals p nb) u) ->
    tm accept (vals p ot) = Some v ->
    path_value accept (merge_trees accept content_merge (rebase_input nb ob ot)) p = [v].
  Proof. exact (agreeing_parents accept content_merge). Qed.

  Theorem C08_resolved_is_first_round : forall nb ob ot : list tree,
    is_single (merge_trees accept content_merge (rebase_input nb ob ot)) = true ->
    rebase_tree accept content_merge nb ob ot = merge_trees accept content_merge (rebase_input nb ob ot).
  Proof. exact (rebase_tree_resolved accept content_merge). Qed.

  (** Whole-tree corollaries for resolved trees: equal bases keep the commit's tree, an
      empty commit becomes the new base. *)
  Theorem C08_equal_bases : forall b t : tree, rebase_tree accept content_merge [b] [b] [t] = [t].
  Proof. exact (equal_bases accept content_merge). Qed.
  Theorem C08_empty_commit : forall b' b : tree, rebase_tree accept content_merge [b'] [b] [b] = [b'].
  Proof. exact (empty_commit accept content_merge). Qed.

  (** The same for conflicted bases of any arity. *)
  Theorem C08_equal_bases_general : forall (b : list tree) (t : tree), Nat.odd (length b) = true ->
    rebase_tree accept content_merge b b [t] = [t].
  Proof. intros b t Hb. exact (proj2 (base_identity_general accept content_merge t b Hb)). Qed.
  Theorem C08_empty_commit_general : forall (b' : tree) (b : list tree), Nat.odd (length b) = true ->
    rebase_tree accept content_merge [b'] b b = [b'].
  Proof. intros b' b Hb. exact (proj1 (base_identity_general accept content_merge b' b Hb)). Qed.

  (** When a commit's changes ([b] -> [t]) and the parent change ([b] -> [b']) touch disjoint
      entries — at every name, at every directory level, one of the two left the entry alone
      or both changed a directory in recursively disjoint ways — rebasing the commit from
      [b] onto [b'] and back onto [b] restores its tree exactly. [wf_tree]: names strictly
      ascending and no empty directory at every level (what backends store). *)
  Theorem C08_there_and_back : forall b' b t : tree,
    wf_tree b -> wf_tree t -> Disj accept b' b t ->
    rebase_tree accept content_merge [b] [b'] (rebase_tree accept content_merge [b'] [b] [t]) = [t].
  Proof. exact (there_and_back accept content_merge). Qed.
  (** ... in the executable form the checker applies to the implementation's trees. *)
  Theorem C08_there_and_back_checked : forall b' b t : tree,
    back_applies accept b b' t = true ->
    rebase_tree accept content_merge [b] [b'] (rebase_tree accept content_merge [b'] [b] [t]) = [t].
  Proof. exact (there_and_back_b accept content_merge). Qed.

  (** The merge base of the third parent is taken from BOTH parents merged so far (single
      merge bases [a], [b]): the result is p1 - a + p2 - b + p3. *)
  Theorem C08_merge_base_from_all_parents : forall f p1 p2 p3 a b,
    common_ancestors [p1] [p2] = [a] -> common_ancestors [p1; p2] [p3] = [b] ->
    find_recursive_merge_commits common_ancestors root (S f) [p1; p2; p3] = Some [p1; a; p2; b; p3].
  Proof. exact (frmc_three common_ancestors root). Qed.

  (** find_recursive_merge_commits terminates: if several greatest common ancestors always
      lie strictly below the commit they were computed for (a fact of the commit graph),
      fuel above the largest position involved is enough. *)
  Theorem C08_merge_commits_terminates :
    ca_below common_ancestors -> forall fuel ids,
    ((2 <= length ids)%nat -> (bound ids < fuel)%nat) ->
    exists m, find_recursive_merge_commits common_ancestors root fuel ids = Some m.
  Proof. exact (frmc_terminates common_ancestors root). Qed.
End Statements.

(** The executable graph specification of Index::common_ancestors that the correspondence
    runs use (greatest common ancestors, computed from the parent table) satisfies the
    hypothesis of C08_merge_commits_terminates whenever parents have smaller positions than
    their children; so with it find_recursive_merge_commits terminates with fuel above the
    largest position involved. *)
Theorem C08_graph_ca_below : forall parents : list (list nat),
  wf_parents parents -> ca_below (graph_common_ancestors parents).
Proof. exact graph_ca_below. Qed.
Theorem C08_merge_commits_terminates_graph : forall (parents : list (list nat)) root fuel ids,
  wf_parents parents ->
  ((2 <= length ids)%nat -> (bound ids < fuel)%nat) ->
  exists m, find_recursive_merge_commits (graph_common_ancestors parents) root fuel ids = Some m.
Proof.
  intros parents root fuel ids Hwf. apply frmc_terminates. now apply graph_ca_below.
Qed.

(** check_case evaluates [wf_parentsb] on every case's table (stage 10), so every case lies
    in the domain of the two theorems above. *)
Theorem C08_graph_ca_below_checked : forall parents : list (list nat),
  wf_parentsb parents = true -> ca_below (graph_common_ancestors parents).
Proof. exact graph_ca_below_checked. Qed.

(** The two laws for the tree the rebase finally returns, conflicted results included (all
    rounds of the resolve loop: Proofs/ResolveLoop.v). *)
Theorem C08_full :
  forall accept content_merge (nb ob ot : list tree),
    Nat.odd (length nb) = true -> Nat.odd (length ob) = true -> Nat.odd (length ot) = true ->
    forall p v, p <> [] -> clash_above accept (rebase_input nb ob ot) p = false ->
    ((forall u, den oval_eqb (vals p ot) u = den oval_eqb (vals p ob) u) ->
     tm accept (vals p nb) = Some v ->
     path_value accept (rebase_tree accept content_merge nb ob ot) p = [v])
    /\ ((forall u, den oval_eqb (vals p ob) u = den oval_eqb (vals p nb) u) ->
        tm accept (vals p ot) = Some v ->
        path_value accept (rebase_tree accept content_merge nb ob ot) p = [v]).
Proof.
  intros accept content_merge nb ob ot Hnb Hob Hot p v Hp Hc. split; intros Hd Hv.
  - now apply unchanged_paths_final.
  - now apply agreeing_parents_final.
Qed.

Theorem C08_okb_spec : forall c : case,
  okb c = true <->
  merge_commits_P c /\
  exists ob nb r back,
    c_old_base c = Some ob /\ c_new_base c = Some nb /\ c_rebased c = Some r /\ c_back c = Some back /\
    let tab := c_tab c in
    let ot := tree_of c (N.to_nat (c_target c)) in
    let nbt := map (dec tab) nb in
    let obt := map (dec tab) ob in
    let rt := map (dec tab) r in
    let backt := map (dec tab) back in
    if same_parent_trees c then rt = ot /\ backt = ot
    else (forall p vs, In (p, vs) (dec_values c) -> p <> [] ->
                       law_P (c_accept c) (map (dec tab) (c_unresolved c)) nbt obt ot p vs)
         /\ back_P (c_accept c) nbt obt ot backt.
Proof. exact okb_spec. Qed.

Check C08_unchanged_paths : forall accept content_merge (nb ob ot : list tree),
  Nat.odd (length nb) = true -> Nat.odd (length ob) = true -> Nat.odd (length ot) = true ->
  forall p v, p <> [] -> clash_above accept (rebase_input nb ob ot) p = false ->
  (forall u, den oval_eqb (vals p ot) u = den oval_eqb (vals p ob) u) ->
  tm accept (vals p nb) = Some v ->
  path_value accept (merge_trees accept content_merge (rebase_input nb ob ot)) p = [v].

(** Non-vacuity: a commit changing file 1 is rebased from base B onto B' (which changed
    file 0 and directory 2): file 0 and 2/0 come from the new base, file 1 from the commit. *)
Definition nvf (i : N) : value := File i false 0.
Definition nv_b : tree := [(0, nvf 1); (1, nvf 5); (2, Tree [(0, nvf 7)])]%N.
Definition nv_b' : tree := [(0, nvf 2); (1, nvf 5); (2, Tree [(0, nvf 8); (1, nvf 9)])]%N.
Definition nv_t : tree := [(0, nvf 1); (1, nvf 6); (2, Tree [(0, nvf 7)])]%N.
Example C08_nonvacuous :
  let r := rebase_tree true (fun _ => None) [nv_b'] [nv_b] [nv_t] in
  clash_above true (rebase_input [nv_b'] [nv_b] [nv_t]) [2; 0]%N = false
  /\ r = [[(0, nvf 2); (1, nvf 6); (2, Tree [(0, nvf 8); (1, nvf 9)])]%N]
  /\ rebase_tree true (fun _ => None) [nv_b] [nv_b'] r = [nv_t].
Proof. vm_compute. repeat split. Qed.
Example C08_there_and_back_nonvacuous : back_applies true nv_b nv_b' nv_t = true.
Proof. reflexivity. Qed.

Print Assumptions C08_same_parents.
Print Assumptions C08_full.
Print Assumptions C08_merge_commits_terminates_graph.
Print Assumptions C08_there_and_back.
Print Assumptions C08_equal_bases_general.
Print Assumptions C08_unchanged_paths.
Print Assumptions C08_agreeing_parents.
Print Assumptions C08_merge_commits_terminates.
Print Assumptions C08_okb_spec.
