(** C18 — The commit index answers exactly as the commit graph.
    Model/C18.v transcribes lib/src/default_index/composite.rs (is_ancestor_pos :324,
    common_ancestors_pos :368, heads :418, heads_pos :440, all_heads_pos :403, the heap helpers
    :738-784) and the generation numbers of mutable.rs:129 add_commit_data, over the flat
    graph [DagI.graph] (parents by index position, all strictly smaller: [wf]). Every loop
    carries explicit fuel; the theorems below include that the stated fuel suffices (the
    result is [Some _]). Ancestry [anc] is the reflexive-transitive closure of the parent
    relation; [maximal_in g P x] says x satisfies P and no other element of P descends from x. *)
From Verif Require Import Base.Prelude Base.DagI Gen.Tables Model.C18 Proofs.C18 Proofs.C18Codec.
Local Open Scope nat_scope.

(** Generation numbers: 0 for a commit without parents, else 1 + the largest parent
    generation; hence strictly decreasing along parent edges and along strict ancestry — the
    fact the generation cut-offs of is_ancestor_pos and heads_pos rely on. Appending a commit
    (add_commit_data) computes exactly this from the already stored numbers. *)
Theorem C18_generation : forall (g : graph), wf g ->
  (forall i, gen g i = list_max (map (fun p => S (gen g p)) (parents g i))) /\
  (forall i p, In p (parents g i) -> gen g p < gen g i) /\
  (forall a d, anc g a d -> a <> d -> gen g a < gen g d) /\
  (forall ps, gens (g ++ [ps]) = gens g ++ [gen_of (gens g) ps]).
Proof. exact generation_thm. Qed.

(** is_ancestor_pos (worklist, visited set, position and generation cut-offs) terminates
    within its fuel and answers exactly ancestry, for every graph and every pair. *)
Theorem C18_is_ancestor : forall (g : graph) (a d : nat), wf g -> d < length g ->
  exists b, is_ancestor_pos g a d = Some b /\ (b = true <-> anc g a d).
Proof. exact is_ancestor_thm. Qed.

(** heads_pos on a strictly descending candidate list (its documented precondition) returns
    exactly the candidates of which no other candidate is a descendant, in the same order. *)
Theorem C18_heads_pos : forall (g : graph) (cands : list nat), wf g -> sdesc cands ->
  heads_pos g cands = Some (heads_of g cands) /\
  forall x, In x (heads_of g cands) <-> maximal_in g (fun y => In y cands) x.
Proof. exact heads_pos_thm. Qed.

(** heads (any candidate list, duplicates allowed): the maximal candidates, strictly
    descending by position. *)
Theorem C18_heads : forall (g : graph) (cands : list nat), wf g ->
  exists r, heads g cands = Some r /\ sdesc r /\
    forall x, In x r <-> maximal_in g (fun y => In y cands) x.
Proof. exact heads_thm. Qed.

(** common_ancestors_pos (two max-heaps walked in lock step, then heads_pos): exactly the
    maximal elements of the intersection of the two ancestor closures, strictly descending. *)
Theorem C18_common_ancestors : forall (g : graph) (s1 s2 : list nat), wf g ->
  (forall s, In s s1 -> s < length g) ->
  exists r, common_ancestors_pos g s1 s2 = Some r /\ sdesc r /\
    forall x, In x r <-> maximal_in g (common_of g s1 s2) x.
Proof. exact common_ancestors_thm. Qed.

(** heads_from_range_and_filter as the revset engine calls it for heads(roots..heads & f)
    when every parent is followed: exactly the maximal commits among the ancestors of [heads]
    that are not ancestors of [roots] and pass the filter, strictly descending; the two
    heaps (wanted / unwanted) terminate within their fuel. *)
Theorem C18_heads_range : forall (g : graph) roots heads flt hi, wf g ->
  (forall i, length (parents g i) <= hi) -> (forall h, In h heads -> h < length g) ->
  heads_range g roots heads 0 hi flt = Some (spec_heads_range g roots heads flt) /\
  sdesc (spec_heads_range g roots heads flt) /\
  forall x, In x (spec_heads_range g roots heads flt) <->
    maximal_in g (fun y => y < length g /\ (exists h, In h heads /\ anc g y h) /\
                           ~ (exists r0, In r0 roots /\ anc g y r0) /\ flt y = true) x.
Proof. exact heads_range_thm. Qed.

(** ... and with ANY parent range (first parents only, all but the first, ...): the wanted
    walk follows only the parents in the range ([rpar]), the unwanted side uses full ancestry.
    The result is strictly descending and is a solution of the fixpoint characterisation
    [rsel]: x is returned iff it passes the filter, is neither an ancestor of a root nor a
    strict ancestor of a returned commit, and is reached from a head along followed parents
    through commits that are themselves neither unwanted nor passing the filter - and that
    characterisation has exactly one solution. *)
Theorem C18_heads_range_restricted : forall (g : graph) rs hs flt lo hi, wf g ->
  (exists r, heads_from_range_and_filter g rs hs lo hi flt = Some r /\ sdesc r /\
             forall x, In x r <-> rsel g rs hs flt lo hi r x) /\
  (forall r1 r2, (forall x, In x r1 <-> rsel g rs hs flt lo hi r1 x) ->
                 (forall x, In x r2 <-> rsel g rs hs flt lo hi r2 x) ->
                 forall x, In x r1 <-> In x r2).
Proof. exact heads_range_restricted_thm. Qed.

(** all_heads_pos: the positions that are nobody's parent = the maximal elements of the
    whole index, ascending. *)
Theorem C18_all_heads : forall (g : graph), wf g ->
  all_heads_pos g = rev (heads_of g (all_pos_desc g)) /\
  forall x, In x (all_heads_pos g) <-> x < length g /\ forall y, ~ In x (parents g y).
Proof. exact all_heads_thm. Qed.

(** The segment stack is the flat index the theorems above talk about: lookups by position
    and by id search the stack newest-first and hit exactly the flat entry; add_commit_data
    appends one entry whose parents are existing smaller positions (so [wf] is an invariant);
    squashing segments re-adds their entries in order and changes nothing in the flat index. *)
Theorem C18_abs_flat :
  (forall st pos, entry_by_pos st pos = nth_error (flat st) pos) /\
  (forall st id p, commit_id_to_pos st id = Some p ->
     p < length (flat st) /\ exists ps, nth_error (flat st) p = Some (id, ps)) /\
  (forall st id, commit_id_to_pos st id = None -> forall e, In e (flat st) -> fst e <> id) /\
  (forall st id pids st', add_commit_data st id pids = Some st' ->
     (flat st' = flat st /\ commit_id_to_pos st id <> None) \/
     (exists ps, flat st' = flat st ++ [(id, ps)] /\ (forall p, In p ps -> p < length (flat st)) /\
                 map (commit_id_to_pos st) pids = map Some ps)) /\
  (forall st id pids st', wf (flat_graph st) -> add_commit_data st id pids = Some st' ->
     wf (flat_graph st')) /\
  (forall files top, flat (squash_segs top files) = flat (top :: files) /\
     map (@length sentry) (squash_segs top files) =
     squash_sizes (length top) (map (@length sentry) files)).
Proof. exact abs_flat_thm. Qed.

(** merge_in (indexes of concurrent operations): the own entries keep their positions,
    entries are only appended, the index stays well-formed, and every commit of the other
    index is indexed afterwards. *)
Theorem C18_merge_in : forall st other st', merge_in st other = Some st' -> wf (flat_graph st) ->
  wf (flat_graph st') /\ (exists more, flat st' = flat st ++ more) /\
  (forall e, In e other -> commit_id_to_pos st' (fst e) <> None).
Proof. exact merge_thm. Qed.

(** maybe_squash_with_ancestors on segment sizes: no commit is lost, the newest written
    segment has fewer than half the commits of the one below it, and an observed transaction
    that the size model reproduces satisfies the checker's statement. *)
Theorem C18_squash :
  (forall files n, list_sum (squash_sizes n files) = n + list_sum files) /\
  (forall files n x y r, squash_sizes n files = x :: y :: r -> 2 * x < y) /\
  (forall o, level_corr o = true -> level_ok o = true).
Proof. exact squash_thm. Qed.

(** The segment file format (mutable.rs serialize_local_entries vs the reader of
    readonly.rs): every graph entry written reads back with its generation number, its
    parents — none, one, two inline, or any larger number through the bit-negated pointer
    into the overflow table — its change-id slot and its commit id, as long as positions and
    counts stay below the overflow flag (the writer's own assertions). [entry_ok] states
    those bounds and the fixed id length. *)
Theorem C18_codec_roundtrip : forall chg idlen es ovf graph povf,
  enc_entries chg es ovf = (graph, povf) ->
  Forall (entry_ok idlen) es -> (N.of_nat (length povf) < C18_OVERFLOW_FLAG)%N ->
  (forall e, In e es -> (index_of (ce_change e) chg 0 <= U32MAX)%N) ->
  forall i e, nth_error es i = Some e ->
    dec_entry idlen graph povf i =
      (ce_gen e, ce_parents e, index_of (ce_change e) chg 0, ce_id e).
Proof. exact entries_roundtrip. Qed.

(** The whole file: writing a segment (version, parent file name, counts, graph entries,
    sorted commit lookup, sorted change ids with inline / overflow positions, parent and
    change overflow tables) and reading it back with the reader's offset arithmetic yields
    the parent file name and every commit's generation, parents and id, under the writer's
    own bounds (u32 counts, positions below the overflow flag) and distinct commit ids. *)
Theorem C18_file_roundtrip : forall idlen chlen parent es graph povf cpos covf,
  let hl := change_lookup es in
  enc_entries (map fst hl) es [] = (graph, povf) -> enc_change_pos hl [] = (cpos, covf) ->
  Forall (entry_ok idlen) es -> (forall e, In e es -> length (ce_change e) = chlen) ->
  NoDup (map ce_id es) ->
  (N.of_nat (length parent) <= U32MAX)%N -> (N.of_nat (length es) <= U32MAX)%N ->
  (N.of_nat (length hl) <= U32MAX)%N -> (N.of_nat (length povf) < C18_OVERFLOW_FLAG)%N ->
  (N.of_nat (length covf) <= U32MAX)%N ->
  decode_file idlen chlen (encode_file parent es) =
  Some (parent, map (fun e => (ce_gen e, ce_parents e, ce_id e)) es).
Proof. exact file_roundtrip. Qed.

(** The checker run on the implementation's recorded answers: acceptance means the answer
    satisfies the declarative graph statement ... *)
Theorem C18_checker_sound : forall (g : graph) (q : query), wf g ->
  query_ok g q = true -> query_holds g q.
Proof. exact query_ok_sound. Qed.

(** For a HeadsRange answer with a restricted parent range the checker evaluates the
    characterisation of [C18_heads_range_restricted] on the answer itself; acceptance means the
    answer is a solution - hence, by uniqueness, the solution. *)
Theorem C18_checker_sound_restricted : forall g rs hs lo hi fs r, wf g ->
  (lo =? 0) && forallb (fun ps => length ps <=? hi) g = false ->
  query_ok g (QHeadsRange rs hs lo hi fs r) = true ->
  let rs' := dedup_adj (heap_from rs) in
  let hs' := filter (fun h => negb (memn h rs')) (dedup_adj (heap_from hs)) in
  forall x, In x r <->
    rsel g rs' hs' (match fs with Some l => fun x => memn x l | None => fun _ => true end) lo hi r x.
Proof. exact heads_range_query_sound. Qed.

(** ... and for in-range arguments it accepts an answer iff it is the model's answer. *)
Theorem C18_model_is_checker : forall (g : graph) (q : query), wf g ->
  match q with
  | QAnc a d _ => d < length g /\ a < length g
  | QHeads c _ => forall x, In x c -> x < length g
  | QCommon s1 s2 _ => (forall x, In x s1 -> x < length g) /\ (forall x, In x s2 -> x < length g)
  | QHeadsRange _ _ _ _ _ _ => False
  | _ => True
  end ->
  query_corr g q = query_ok g q.
Proof. exact query_corr_iff_ok. Qed.

Check C18_is_ancestor : forall (g : graph) (a d : nat), wf g -> d < length g ->
  exists b, is_ancestor_pos g a d = Some b /\ (b = true <-> anc g a d).
Check C18_heads : forall (g : graph) (cands : list nat), wf g ->
  exists r, heads g cands = Some r /\ sdesc r /\
    forall x, In x r <-> maximal_in g (fun y => In y cands) x.
Check C18_common_ancestors : forall (g : graph) (s1 s2 : list nat), wf g ->
  (forall s, In s s1 -> s < length g) ->
  exists r, common_ancestors_pos g s1 s2 = Some r /\ sdesc r /\
    forall x, In x r <-> maximal_in g (common_of g s1 s2) x.

(** Criss-cross with an octopus merge on top: two greatest common ancestors. *)
Example C18_nonvacuous :
  let g := [[]; [0]; [0]; [1; 2]; [2; 1]; [3]; [4]; [5; 6; 0]] in
  wfb g = true
  /\ common_ancestors_pos g [5] [6] = Some [2; 1]
  /\ is_ancestor_pos g 2 5 = Some true /\ is_ancestor_pos g 3 6 = Some false
  /\ heads g [1; 5; 3; 6; 1] = Some [6; 5]
  /\ gens g = [0; 1; 1; 2; 2; 3; 3; 4]
  /\ all_heads_pos g = [7]
  /\ saved_levels 3 [4; 20] = [7; 20] /\ saved_levels 1 [4; 20] = [1; 4; 20]
  /\ saved_levels 0 [4; 20] = [4; 20].
Proof. vm_compute. repeat split. Qed.

Print Assumptions C18_is_ancestor.
Print Assumptions C18_heads.
Print Assumptions C18_common_ancestors.
Print Assumptions C18_generation.
Print Assumptions C18_codec_roundtrip.
Print Assumptions C18_file_roundtrip.
Print Assumptions C18_abs_flat.
Print Assumptions C18_heads_range.
Print Assumptions C18_heads_range_restricted.
