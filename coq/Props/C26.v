(** C26 — Edits after a command finished are always detected.
    Model/C26.v transcribes FileState::is_clean, the [mtime < own_mtime] rule of
    get_updated_tree_value, TreeState::init/load/save/update_own_mtime and the snapshot's
    handling of one path (lib/src/local_working_copy.rs). [g] is ANY monotone map from the real
    time of a write to the millisecond stamp jj later reads (file-system granularity composed
    with jj's truncation); file and tree_state stamps come from that one clock. *)
From Verif Require Import Base.Prelude Model.C26 Proofs.C26.
Local Open Scope N_scope.

Section Statements.
  Context (g : N -> N).
  Hypothesis g_mono : forall a b, a <= b -> g a <= g b.

  (** The rule in one line: a file stamped at real time [e >= t_save] is never judged clean by
      a process whose own_mtime is the stamp of a tree_state file written at [t_save] —
      whatever state was recorded for it, whatever its type and size. *)
  Theorem C26_rule : forall (cur : option fstate) (t_save e : N) (ty : ftype) (sz : N),
    t_save <= e -> clean_verdict (g t_save) cur (mk_fstate ty (g e) sz) = false.
  Proof. exact (detected_direct g g_mono). Qed.

  (** History form. After ANY history [evs] (writes, chmods, deletes, loads, snapshots, saves
      in any order, in-command edits included), a save at [t_s], then only external events [ws]
      among which at least one write or delete (all at times >= t_s, same size or not), the
      snapshot of a freshly loaded process records exactly what is on disk: content, length,
      exec bit in the tree, and the new stat in the file state. *)
  Theorem C26_detected : forall t0 evs t_s ws t_l t_n,
    timed (evs ++ EvSave t_s :: ws ++ [EvLoad t_l; EvSnapshot t_n]) t0 ->
    forallb external ws = true -> existsb content_edit ws = true ->
    let w := run g (evs ++ EvSave t_s :: ws ++ [EvLoad t_l]) (init_world g t0) in
    obs_of (step g (EvSnapshot t_n) w) = expected (w_file w).
  Proof. exact (detected_reload g g_mono). Qed.

  (** The same for the process that did the save and keeps its TreeState in memory
      (save() leaves the OLD tree_state's stamp in own_mtime). *)
  Theorem C26_detected_in_process : forall t0 evs t_s ws t_n,
    timed (evs ++ EvSave t_s :: ws ++ [EvSnapshot t_n]) t0 ->
    forallb external ws = true -> existsb content_edit ws = true ->
    let w := run g (evs ++ EvSave t_s :: ws) (init_world g t0) in
    obs_of (step g (EvSnapshot t_n) w) = expected (w_file w).
  Proof. exact (detected_in_process g g_mono). Qed.

  (** In every reachable world: in-memory own_mtime <= the tree_state file's stamp (what a
      reload would use) <= the stamp of the present moment; and a smaller own_mtime can only
      turn clean verdicts into re-reads. *)
  Theorem C26_in_process_conservative : forall t0 evs,
    timed evs t0 ->
    let w := run g evs (init_world g t0) in
    m_own (w_mem w) <= sf_mtime (w_sfile w) /\ sf_mtime (w_sfile w) <= g (w_now w).
  Proof. exact (in_process_conservative g g_mono). Qed.

  (** If, in addition, no external write/delete ever falls between a snapshot and the save that
      persists it (no edit while a jj command runs), EVERY snapshot of the history is exact. *)
  Theorem C26_no_stale_clean : forall t0 evs,
    disciplined evs t0 (mk_sync true true) = true ->
    run_obs g evs (init_world g t0) = exact_obs g evs None.
  Proof. exact (no_stale_clean g g_mono). Qed.

  (** The run-time checker: every claim it derives from the events alone is met by the model,
      for every trace (timed or not, disciplined or not). *)
  Theorem C26_claims_sound : forall t0 evs,
    claims_hold (claims g evs t0 None know_init) (run_obs g evs (init_world g t0)) = true.
  Proof. exact (claims_sound g g_mono). Qed.
End Statements.

Theorem C26_verdict_monotone : forall own1 own2 cur new,
  own1 <= own2 -> clean_verdict own1 cur new = true -> clean_verdict own2 cur new = true.
Proof. exact verdict_monotone. Qed.

(** Files whose recorded mtime equals own_mtime are always re-read. *)
Theorem C26_equal_mtime_reread : forall own cur new,
  fs_mtime cur = own -> clean_verdict own (Some cur) new = false.
Proof. exact equal_mtime_reread. Qed.

(** A clean verdict means exactly: same type, mtime and size as recorded, and the recorded
    mtime is strictly older than own_mtime. *)
Theorem C26_verdict_spec : forall own cur new,
  clean_verdict own cur new = true <-> cur = Some new /\ fs_mtime new < own.
Proof. exact clean_verdict_spec. Qed.

(** Truncation to any unit is monotone, so the theorems apply to the [g] used for running. *)
Theorem C26_gran_monotone : forall u a b, a <= b -> gran u a <= gran u b.
Proof. exact gran_mono. Qed.

Theorem C26_checker_accepts_model : forall u t0 evs,
  okb (mk_case u t0 evs (run_obs (gran u) evs (init_world (gran u) t0)) false) = true.
Proof. exact okb_model. Qed.

Check C26_rule : forall g, (forall a b, a <= b -> g a <= g b) ->
  forall cur t_save e ty sz, t_save <= e ->
  clean_verdict (g t_save) cur (mk_fstate ty (g e) sz) = false.
Check C26_detected : forall g, (forall a b, a <= b -> g a <= g b) ->
  forall t0 evs t_s ws t_l t_n,
  timed (evs ++ EvSave t_s :: ws ++ [EvLoad t_l; EvSnapshot t_n]) t0 ->
  forallb external ws = true -> existsb content_edit ws = true ->
  let w := run g (evs ++ EvSave t_s :: ws ++ [EvLoad t_l]) (init_world g t0) in
  obs_of (step g (EvSnapshot t_n) w) = expected (w_file w).

(** Non-vacuity: with 1 s granularity, a file written, snapshotted, saved and then edited (same
    size) all within one second is re-read, by a reloaded process and by the same process. *)
Example C26_nonvacuous :
  let g := gran 1000 in
  let pre := [EvWrite 1100 false 1 4; EvLoad 1200; EvSnapshot 1300] in
  let ws := [EvWrite 1500 false 2 4] in
  timed (pre ++ EvSave 1400 :: ws ++ [EvLoad 1600; EvSnapshot 1700]) 1000
  /\ obs_of (run g (pre ++ EvSave 1400 :: ws ++ [EvLoad 1600; EvSnapshot 1700]) (init_world g 1000))
     = mk_obs (Some (mk_tval 2 4 false)) (Some (mk_fstate (FNormal false) 1000 4))
  /\ obs_of (run g (pre ++ EvSave 1400 :: ws ++ [EvSnapshot 1700]) (init_world g 1000))
     = mk_obs (Some (mk_tval 2 4 false)) (Some (mk_fstate (FNormal false) 1000 4))
  /\ disciplined (pre ++ EvSave 1400 :: ws ++ [EvLoad 1600; EvSnapshot 1700]) 1000
       (mk_sync true true) = true.
Proof. vm_compute. repeat split; try reflexivity; discriminate. Qed.

(** The discipline hypothesis of [C26_no_stale_clean] is needed: an edit made while a command
    runs — after its snapshot was saved (1400) but before a later save of the same command that
    does not snapshot again (checkout: load 2100, save 2200) — keeps the old stamp's second,
    and the next snapshot (2400) judges the file clean although content 2 is on disk. This is
    outside C26's statement (the edit precedes the last save). *)
Example C26_in_command_edit_missed :
  let g := gran 1000 in
  let evs := [EvWrite 1100 false 1 4; EvLoad 1200; EvSnapshot 1300; EvSave 1400;
              EvWrite 1500 false 2 4; EvLoad 2100; EvSave 2200; EvLoad 2300; EvSnapshot 2400] in
  timed evs 1000
  /\ w_file (run g evs (init_world g 1000)) = Some (mk_dfile false 2 4 1000)
  /\ obs_of (run g evs (init_world g 1000))
     = mk_obs (Some (mk_tval 1 4 false)) (Some (mk_fstate (FNormal false) 1000 4))
  /\ disciplined evs 1000 (mk_sync true true) = false.
Proof. vm_compute. repeat split; try reflexivity; discriminate. Qed.

Print Assumptions C26_detected.
Print Assumptions C26_detected_in_process.
Print Assumptions C26_no_stale_clean.
Print Assumptions C26_claims_sound.
