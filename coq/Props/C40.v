(** C40 — Working-copy changes are never lost by commands.

    Model (Model/C40.v): operations (parents, tree of each workspace's working-copy commit),
    operation heads, and per workspace the disk, the tree and the operation recorded in the
    working-copy state.  A command is: load at the head, [check_stale]
    (fresh / updated / stale / sibling), snapshot (a snapshot operation iff the disk differs
    from the working-copy commit), the command's own operations, checkout of the new
    working-copy commit and recording of the last operation; with the variants
    [--ignore-working-copy], [--at-op] (whose operation becomes a second head, merged by the
    next command), [workspace update-stale], [workspace add] and the branch for a workspace that
    is not in the loaded view.  [accept] replays one observed CLI step: the
    model must reproduce the observed heads and every workspace's (disk, tree, operation).
    Trees are abstract values: equal numbers = equal file states. *)
From Verif Require Import Base.Prelude Model.C42 Model.C40 Proofs.C42 Proofs.C40.
From Coq Require Import Arith.
Import ListNotations.

(** In every accepted run over any number of workspaces, for every command (anything but a
    user edit) and every workspace: the workspace still exists afterwards, and either its disk
    is untouched, or it is the invoking workspace and its disk state at command start is the
    tree of that workspace's working-copy commit in an operation that exists when the
    command's snapshot phase is over (an earlier operation, or the first operation the command
    adds — the first two for [update-stale] and for the recovery of a working copy whose
    operation is lost, where a recovery operation precedes the snapshot — i.e. before the
    command's own operations and its checkout) — or the invoking
    workspace is absent from the view of the operation the command loads (known finding
    [workspace-absent-from-view]). *)
Theorem C40_recorded_before_overwrite : forall (evs : list event) (st stf : state),
  run st evs = Some stf ->
  run_prop (fun st ev =>
    e_kind ev <> KEdit ->
    forall w ws, lookupN w (s_ws st) = Some ws ->
    exists ws', lookupN w (e_ws_post ev) = Some ws'
      /\ (w_disk ws' = w_disk ws
          \/ (w = e_ws ev
              /\ ((exists i, tree_of (s_ops st ++ firstn (early_n ev) (e_ops ev)) i w = Some (w_disk ws))
                  \/ absent_from_view st w = true)))) st evs.
Proof. exact run_step_safe. Qed.

(** Operations are never removed, so at the end of the run every overwritten disk state can
    still be found in the operation log. *)
Theorem C40_recoverable_at_end : forall (evs : list event) (st stf : state),
  run st evs = Some stf ->
  run_prop (fun st ev =>
    e_kind ev <> KEdit ->
    forall w ws ws', lookupN w (s_ws st) = Some ws -> lookupN w (e_ws_post ev) = Some ws' ->
      w_disk ws' <> w_disk ws ->
      (exists i, tree_of (s_ops stf) i w = Some (w_disk ws))
      \/ (w = e_ws ev /\ absent_from_view st w = true)) st evs.
Proof. exact run_recoverable. Qed.

(** The snapshot phase: after it, the operation the command continues from records the disk,
    and it is an old operation or the first new one. *)
Theorem C40_snapshot_phase : forall ops L w d news cur body bidx,
  snapshot_phase ops L w d news = Some (cur, body, bidx) ->
  tree_of (ops ++ firstn 1 news) cur w = Some d.
Proof. exact snapshot_phase_recorded. Qed.

(** A stale or sibling working copy makes the command abort without adding an operation or
    touching any workspace. *)
Theorem C40_stale_aborts : forall (st st' : state) (ev : event) (h : nat) (ws : wsst),
  accept st ev = Some st' -> s_heads st = [h] ->
  lookupN (e_ws ev) (s_ws st) = Some ws ->
  (e_kind ev = KNormal \/ exists nw, e_kind ev = KWorkspaceAdd nw) ->
  tree_of (s_ops st) h (e_ws ev) <> None ->
  (check_stale (s_ops st) ws h (e_ws ev) = FStale \/ check_stale (s_ops st) ws h (e_ws ev) = FSibling) ->
  e_ops ev = [] /\ e_ws_post ev = s_ws st.
Proof. intros st st' ev. exact (accept_stale_aborts st ev st'). Qed.

(** Recovery of a working copy whose operation is lost ([jj workspace update-stale] after
    [jj op abandon] and [jj util gc]): the disk is not touched, and after the command the
    workspace records exactly the disk it found — which the last of at most two new operations
    (recovery, then snapshot) has as the workspace's working-copy tree. *)
Theorem C40_recovery_keeps_disk : forall (st : state) (ev : event) (h : nat) (ws : wsst) hs x extra,
  exp_recover st ev h ws false = Some (hs, Some x, extra) ->
  w_disk x = w_disk ws /\ w_tree x = w_disk ws
  /\ tree_of (s_ops st ++ e_ops ev) (w_op x) (e_ws ev) = Some (w_disk ws).
Proof. exact recover_keeps_disk. Qed.

(** Meaning of the direct oracle evaluated on the real observations ([rec] enumerates
    (operation, workspace, tree of its working-copy commit) over the whole final operation
    log): every workspace whose disk changed during a command, and the invoking workspace of
    every successful snapshotting command, has its pre-command disk state in an operation that
    exists when the command ends — unless (non-strict only) it is the invoking workspace and
    it is absent from the loaded view; and no command ended in a panic or internal error
    (status 3). *)
Theorem C40_checker_sound : forall (strict : bool) (rec : list (nat * N * N)) (evs : list event) (st : state),
  run_okb strict rec st evs = true ->
  (fix ok (st : state) (evs : list event) : Prop :=
     match evs with
     | [] => True
     | ev :: t =>
         (e_kind ev <> KEdit ->
          e_status ev <> 3%N /\
          forall w ws, lookupN w (s_ws st) = Some ws ->
            ((match lookupN w (e_ws_post ev) with
              | Some ws' => w_disk ws' <> w_disk ws
              | None => True
              end)
             \/ (w = e_ws ev /\ e_status ev = 0%N /\ absent_from_view st w = false
                 /\ snap_kind (e_kind ev) = true)) ->
            (exists i, i < length (s_ops st) + length (e_ops ev) /\ In (i, w, w_disk ws) rec)
            \/ (strict = false /\ w = e_ws ev /\ absent_from_view st w = true))
         /\ ok (mk_state (s_ops st ++ e_ops ev) (e_heads ev) (e_ws_post ev) (lost_after st ev)) t
     end) st evs.
Proof.
  intros strict rec evs. induction evs as [|ev t IH]; intros st H; cbn [run_okb] in H; [exact I|].
  apply andb_true_iff in H. destruct H as [H1 H2]. split; [|now apply IH].
  exact (event_okb_spec strict rec st ev H1).
Qed.

(** Every trace the model accepts passes the non-strict oracle, whenever [rec] lists at least
    what the final operation list records (which [check_case] verifies against the independent
    enumeration of the real operation log). *)
Theorem C40_accepted_runs_ok : forall (rec : list (nat * N * N)) (evs : list event) (st stf : state),
  run st evs = Some stf ->
  (forall i w d, tree_of (s_ops stf) i w = Some d -> In (i, w, d) rec) ->
  run_okb false rec st evs = true.
Proof. exact run_accept_okb. Qed.

(** Without the hypothesis on the view the statement is false of the faithful model: a
    command run in a workspace that the loaded view does not contain skips the snapshot and
    still checks out (known finding, class [workspace-absent-from-view]). *)
Definition C40_full : Prop := forall (st st' : state) (ev : event),
  accept st ev = Some st' -> e_kind ev <> KEdit ->
  forall w ws, lookupN w (s_ws st) = Some ws ->
  exists ws', lookupN w (s_ws st') = Some ws'
    /\ (w_disk ws' = w_disk ws
        \/ exists i, tree_of (s_ops st ++ firstn (early_n ev) (e_ops ev)) i w = Some (w_disk ws)).

Definition witness_state : state :=
  mk_state [mk_op [] []; mk_op [0] [(0%N, 0%N)]] [1]
           [(0%N, mk_ws 0 0 1); (1%N, mk_ws 7 5 1)] [].
Definition witness_event : event :=
  mk_event 1%N KNormal 0%N [mk_op [1] [(0%N, 0%N); (1%N, 9%N)]] [2]
           [(0%N, mk_ws 0 0 1); (1%N, mk_ws 8 9 2)].

Theorem C40_full_refuted : ~ C40_full.
Proof.
  intros H.
  assert (A : accept witness_state witness_event
              = Some (mk_state [mk_op [] []; mk_op [0] [(0%N, 0%N)]; mk_op [1] [(0%N, 0%N); (1%N, 9%N)]]
                               [2] [(0%N, mk_ws 0 0 1); (1%N, mk_ws 8 9 2)] []))
    by (vm_compute; reflexivity).
  assert (K : e_kind witness_event <> KEdit) by (cbn; discriminate).
  destruct (H _ _ _ A K 1%N (mk_ws 7 5 1) eq_refl) as [ws' [L [D|[i D]]]].
  - cbn in L. inversion L. subst ws'. cbn in D. discriminate.
  - cbn in D. destruct i as [|[|[|i]]]; cbn in D; try discriminate.
    destruct i; discriminate.
Qed.

(** Non-vacuity: edit, command with a snapshot operation and a checkout; a command with
    [--ignore-working-copy] that makes the workspace stale; the stale error; update-stale. *)
Example C40_nonvacuous :
  let st0 := mk_state [mk_op [] []; mk_op [0] [(0%N, 0%N)]] [1] [(0%N, mk_ws 0 0 1)] [] in
  let e1 := mk_event 0%N KEdit 0%N [] [1] [(0%N, mk_ws 1 0 1)] in
  let e2 := mk_event 0%N KNormal 0%N [mk_op [1] [(0%N, 1%N)]; mk_op [2] [(0%N, 0%N)]] [3]
                     [(0%N, mk_ws 0 0 3)] in
  let e3 := mk_event 0%N KIgnoreWc 0%N [mk_op [3] [(0%N, 1%N)]] [4] [(0%N, mk_ws 0 0 3)] in
  let e4 := mk_event 0%N KEdit 0%N [] [4] [(0%N, mk_ws 2 0 3)] in
  let e5 := mk_event 0%N KNormal 1%N [] [4] [(0%N, mk_ws 2 0 3)] in
  let e6 := mk_event 0%N KUpdateStale 0%N
                     [mk_op [3] [(0%N, 2%N)]; mk_op [4; 5] [(0%N, 1%N)]] [6] [(0%N, mk_ws 1 1 6)] in
  (exists stf, run st0 [e1; e2; e3; e4; e5; e6] = Some stf)
  /\ run_okb true [(1, 0%N, 0%N); (2, 0%N, 1%N); (3, 0%N, 0%N); (4, 0%N, 1%N); (5, 0%N, 2%N); (6, 0%N, 1%N)]
             st0 [e1; e2; e3; e4; e5; e6] = true
  /\ check_stale [mk_op [] []; mk_op [0] [(0%N, 0%N)]; mk_op [1] [(0%N, 1%N)]; mk_op [2] [(0%N, 0%N)];
                  mk_op [3] [(0%N, 1%N)]] (mk_ws 2 0 3) 4 0%N = FStale.
Proof. vm_compute. repeat split; eauto. Qed.

Print Assumptions C40_recorded_before_overwrite.
Print Assumptions C40_recoverable_at_end.
Print Assumptions C40_accepted_runs_ok.
Print Assumptions C40_full_refuted.
