(** C15 — A crash at any point leaves a loadable repo and loses no committed operation.

    Model: Model/C15.v. A command is the ordered list of its durable effects; killing the
    process before effect k+1 leaves [crash_state d l k] (environment, NOT proved: rename,
    unlink and creat of one directory entry are atomic with respect to process death; a
    content-addressed name is bound only by the rename of a completely written, synced temp
    file; what a dead process wrote stays visible — power loss is out of scope).
    [accept g d l] is the ordering discipline the theorems need; the check verifies it on the
    effect sequence of every real command run (trace acceptance). *)
From Verif Require Import Base.Prelude Base.SchedS Model.C14 Proofs.C14 Model.C15 Proofs.C15.

(** Every prefix of an accepted command is a safe place to die: the repo loads (there is a
    head, every ancestor of every head is a bound operation object), every operation that was
    reachable from the heads before the command still is, the heads are ancestors of the
    newest one (so loading needs no merge and yields [current]), and the operation the
    working copy records is bound and still reachable. *)
Theorem C15_prefix_safe : forall g chg d l d' k,
  wf_dag g -> Good g d -> accept g chg d l = Some d' ->
  let dk := crash_state chg d l k in
  loadable g dk
  /\ (forall x, Cov g (d_heads d) x -> Cov g (d_heads dk) x)
  /\ (forall h, In h (d_heads dk) -> anc g h (current dk))
  /\ In (d_checkout dk) (d_ops dk) /\ Cov g (d_heads dk) (d_checkout dk).
Proof.
  intros g chg d l d' k Hwf HG Hacc dk.
  destruct (accept_prefix_Good g chg l d d' Hwf HG Hacc k) as [HG' Hcov].
  split; [apply Good_loadable; exact HG'|]. split; [exact Hcov|].
  destruct HG' as (_ & _ & _ & Hlin & Hco & Hcc & _). auto.
Qed.

(** Before-or-after: the current operation after a crash is the head from before the command
    or an operation the command itself had already published (recorded by add_op_head in
    the applied prefix); commands that snapshot first publish two operations. *)
Theorem C15_before_or_after : forall g chg d l d' k,
  wf_dag g -> Good g d -> accept g chg d l = Some d' ->
  let dk := crash_state chg d l k in
  In (current dk) (d_heads d) \/ In (EHeadAdd (current dk)) (firstn k l).
Proof.
  intros g chg d l d' k Hwf HG Hacc dk. apply (heads_origin chg).
  destruct (accept_prefix_Good g chg l d d' Hwf HG Hacc k) as [(Hne & _) _].
  apply newest_in. exact Hne.
Qed.

(** No torn object: an operation name is bound after a crash only if it was bound before the
    command or the one rename that binds it is in the applied prefix; together with the
    discipline ([EOp] needs its view bound first, [EHeadAdd] needs [EOp]) a reader never
    follows a head to a missing or half-written operation. *)
Theorem C15_no_torn_object : forall chg l d k n,
  In n (d_ops (crash_state chg d l k)) -> In n (d_ops d) \/ In (EOp n) (firstn k l).
Proof. exact ops_origin. Qed.

(** Working copy. finish() saves tree_state BEFORE it rebinds checkout (the discipline rejects
    the other order). Hence after ANY prefix of an accepted command: either checkout still
    names an operation other than the current one — the stale path: check_stale compares the
    trees and `workspace update-stale` resynchronises — or tree_state already describes the
    current operation's tree. A checkout that names the current operation over an older
    tree_state (which check_stale would take for "fresh") never exists. *)
Theorem C15_wc_recoverable : forall g chg d l d' k,
  wf_dag g -> Good g d -> accept g chg d l = Some d' ->
  let dk := crash_state chg d l k in
  (d_checkout dk <> current dk \/ d_ts dk = current dk)
  /\ wc_synced (recover dk) = true
  /\ d_heads (recover dk) = d_heads dk /\ d_ops (recover dk) = d_ops dk.
Proof.
  intros g chg d l d' k Hwf HG Hacc dk.
  destruct (accept_prefix_Good g chg l d d' Hwf HG Hacc k) as [(_ & _ & _ & _ & _ & _ & Hwc) _].
  split; [exact Hwc|]. split; [apply recover_synced|split; reflexivity].
Qed.

(** The swapped order is not accepted: checkout cannot be rebound while tree_state still
    describes another operation's tree, nor while working-copy files written since the last
    tree_state save are unrecorded (concrete swapped traces: C15_nonvacuous). *)
Theorem C15_checkout_needs_tree_state : forall g chg d r,
  d_ts d <> newest (d_heads d) \/ d_wc_dirty d <> [] ->
  accept g chg d (ECheckout :: r) = None.
Proof.
  intros g chg d r H. cbn [accept allowed].
  destruct H as [H|H].
  - apply Nat.eqb_neq in H. rewrite H. rewrite Bool.andb_false_r. reflexivity.
  - destruct (d_wc_dirty d); [congruence|]. rewrite Bool.andb_false_r. reflexivity.
Qed.

(** The initial disk of a case satisfies the theorems' hypothesis when the checker's
    conditions hold (used with [loadableb] on the real observations). *)
Theorem C15_loadableb_sound : forall g d, wf_dag g -> loadableb g d = true -> loadable g d.
Proof. exact loadableb_sound. Qed.

(** What the correspondence check establishes for one real command run: if the recorded
    effect sequence is accepted from the recorded initial state, every crash point of THAT
    run is safe in the sense of the theorems above. *)
Theorem C15_case_safe : forall c d' k,
  init_okb c = true -> accept (c_dag c) (c_wc_changed c) (disk_before c) (c_effects c) = Some d' ->
  let dk := crash_state (c_wc_changed c) (disk_before c) (c_effects c) k in
  loadable (c_dag c) dk
  /\ (forall x, anc (c_dag c) x (c_head_before c) -> Cov (c_dag c) (d_heads dk) x)
  /\ (current dk = c_head_before c \/ In (EHeadAdd (current dk)) (firstn k (c_effects c)))
  /\ (d_checkout dk <> current dk \/ d_ts dk = current dk).
Proof.
  intros c d' k Hi Hacc dk.
  assert (Hwf : wf_dag (c_dag c)).
  { unfold init_okb in Hi. rewrite !Bool.andb_true_iff in Hi. apply wf_dagb_sound. tauto. }
  pose proof (disk_before_Good c Hi) as HG.
  destruct (C15_prefix_safe _ _ _ _ _ k Hwf HG Hacc) as (H1 & H2 & _).
  split; [exact H1|]. split; [|split].
  - intros x Hx. apply H2. exists (c_head_before c). split; [left; reflexivity|exact Hx].
  - destruct (C15_before_or_after _ _ _ _ _ k Hwf HG Hacc) as [[H|[]]|H]; [left; symmetry; exact H|right; exact H].
  - apply (C15_wc_recoverable _ _ _ _ _ k Hwf HG Hacc).
Qed.

Check C15_prefix_safe.
Check C15_before_or_after.

(** Non-vacuity: the effect sequence of a real `jj new` (scenario 0 of the harness) is
    accepted; killing it between add_op_head and remove leaves two heads, current = new. *)
Example C15_nonvacuous :
  let g := [[]; [0]; [1]; [2]] in
  let d := mk_disk [0; 1; 2] [2] 2 [] 0 2 in
  let l := [ETreeState; EObj; ETabAdd; ETabRemove; EObj; EOp 3; EObj; ELink 3; EHeadAdd 3;
            EHeadRemove 2; ECheckout] in
  (exists d', accept g [] d l = Some d')
  /\ d_heads (crash_state [] d l 9) = [2; 3] /\ current (crash_state [] d l 9) = 3
  /\ d_checkout (crash_state [] d l 10) = 2 /\ wc_synced (crash_state [] d l 11) = true
  /\ accept g [] d [EObj; EHeadAdd 3] = None
  (* the working-copy tree changes at op 3: checkout may not be rebound before tree_state *)
  /\ accept g [3] d [EObj; EOp 3; EHeadAdd 3; EHeadRemove 2; EWcWrite 0; ECheckout; ETreeState] = None
  /\ accept g [3] d [EObj; EOp 3; EHeadAdd 3; EHeadRemove 2; ECheckout; ETreeState] = None
  /\ (exists d', accept g [3] d [EObj; EOp 3; EHeadAdd 3; EHeadRemove 2; EWcWrite 0; ETreeState; ECheckout] = Some d').
Proof.
  cbv zeta. split; [eexists; vm_compute; reflexivity|].
  repeat split; try (vm_compute; reflexivity). eexists; vm_compute; reflexivity.
Qed.

Print Assumptions C15_prefix_safe.
Print Assumptions C15_before_or_after.
Print Assumptions C15_no_torn_object.
