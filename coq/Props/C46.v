(** C46 — Evolution history is complete and acyclic.
    Model/C46.v transcribes lib/src/evolution.rs [walk_predecessors] (the in-place splice
    loop of [visit_op], the single-entry fast path, [flush_commits]) and the iterative
    depth-first sort of core/src/dag_walk.rs that [visit_op] calls.  Operations are given in
    the order [op_walk::walk_ancestors] yields them (newest first). *)
From Coq Require Import Relations Lia.
From Verif Require Import Base.Prelude Model.C46 Proofs.C46Scan Proofs.C46Topo Proofs.C46 Proofs.C46Gen.

(** The walk never runs out of the fuel the model gives its two loops, for ANY list of
    operations and any predecessor maps (cyclic, duplicated, dangling): it ends with
    [Done] or with the error value [Cycle c]. *)
Theorem C46_terminates : forall (ops : list (option pmap)) (start : list N),
  snd (walk_predecessors ops start) <> OutOfFuel.
Proof. intros. apply walk_no_fuel. Qed.

(** The loops themselves: the stated fuel suffices for every input. *)
Theorem C46_loops_terminate : forall (m : pmap) (l : list N),
  scan m l <> None /\ topo_reverse m l <> None.
Proof. intros. split; [apply scan_terminates|apply topo_terminates]. Qed.

(** Operations behind one that stores no predecessor records play no role. *)
Theorem C46_legacy_truncation : forall ops start,
  walk_predecessors ops start = walk_predecessors (map Some (some_prefix ops)) start.
Proof. intros. apply walk_some_prefix. Qed.

(** If every recorded rewrite increases some rank (the predecessor relation inside each
    operation is acyclic), no cycle is reported. *)
Theorem C46_acyclic_done : forall (rank : N -> nat) ops start,
  Ranked rank (some_prefix ops) -> snd (walk_predecessors ops start) = Done.
Proof.
  intros rank ops start H. unfold walk_predecessors. rewrite walk_some_prefix.
  now apply walk_ranked_done with (rank := rank).
Qed.

(** A reported cycle is real: the commit lies on a cycle of predecessor edges recorded by one
    of the operations (so the error is never a false alarm, with or without [WF]). *)
Theorem C46_cycle_sound : forall ops start c,
  snd (walk_predecessors ops start) = Cycle c ->
  exists m, In (Some m) ops /\ clos_trans_1n N (edge m) c c.
Proof. intros ops start c H. exact (walk_cycle_sound ops 0 start c H). Qed.

(** Completeness and uniqueness.  [WF]: a commit is recorded by at most one operation and
    recorded predecessors are never commits recorded by a newer operation.  Then the walk
    lists exactly the commits reachable from the start commits through recorded
    predecessor edges, each exactly ONCE; commits listed without an operation are recorded
    nowhere; and when every reachable commit is recorded somewhere ([Closed]) every entry
    is attributed to an operation. *)
Theorem C46_complete_once : forall ops start out,
  let ms := some_prefix ops in
  WF ms -> walk_predecessors ops start = (out, Done) ->
  (forall x, In x (map fst out) <-> greach_from ms start x)
  /\ NoDup (map fst out)
  /\ (forall c, In (c, None) out -> ~ key_any ms c)
  /\ (Closed ms start -> forallb tagged out = true).
Proof.
  intros ops start out ms W H. unfold walk_predecessors in H. rewrite walk_some_prefix in H.
  fold ms in H. pose proof (walk_spec ms 0 start out W H) as [Hsnd Hcmp Htag Hunt Hnd Hnda Hord].
  split; [|split; [assumption|split; [assumption|]]].
  - intros x. split; [|apply Hcmp]. intros Hx. apply in_map_iff in Hx.
    destruct Hx as ([c tag] & <- & Hin). eapply Hsnd; eauto.
  - intros C. exact (walk_closed_all_tagged ms start out W C H).
Qed.

(** Order: an entry comes before every predecessor its operation recorded for it, and
    none of them comes earlier — each commit is listed after all of its own rewrites. *)
Theorem C46_topological : forall ops start out,
  let ms := some_prefix ops in
  WF ms -> walk_predecessors ops start = (out, Done) ->
  forall l1 c j l2, out = l1 ++ (c, Some j) :: l2 ->
  exists m', nth_error ms (N.to_nat j) = Some m' /\ is_key m' c = true
             /\ forall p, In p (nbrs m' c) -> In p (map fst l2) /\ ~ In p (map fst l1).
Proof.
  intros ops start out ms W H l1 c j l2 E. unfold walk_predecessors in H.
  rewrite walk_some_prefix in H. fold ms in H.
  pose proof (walk_spec ms 0 start out W H) as [Hsnd Hcmp Htag Hunt Hnd Hnda Hord].
  assert (Hin : In (c, Some j) out) by (rewrite E; apply in_or_app; right; now left).
  destruct (Htag c j Hin) as (i & m' & Ej & Hn & Hk).
  assert (N.to_nat j = i) as -> by (subst j; rewrite N.add_0_l; apply Nat2N.id).
  exists m'. split; [assumption|]. split; [assumption|].
  intros p Hp. eapply Hord; eauto.
Qed.

(** The boolean well-formedness test of the checker implies [WF] and acyclicity. *)
Theorem C46_wfb_sound : forall ms, wfb ms = true -> WF ms /\ Ranked N.to_nat ms.
Proof. exact wfb_sound. Qed.

Theorem C46_closedb_sound : forall ms start, closedb ms start = true -> Closed ms start.
Proof. exact closedb_sound. Qed.

(** Meaning of the checker that is run on the IMPLEMENTATION's output: on a well-formed
    history an accepted list contains every reachable commit, no attributed commit twice,
    and every entry's recorded predecessors strictly later. *)
Theorem C46_checker_sound : forall ms start out,
  WF ms -> out_okb ms start out = true ->
  (forall x, greach_from ms start x -> In x (map fst out))
  /\ NoDup (map fst (filter tagged out))
  /\ (forall l1 c j l2 m', out = l1 ++ (c, Some j) :: l2 ->
        nth_error ms (N.to_nat j) = Some m' ->
        forall p, In p (nbrs m' c) -> In p (map fst l2)).
Proof.
  intros ms start out W H. apply out_okb_spec in H. split; [|split].
  - now apply out_ok_complete.
  - apply H.
  - intros l1 c j l2 m' E Hn p Hp. eapply out_ok_order; eauto.
Qed.

(** The checker accepts what the model computes on every history passing [wfb]. *)
Theorem C46_model_accepted : forall ops start,
  let ms := some_prefix ops in
  wfb ms = true ->
  exists out, walk_predecessors ops start = (out, Done)
              /\ out_okb ms start out = true
              /\ (closedb ms start = true -> forallb tagged out = true).
Proof.
  intros ops start ms Hw. destruct (wfb_sound ms Hw) as [W R].
  destruct (walk_predecessors ops start) as [out st] eqn:E. exists out.
  assert (st = Done) as ->.
  { change st with (snd (out, st)). rewrite <- E. now apply C46_acyclic_done with (rank := N.to_nat). }
  split; [reflexivity|].
  unfold walk_predecessors in E. rewrite walk_some_prefix in E. fold ms in E. split.
  - apply out_okb_spec. now apply walk_out_ok.
  - intros C. apply closedb_sound in C. eapply walk_closed_all_tagged; eauto.
Qed.

(** Under [wfb] the model's list passes the FULL checker: nothing is listed twice. *)
Theorem C46_model_once : forall ops start,
  let ms := some_prefix ops in
  wfb ms = true ->
  exists out, walk_predecessors ops start = (out, Done) /\ nodupb (map fst out) = true.
Proof.
  intros ops start ms Hw. destruct (C46_model_accepted ops start Hw) as (out & E & _ & _).
  exists out. split; [assumption|]. apply nodupb_spec.
  destruct (wfb_sound ms Hw) as [W _].
  now destruct (C46_complete_once ops start out W E) as (_ & H & _).
Qed.

(** F6 (repaired by /repo commit 77438d6).  With the flush as it was before the repair
    ([flush_old]: no de-duplication) "exactly once" is FALSE of the model: a commit recorded
    by no operation (imported from Git, or older than predecessor records) that is reached
    along two rewrite paths was listed twice.  Witness: 4 squashes 3 and 2, both rewrites
    of 1, and no operation records 1.  The same witness is corpus case 0 of the harness. *)
Theorem C46_once_old_refuted : exists ops start out,
  WF (some_prefix ops) /\ walk_predecessors_old ops start = (out, Done) /\ ~ NoDup (map fst out).
Proof.
  exists [Some [(4, [3; 2])]; Some [(3, [1])]; Some [(2, [1])]]%N, [4%N],
         [(4, Some 0); (3, Some 1); (2, Some 2); (1, None); (1, None)]%N.
  split; [|split].
  - apply wfb_sound. vm_compute. reflexivity.
  - vm_compute. reflexivity.
  - intros H. apply nodupb_spec in H. vm_compute in H. discriminate.
Qed.

(** ** Histories produced by the transaction layer.
    [gen E ops] (Proofs/C46Gen.v): operations appended in creation order, each started from
    earlier operations (one parent for an ordinary transaction, several for a reconciliation
    by [merge_operations]); its map records only commits that are new — to the repository, as
    [CommitBuilder::write] checks, and to concurrent operations, by the content-hash
    assumption — with predecessors the repository already had ([E] = commits recorded by no
    operation, e.g. imported from Git).  [walk_ok ops w]: [w] lists operations so that none
    comes after one of its descendants, as [walk_ancestors] does.  Such histories are [WF]. *)
Theorem C46_generated_wf : forall (E : N -> Prop) ops w,
  gen E ops -> walk_ok ops w -> WF (map (hmap ops) w).
Proof. exact gen_WF. Qed.

(** So for EVERY history the transaction layer can produce, every admissible walk order and
    every start set, the evolution walk ends without error and lists exactly the reachable
    commits, each once, each before the predecessors its operation recorded. *)
Theorem C46_generated : forall (E : N -> Prop) ops w start,
  gen E ops -> walk_ok ops w ->
  let ms := map (hmap ops) w in
  exists out,
    walk_predecessors (map Some ms) start = (out, Done)
    /\ (forall x, In x (map fst out) <-> greach_from ms start x)
    /\ NoDup (map fst out)
    /\ (forall l1 c j l2, out = l1 ++ (c, Some j) :: l2 ->
         exists m', nth_error ms (N.to_nat j) = Some m' /\ is_key m' c = true
                    /\ forall p, In p (nbrs m' c) -> In p (map fst l2) /\ ~ In p (map fst l1)).
Proof.
  intros E ops w start Hg Hw ms.
  assert (W : WF ms) by (now apply (gen_WF E)).
  destruct (walk_predecessors (map Some ms) start) as [out st] eqn:Ew. exists out.
  assert (st = Done) as ->.
  { change st with (snd (out, st)). rewrite <- Ew. unfold ms. rewrite map_map.
    now apply (gen_done E). }
  split; [reflexivity|].
  assert (Hp : some_prefix (map Some ms) = ms) by apply some_prefix_map_Some.
  pose proof (C46_complete_once (map Some ms) start out) as H1. cbv zeta in H1. rewrite Hp in H1.
  destruct (H1 W Ew) as (Hc & Hn & _ & _).
  split; [assumption|]. split; [assumption|].
  intros l1 c j l2 Eo.
  pose proof (C46_topological (map Some ms) start out) as H2. cbv zeta in H2. rewrite Hp in H2.
  exact (H2 W Ew l1 c j l2 Eo).
Qed.

Check C46_terminates : forall ops start, snd (walk_predecessors ops start) <> OutOfFuel.
Check C46_complete_once.
Check C46_topological.

(** Non-vacuity: a history with a transitive rewrite inside one operation, a two-predecessor
    rewrite across operations and a commit recorded nowhere; and a cyclic map. *)
Example C46_nonvacuous :
  let ops := [Some [(5, [4; 3])]; Some [(3, [2]); (4, [1]); (2, [1])]; Some [(1, [])]]%N in
  wfb (some_prefix ops) = true
  /\ closedb (some_prefix ops) [5]%N = true
  /\ walk_predecessors ops [5]%N
     = ([(5, Some 0); (4, Some 1); (3, Some 1); (2, Some 1); (1, Some 2)]%N, Done)
  /\ walk_predecessors [Some [(1, [2]); (2, [1])]]%N [1]%N = ([], Cycle 2%N)
  /\ walk_predecessors [Some [(3, [9; 9])]; None; Some [(9, [])]]%N [3]%N
     = ([(3, Some 0); (9, None)]%N, Done).
Proof. vm_compute. repeat split. Qed.

(** Non-vacuity of [gen]: commit 1 created, rewritten concurrently into 2 and 3 by two
    operations started from the same one, and a reconciling operation with both as parents
    that records 4 as a rewrite of 3; both admissible walk orders are accepted. *)
Example C46_gen_nonvacuous :
  let ops := [mk_hop [] [(1, [])]%N; mk_hop [0%nat] [(2, [1])]%N; mk_hop [0%nat] [(3, [1])]%N;
              mk_hop [1%nat; 2%nat] [(4, [3])]%N] in
  gen (fun _ => False) ops /\ walk_ok ops [3; 1; 2; 0]%nat /\ walk_ok ops [3; 2; 1; 0]%nat.
Proof.
  set (E := fun _ : N => False).
  set (h0 := mk_hop [] [(1, [])]%N). set (h1 := mk_hop [0%nat] [(2, [1])]%N).
  set (h2 := mk_hop [0%nat] [(3, [1])]%N). set (h3 := mk_hop [1%nat; 2%nat] [(4, [3])]%N).
  assert (Hfresh : forall (ops : list hop) c,
            (forall o, In o ops -> is_key (h_map o) c = false) ->
            forall i, is_key (hmap ops i) c = false).
  { intros ops c H i. unfold hmap. destruct (nth_error ops i) eqn:En; [|reflexivity].
    apply H. eapply nth_error_In; eauto. }
  assert (G0 : gen E [h0]).
  { apply (gen_snoc E [] [] [(1, [])]%N); [constructor|intros p []|].
    apply vt_cons; [constructor|unfold E; tauto| |reflexivity|intros p []].
    apply Hfresh. intros o []. }
  assert (G1 : gen E [h0; h1]).
  { apply (gen_snoc E [h0] [0%nat] [(2, [1])]%N G0); [intros p [<-|[]]; cbn; lia|].
    apply vt_cons; [constructor|unfold E; tauto| |reflexivity|].
    - apply Hfresh. intros o [<-|[]]. reflexivity.
    - intros p [<-|[]]. left. right. exists 0%nat, 0%nat. repeat split; [now left|constructor]. }
  assert (G2 : gen E [h0; h1; h2]).
  { apply (gen_snoc E [h0; h1] [0%nat] [(3, [1])]%N G1); [intros p [<-|[]]; cbn; lia|].
    apply vt_cons; [constructor|unfold E; tauto| |reflexivity|].
    - apply Hfresh. intros o [<-|[<-|[]]]; reflexivity.
    - intros p [<-|[]]. left. right. exists 0%nat, 0%nat. repeat split; [now left|constructor]. }
  assert (G3 : gen E [h0; h1; h2; h3]).
  { apply (gen_snoc E [h0; h1; h2] [1%nat; 2%nat] [(4, [3])]%N G2);
      [intros p [<-|[<-|[]]]; cbn; lia|].
    apply vt_cons; [constructor|unfold E; tauto| |reflexivity|].
    - apply Hfresh. intros o [<-|[<-|[<-|[]]]]; reflexivity.
    - intros p [<-|[]]. left. right. exists 2%nat, 2%nat. repeat split; [right; now left|constructor]. }
  split; [exact G3|].
  pose proof (gen_scoped E _ G3) as Hs.
  assert (Hlt : forall b a, (b < a)%nat -> ~ anc [h0; h1; h2; h3] b a).
  { intros b a Hba H. apply (anc_le _ _ _ Hs) in H. lia. }
  assert (H21 : ~ anc [h0; h1; h2; h3] 2 1).
  { intros H. inversion H as [|? p ? Hp H']; subst. cbn in Hp. destruct Hp as [<-|[]].
    exact (Hlt 0%nat 1%nat ltac:(lia) H'). }
  assert (H12 : ~ anc [h0; h1; h2; h3] 1 2) by (apply Hlt; lia).
  split; cbn; repeat split; try (intros [H|H]; try lia; repeat (destruct H as [H|H]; try lia); fail);
    try tauto;
    intros b Hb; repeat (destruct Hb as [<-|Hb]; [try assumption; try (apply Hlt; lia)|]); try contradiction.
Qed.

Print Assumptions C46_terminates.
Print Assumptions C46_cycle_sound.
Print Assumptions C46_generated_wf.
Print Assumptions C46_generated.
Print Assumptions C46_complete_once.
Print Assumptions C46_topological.
Print Assumptions C46_checker_sound.
Print Assumptions C46_model_accepted.
Print Assumptions C46_model_once.
Print Assumptions C46_once_old_refuted.
