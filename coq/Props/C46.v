(** C46 — Evolution history is complete and acyclic.
    Model/C46.v transcribes lib/src/evolution.rs [walk_predecessors] (the in-place splice
    loop of [visit_op], the single-entry fast path, [flush_commits]) and the iterative
    depth-first sort of core/src/dag_walk.rs that [visit_op] calls.  Operations are given in
    the order [op_walk::walk_ancestors] yields them (newest first). *)
From Coq Require Import Relations.
From Verif Require Import Base.Prelude Model.C46 Proofs.C46Scan Proofs.C46Topo Proofs.C46.

(** The walk never runs out of the fuel the model gives its two loops, for ANY list of
    operations and any predecessor maps (cyclic, duplicated, dangling): it ends with
    [Done] or with the error value [Cycle c]. *)
Theorem C46_terminates : forall (ops : list (option pmap)) (start : list N),
  snd (walk_predecessors ops start) <> OutOfFuel.
Proof. intros. apply walk_no_fuel. Qed.

(** The loops themselves: the stated fuel suffices for every input. *)
Theorem C46_loops_terminate : forall (m : pmap) (l : list N),
  scan m l <> None /\ topo_reverse m l <> None.
Proof. intros. split; [apply scan_terminates|apply topo_terminates]. Qed.

(** Operations behind one that stores no predecessor records play no role. *)
Theorem C46_legacy_truncation : forall ops start,
  walk_predecessors ops start = walk_predecessors (map Some (some_prefix ops)) start.
Proof. intros. apply walk_some_prefix. Qed.

(** If every recorded rewrite increases some rank (the predecessor relation inside each
    operation is acyclic), no cycle is reported. *)
Theorem C46_acyclic_done : forall (rank : N -> nat) ops start,
  Ranked rank (some_prefix ops) -> snd (walk_predecessors ops start) = Done.
Proof.
  intros rank ops start H. unfold walk_predecessors. rewrite walk_some_prefix.
  now apply walk_ranked_done with (rank := rank).
Qed.

(** A reported cycle is real: the commit lies on a cycle of predecessor edges recorded by one
    of the operations (so the error is never a false alarm, with or without [WF]). *)
Theorem C46_cycle_sound : forall ops start c,
  snd (walk_predecessors ops start) = Cycle c ->
  exists m, In (Some m) ops /\ clos_trans_1n N (edge m) c c.
Proof. intros ops start c H. exact (walk_cycle_sound ops 0 start c H). Qed.

(** Completeness and uniqueness.  [WF]: a commit is recorded by at most one operation and
    recorded predecessors are never commits recorded by a newer operation.  Then the walk
    lists exactly the commits reachable from the start commits through recorded
    predecessor edges, each exactly ONCE; commits listed without an operation are recorded
    nowhere; and when every reachable commit is recorded somewhere ([Closed]) every entry
    is attributed to an operation. *)
Theorem C46_complete_once : forall ops start out,
  let ms := some_prefix ops in
  WF ms -> walk_predecessors ops start = (out, Done) ->
  (forall x, In x (map fst out) <-> greach_from ms start x)
  /\ NoDup (map fst out)
  /\ (forall c, In (c, None) out -> ~ key_any ms c)
  /\ (Closed ms start -> forallb tagged out = true).
Proof.
  intros ops start out ms W H. unfold walk_predecessors in H. rewrite walk_some_prefix in H.
  fold ms in H. pose proof (walk_spec ms 0 start out W H) as [Hsnd Hcmp Htag Hunt Hnd Hnda Hord].
  split; [|split; [assumption|split; [assumption|]]].
  - intros x. split; [|apply Hcmp]. intros Hx. apply in_map_iff in Hx.
    destruct Hx as ([c tag] & <- & Hin). eapply Hsnd; eauto.
  - intros C. exact (walk_closed_all_tagged ms start out W C H).
Qed.

(** Order: an entry comes before every predecessor its operation recorded for it, and
    none of them comes earlier — each commit is listed after all of its own rewrites. *)
Theorem C46_topological : forall ops start out,
  let ms := some_prefix ops in
  WF ms -> walk_predecessors ops start = (out, Done) ->
  forall l1 c j l2, out = l1 ++ (c, Some j) :: l2 ->
  exists m', nth_error ms (N.to_nat j) = Some m' /\ is_key m' c = true
             /\ forall p, In p (nbrs m' c) -> In p (map fst l2) /\ ~ In p (map fst l1).
Proof.
  intros ops start out ms W H l1 c j l2 E. unfold walk_predecessors in H.
  rewrite walk_some_prefix in H. fold ms in H.
  pose proof (walk_spec ms 0 start out W H) as [Hsnd Hcmp Htag Hunt Hnd Hnda Hord].
  assert (Hin : In (c, Some j) out) by (rewrite E; apply in_or_app; right; now left).
  destruct (Htag c j Hin) as (i & m' & Ej & Hn & Hk).
  assert (N.to_nat j = i) as -> by (subst j; rewrite N.add_0_l; apply Nat2N.id).
  exists m'. split; [assumption|]. split; [assumption|].
  intros p Hp. eapply Hord; eauto.
Qed.

(** The boolean well-formedness test of the checker implies [WF] and acyclicity. *)
Theorem C46_wfb_sound : forall ms, wfb ms = true -> WF ms /\ Ranked N.to_nat ms.
Proof. exact wfb_sound. Qed.

Theorem C46_closedb_sound : forall ms start, closedb ms start = true -> Closed ms start.
Proof. exact closedb_sound. Qed.

(** Meaning of the checker that is run on the IMPLEMENTATION's output: on a well-formed
    history an accepted list contains every reachable commit, no attributed commit twice,
    and every entry's recorded predecessors strictly later. *)
Theorem C46_checker_sound : forall ms start out,
  WF ms -> out_okb ms start out = true ->
  (forall x, greach_from ms start x -> In x (map fst out))
  /\ NoDup (map fst (filter tagged out))
  /\ (forall l1 c j l2 m', out = l1 ++ (c, Some j) :: l2 ->
        nth_error ms (N.to_nat j) = Some m' ->
        forall p, In p (nbrs m' c) -> In p (map fst l2)).
Proof.
  intros ms start out W H. apply out_okb_spec in H. split; [|split].
  - now apply out_ok_complete.
  - apply H.
  - intros l1 c j l2 m' E Hn p Hp. eapply out_ok_order; eauto.
Qed.

(** The checker accepts what the model computes on every history passing [wfb]. *)
Theorem C46_model_accepted : forall ops start,
  let ms := some_prefix ops in
  wfb ms = true ->
  exists out, walk_predecessors ops start = (out, Done)
              /\ out_okb ms start out = true
              /\ (closedb ms start = true -> forallb tagged out = true).
Proof.
  intros ops start ms Hw. destruct (wfb_sound ms Hw) as [W R].
  destruct (walk_predecessors ops start) as [out st] eqn:E. exists out.
  assert (st = Done) as ->.
  { change st with (snd (out, st)). rewrite <- E. now apply C46_acyclic_done with (rank := N.to_nat). }
  split; [reflexivity|].
  unfold walk_predecessors in E. rewrite walk_some_prefix in E. fold ms in E. split.
  - apply out_okb_spec. now apply walk_out_ok.
  - intros C. apply closedb_sound in C. eapply walk_closed_all_tagged; eauto.
Qed.

(** Under [wfb] the model's list passes the FULL checker: nothing is listed twice. *)
Theorem C46_model_once : forall ops start,
  let ms := some_prefix ops in
  wfb ms = true ->
  exists out, walk_predecessors ops start = (out, Done) /\ nodupb (map fst out) = true.
Proof.
  intros ops start ms Hw. destruct (C46_model_accepted ops start Hw) as (out & E & _ & _).
  exists out. split; [assumption|]. apply nodupb_spec.
  destruct (wfb_sound ms Hw) as [W _].
  now destruct (C46_complete_once ops start out W E) as (_ & H & _).
Qed.

(** F6 (repaired by /repo commit 77438d6).  With the flush as it was before the repair
    ([flush_old]: no de-duplication) "exactly once" is FALSE of the model: a commit recorded
    by no operation (imported from Git, or older than predecessor records) that is reached
    along two rewrite paths was listed twice.  Witness: 4 squashes 3 and 2, both rewrites
    of 1, and no operation records 1.  The same witness is corpus case 0 of the harness. *)
Theorem C46_once_old_refuted : exists ops start out,
  WF (some_prefix ops) /\ walk_predecessors_old ops start = (out, Done) /\ ~ NoDup (map fst out).
Proof.
  exists [Some [(4, [3; 2])]; Some [(3, [1])]; Some [(2, [1])]]%N, [4%N],
         [(4, Some 0); (3, Some 1); (2, Some 2); (1, None); (1, None)]%N.
  split; [|split].
  - apply wfb_sound. vm_compute. reflexivity.
  - vm_compute. reflexivity.
  - intros H. apply nodupb_spec in H. vm_compute in H. discriminate.
Qed.

Check C46_terminates : forall ops start, snd (walk_predecessors ops start) <> OutOfFuel.
Check C46_complete_once.
Check C46_topological.

(** Non-vacuity: a history with a transitive rewrite inside one operation, a two-predecessor
    rewrite across operations and a commit recorded nowhere; and a cyclic map. *)
Example C46_nonvacuous :
  let ops := [Some [(5, [4; 3])]; Some [(3, [2]); (4, [1]); (2, [1])]; Some [(1, [])]]%N in
  wfb (some_prefix ops) = true
  /\ closedb (some_prefix ops) [5]%N = true
  /\ walk_predecessors ops [5]%N
     = ([(5, Some 0); (4, Some 1); (3, Some 1); (2, Some 1); (1, Some 2)]%N, Done)
  /\ walk_predecessors [Some [(1, [2]); (2, [1])]]%N [1]%N = ([], Cycle 2%N)
  /\ walk_predecessors [Some [(3, [9; 9])]; None; Some [(9, [])]]%N [3]%N
     = ([(3, Some 0); (9, None)]%N, Done).
Proof. vm_compute. repeat split. Qed.

Print Assumptions C46_terminates.
Print Assumptions C46_cycle_sound.
Print Assumptions C46_complete_once.
Print Assumptions C46_topological.
Print Assumptions C46_checker_sound.
Print Assumptions C46_model_accepted.
Print Assumptions C46_model_once.
Print Assumptions C46_once_old_refuted.
