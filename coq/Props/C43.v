(** C43 — Per-repo configuration cannot be injected by a copied repository.
    Model/C43.v transcribes SecureConfig::maybe_load_config / load_config,
    handle_metadata_path, generate_config and maybe_migrate_legacy_config of
    lib/src/secure_config.rs over an abstract file system (directory objects with aliases,
    per-repo id / legacy files and writability, the per-id directories under the user's
    config root) and an oracle stream of random bytes. Not modelled: the per-instance
    cache, I/O errors other than "repo directory not writable", non-Unix path encodings. *)
From Verif Require Import Base.Prelude Base.C16Lib Gen.Tables Model.C43 Proofs.C16Lib Proofs.C43.
Local Open Scope N_scope.

(** Whatever the file system and the repo directory contain, a returned config file is
    <root>/<id>/config.toml where <id> has exactly 2*CONFIG_ID_BYTES hex digits ... *)
Theorem C43_confined : forall w g root p,
  rng_okb g = true ->
  confined root (fst (fst (maybe_load_config w g root p)))
  /\ confined root (fst (fst (load_config w g root p))).
Proof. exact confined_both. Qed.

(** ... hence a single normal path component: non-empty, without '/' or NUL, not "." or "..". *)
Theorem C43_id_is_component : forall s, id_okb s = true -> component_okb s = true.
Proof. exact id_ok_component. Qed.

(** Freshly generated ids are well-formed (for any CONFIG_ID_BYTES random bytes). *)
Theorem C43_fresh_id_ok : forall g,
  rng_okb g = true -> id_okb (fst (next_id g)) = true /\ rng_okb (snd (next_id g)) = true.
Proof. exact next_id_ok. Qed.

(** A malformed id file is rejected, and nothing on disk is touched. *)
Theorem C43_bad_id_rejected : forall w g root p o r s,
  repo_at w p = Some (o, r) -> r_id_file r = IdContent s -> id_okb s = false ->
  maybe_load_config w g root p = (LErr EBadConfigId, w, g)
  /\ load_config w g root p = (LErr EBadConfigId, w, g).
Proof. exact bad_id_rejected. Qed.

(** A writable copy (a different directory object) whose recorded original still exists gets
    a fresh id: the configuration content is copied into the new directory, the copy's id
    file is rewritten, and the original repo, its configuration directory and its metadata
    are untouched (the last part when the fresh id differs from the old one, which fails
    with probability 2^-80). *)
Theorem C43_copy_gets_own : forall w b g root p o r s orig oo,
  repo_at w p = Some (o, r) -> r_id_file r = IdContent s -> id_okb s = true ->
  cd_md (cfg_at w s) = MdOk (Some orig) -> orig <> p ->
  dir_obj w orig = Some oo -> oo <> o -> r_writable r = true ->
  let newid := encode_hex b in
  exists w',
    maybe_load_config w (b :: g) root p
      = (LOk (mk_loaded (Some (cfg_path root newid)) (Some p) WCopied), w', g)
    /\ cd_md (cfg_at w' newid) = MdOk (Some p)
    /\ (cd_toml (cfg_at w s) <> None -> cd_toml (cfg_at w' newid) = cd_toml (cfg_at w s))
    /\ repo_at w' p = Some (o, mk_repo true (IdContent newid) (r_legacy r))
    /\ repo_at w' orig = repo_at w orig
    /\ (newid <> s -> cfg_at w' s = cfg_at w s /\ cfg_path root newid <> cfg_path root s).
Proof. exact copy_gets_own. Qed.

(** A moved repository (the recorded path is no longer a directory) keeps its file. *)
Theorem C43_move_keeps : forall w g root p o r s orig,
  repo_at w p = Some (o, r) -> r_id_file r = IdContent s -> id_okb s = true ->
  cd_md (cfg_at w s) = MdOk (Some orig) -> orig <> p -> dir_obj w orig = None ->
  exists w',
    maybe_load_config w g root p = (LOk (mk_loaded (Some (cfg_path root s)) (Some p) WNone), w', g)
    /\ cfg_at w' s = mk_cfg (MdOk (Some p)) (cd_toml (cfg_at w s))
    /\ repo_at w' p = repo_at w p.
Proof. exact move_keeps. Qed.

(** An alias of the original, or a copy in which no file can be created, shares the file
    and changes nothing; so does a repo whose recorded path is its own. *)
Theorem C43_alias_or_readonly_shares : forall w g root p o r s orig oo,
  repo_at w p = Some (o, r) -> r_id_file r = IdContent s -> id_okb s = true ->
  cd_md (cfg_at w s) = MdOk (Some orig) -> dir_obj w orig = Some oo ->
  (oo = o \/ r_writable r = false) ->
  maybe_load_config w g root p
  = (LOk (mk_loaded (Some (cfg_path root s)) (Some orig) WNone), w, g).
Proof. exact alias_or_readonly_shares. Qed.

Theorem C43_own_path_keeps : forall w g root p o r s,
  repo_at w p = Some (o, r) -> r_id_file r = IdContent s -> id_okb s = true ->
  cd_md (cfg_at w s) = MdOk (Some p) ->
  maybe_load_config w g root p = (LOk (mk_loaded (Some (cfg_path root s)) (Some p) WNone), w, g).
Proof. exact own_path_keeps. Qed.

(** Writes are confined as well: whatever the repo directory contains, a call changes only
    configuration directories named by well-formed ids and only the directory object it was
    called on — never another repository (in particular not the original of a copy), never
    a directory <root>/<malformed name>, never which paths are directories. *)
Theorem C43_writes_confined : forall w g root p r w' g',
  rng_okb g = true ->
  (maybe_load_config w g root p = (r, w', g') \/ load_config w g root p = (r, w', g')) ->
  frame w w' p.
Proof. exact writes_confined. Qed.

(** The checker run on the implementation's outputs. *)
Theorem C43_okb_spec : forall c : case,
  okb c = true <-> forall o, In o (k_ops c) -> load_ok (k_root c) o.
Proof. exact okb_spec. Qed.

Check C43_confined : forall w g root p,
  rng_okb g = true ->
  confined root (fst (fst (maybe_load_config w g root p)))
  /\ confined root (fst (fst (load_config w g root p))).

(** A history: a repo is created and loaded (fresh id), copied, the copy is loaded and gets
    its own id and a copy of the edited configuration; then the original is moved and keeps
    its file; a forged id file "../aaaaaaaaaaaaaaaaa" (20 bytes) is rejected. *)
Example C43_nonvacuous :
  let root := [[99]] in let p := [[114; 48]] in let q := [[114; 49]] in let m := [[114; 50]] in
  let b1 := repeat 171 10 in let b2 := repeat 18 10 in
  let w0 := apply_fs_op (mk_world [] [] []) (OMkRepo p) in
  exists w1 w2 w3 w4,
    load_config w0 [b1] root p
      = (LOk (mk_loaded (Some (cfg_path root (encode_hex b1))) (Some p) WNone), w1, [])
    /\ w2 = apply_fs_op (apply_fs_op w1 (OSetToml (encode_hex b1) (Some [120]))) (OCopy p q)
    /\ load_config w2 [b2] root q
      = (LOk (mk_loaded (Some (cfg_path root (encode_hex b2))) (Some q) WCopied), w3, [])
    /\ cd_toml (cfg_at w3 (encode_hex b2)) = Some [120]
    /\ load_config (apply_fs_op w3 (OMove p m)) [] root m
      = (LOk (mk_loaded (Some (cfg_path root (encode_hex b1))) (Some m) WNone), w4, [])
    /\ fst (fst (load_config (apply_fs_op w4 (OWriteId m (IdContent
            [46; 46; 47; 97; 97; 97; 97; 97; 97; 97; 97; 97; 97; 97; 97; 97; 97; 97; 97; 97]))) [] root m))
       = LErr EBadConfigId.
Proof.
  cbv zeta. do 4 eexists.
  split; [vm_compute; reflexivity|]. split; [reflexivity|].
  split; [vm_compute; reflexivity|]. split; [vm_compute; reflexivity|].
  split; vm_compute; reflexivity.
Qed.

Print Assumptions C43_confined.
Print Assumptions C43_writes_confined.
Print Assumptions C43_bad_id_rejected.
Print Assumptions C43_copy_gets_own.
Print Assumptions C43_move_keeps.
Print Assumptions C43_okb_spec.
